/-!
Model of the pluggable-consensus layer (`kernel/consensus/pluggable_consensus.go`): which consensus
instance judges a candidate block.

* the upgrade history is kept in contract storage (`$consensus/PluggableConfig`) as a JSON object
  `index ↦ config`, i.e. a Go `map[int]ConsensusConfig`: a set of pairs WITHOUT order (`Stored` is a list of
  pairs in an arbitrary order);
* `NewPluggableConsensus` (start / restart of a node): no stored history → one instance built from the
  genesis configuration; otherwise the instances of indices `0, 1, …, len-1` in that order (`restore`);
* `updateConsensus` (a live upgrade): refused by `checkSameNameConsensus` in some cases, otherwise the new
  configuration is stored under index `len` and its instance appended;
* `CheckMinerMatch` hands the block to the LAST instance of the list (`stepConsensus.tail()`).

A consensus kind is a name (0 single, 1 pow, 2 tdpos, 3 xpoa) and the identity of its configuration string.
-/
namespace XV.Plug

structure Kind where
  name : Nat
  cfg : Nat
deriving DecidableEq, Repr

abbrev Stored := List (Nat × Kind)

/-- `c[i]` of the Go map -/
def lookup (s : Stored) (i : Nat) : Option Kind :=
  match s with
  | [] => none
  | e :: rest => if e.1 = i then some e.2 else lookup rest i

/-- the restore loop `for i := 0; i < len(c); i++ { put(make(c[i])) }`, started at index `i` with `n` rounds to go -/
def restoreFrom (s : Stored) : Nat → Nat → List Kind
  | _, 0 => []
  | i, n + 1 => (match lookup s i with | some k => [k] | none => []) ++ restoreFrom s (i + 1) n

def restore (s : Stored) : List Kind := restoreFrom s 0 s.length

/-- the stored form of a history: entry `j` under index `o + j` (any order of the pairs denotes the same map) -/
def enumFrom : Nat → List Kind → Stored
  | _, [] => []
  | o, k :: ks => (o, k) :: enumFrom (o + 1) ks

structure Node where
  genesis : Kind
  stored : Stored        -- `[]`: the key was never written
  live : List Kind       -- `stepConsensus.cons`
deriving Repr

/-- `NewPluggableConsensus` on a ledger whose genesis block configures `g` and whose contract storage holds `s` -/
def boot (g : Kind) (s : Stored) : Node :=
  ⟨g, s, if s.isEmpty then [g] else restore s⟩

def restart (n : Node) : Node := boot n.genesis n.stored

/-- what `checkSameNameConsensus` answers when its `range` over the map reaches entry `e` first among the
entries of the new configuration's name: identical configuration → refused only if `e` is the latest entry
(going back to an earlier instance is allowed); another configuration of that name (same bft flavour) →
refused.  `none`: the entry has another name and is skipped. -/
def entryVerdict (len : Nat) (k : Kind) (e : Nat × Kind) : Option Bool :=
  if e.2.name ≠ k.name then none
  else if e.2.cfg = k.cfg then some (e.1 = len - 1) else some true

def verdicts (c : Stored) (k : Kind) : List Bool := c.filterMap (entryVerdict c.length k)

/-- the map order decides when entries of the same name disagree -/
def ambiguous (c : Stored) (k : Kind) : Bool :=
  (verdicts c k).any id && (verdicts c k).any (!·)

def refuses (c : Stored) (k : Kind) : Bool := (verdicts c k).any id

/-- `updateConsensus` -/
def upgrade (n : Node) (k : Kind) : Node :=
  let c : Stored := if n.stored.isEmpty then [(0, n.genesis)] else n.stored
  if refuses c k then n
  else { n with stored := c ++ [(c.length, k)], live := n.live ++ [k] }

def inForce (n : Node) : Option Kind := n.live.getLast?

/-- `PluggableConsensus.CheckMinerMatch`: `sat k` = the block passes `CheckMinerMatch` of an instance of kind `k` -/
def check (n : Node) (sat : Kind → Bool) : Bool :=
  match inForce n with
  | none => false
  | some k => sat k

inductive Ev where
  | up (k : Kind)
  | restart
deriving Repr

def apply (n : Node) : Ev → Node
  | .up k => upgrade n k
  | .restart => restart n

def run (g : Kind) (evs : List Ev) : Node := evs.foldl apply (boot g [])

/-- the upgrades that took effect, restarts ignored: what the chain's own history says is in force -/
def effective (g : Kind) (evs : List Ev) : List Kind :=
  evs.foldl (fun (h : List Kind) e =>
    match e with
    | .restart => h
    | .up k => if refuses (enumFrom 0 h) k then h else h ++ [k]) [g]

end XV.Plug
