import XV.Gen.P2p
/-!
Model of kernel/network/p2p/dispatcher.go (`Register`, `UnRegister`, `Dispatch`, `MessageKey`,
`MaskHandled`, `IsHandled`) and of `subscriber.Match` (subscriber.go).  The de-duplication cache
(go-cache, 3 s time to live) runs on a logical millisecond clock advanced by `tick`.
Core Lean only.
-/
namespace XV.Dispatch

abbrev Str := List Char

/-- `MSG_TYPE_NONE`: the type `Register`/`UnRegister` refuse -/
def typeNone : Nat := 10

/-- de-duplication window of `MaskHandled` in milliseconds (`time.Duration(3)*time.Second`) -/
def window : Nat := 3000

/-- a subscriber object: identity `id` (a pointer in Go), subscribed type and the two filters
("" = no filter) -/
structure Sub where
  id : Nat
  typ : Nat
  bc : Str
  sender : Str
  deriving DecidableEq, Repr

/-- what `Dispatch` and `MessageKey` read of a message -/
structure MsgId where
  typ : Nat
  bc : Str
  sender : Str
  logid : Str
  sum : Nat
  deriving DecidableEq, Repr

/-- `subscriber.Match` -/
def sub_matches (s : Sub) (m : MsgId) : Bool :=
  if s.sender ≠ [] ∧ s.sender ≠ m.sender then false
  else if s.bc ≠ [] ∧ s.bc ≠ m.bc then false
  else true

/-- `header.GetType().String()`: the enum name, or the decimal number for an unknown value -/
def typeName (t : Nat) : Str :=
  match XV.Gen.msgTypeNames.lookup t with
  | some n => n.toList
  | none => Nat.toDigits 10 t

/-- the value of one key field, named as the extractor describes the expression written into the key -/
def keyField (m : MsgId) (desc : String) : Str :=
  if desc = "String,Type" then typeName m.typ
  else if desc = "Bcname" then m.bc
  else if desc = "From" then m.sender
  else if desc = "Logid" then m.logid
  else if desc = "%d,DataCheckSum" then Nat.toDigits 10 m.sum
  else []

/-- how a field is written: `fmt.Sprintf("%d:", len(field))` then the field (or the bare field if the
source does not length-prefix; which of the two is regenerated from dispatcher.go) -/
def encField (prefixed : Bool) (f : Str) : Str :=
  if prefixed then Nat.toDigits 10 f.length ++ ':' :: f else f

/-- `MessageKey` before hashing (the double SHA-256 is assumed injective): the fields listed in the
source, in order -/
def msgKey (m : MsgId) : Str :=
  XV.Gen.messageKeyFields.flatMap (fun d => encField XV.Gen.messageKeyLengthPrefixed (keyField m d))

structure State where
  subs : List Sub                 -- registered subscribers (all inner maps of `mc` together)
  types : List Nat                -- types that have an (possibly empty) inner map in `mc`
  handled : List (Str × Nat)      -- de-duplication cache: key ↦ expiry time
  now : Nat                       -- logical clock, ms
  deriving Repr

def init : State := { subs := [], types := [], handled := [], now := 0 }

inductive RegResult where
  | ok | subscriberErr | registered | notRegister
  deriving DecidableEq, Repr

/-- `Register` -/
def register (st : State) (s : Sub) : State × RegResult :=
  if s.typ = typeNone then (st, .subscriberErr)
  else
    let types := if s.typ ∈ st.types then st.types else s.typ :: st.types
    if s ∈ st.subs then ({ st with types := types }, .registered)
    else ({ st with types := types, subs := st.subs ++ [s] }, .ok)

/-- `UnRegister` -/
def unregister (st : State) (s : Sub) : State × RegResult :=
  if s.typ = typeNone then (st, .subscriberErr)
  else if s.typ ∉ st.types then (st, .notRegister)
  else if s ∉ st.subs then (st, .notRegister)
  else ({ st with subs := st.subs.filter (· ≠ s) }, .ok)

/-- `IsHandled`: an unexpired cache entry for the key exists (go-cache: expired iff now > expiry) -/
def isHandled (st : State) (k : Str) : Bool :=
  st.handled.any (fun e => e.1 = k ∧ st.now ≤ e.2)

/-- `MaskHandled`: (re)place the entry, expiry = now + window -/
def maskHandled (st : State) (k : Str) : State :=
  { st with handled := (k, st.now + window) :: st.handled.filter (fun e => e.1 ≠ k) }

inductive DispResult where
  | ok | streamNil | notRegister
  deriving DecidableEq, Repr

/-- the subscribers a dispatched message is handed to -/
def targets (st : State) (m : MsgId) : List Sub :=
  st.subs.filter (fun s => s.typ = m.typ ∧ sub_matches s m)

/-- `Dispatch` of a message with header and data present; returns the result and the subscribers
whose `HandleMessage` was called -/
def dispatch (st : State) (m : MsgId) (hasStream : Bool) : State × DispResult × List Sub :=
  if isHandled st (msgKey m) then (st, .ok, [])
  else if !hasStream then (st, .streamNil, [])
  else if m.typ ∉ st.types then (st, .notRegister, [])
  else (maskHandled st (msgKey m), .ok, targets st m)

def tick (st : State) (ms : Nat) : State := { st with now := st.now + ms }

/-- histories -/
inductive Op where
  | register (s : Sub)
  | unregister (s : Sub)
  | dispatch (m : MsgId) (hasStream : Bool)
  | tick (ms : Nat)
  deriving Repr

def applyOp (st : State) : Op → State
  | .register s => (register st s).1
  | .unregister s => (unregister st s).1
  | .dispatch m hs => (dispatch st m hs).1
  | .tick ms => tick st ms

def runOps (st : State) (ops : List Op) : State := ops.foldl applyOp st

end XV.Dispatch
