import XV.Model.Chain
import XV.Model.Ledger
/-!
Crash model over the L1 models `XV.Chain` (state DB) and `XV.Ledger` (ledger DB).

The executable models return whole states; in the implementation every operation is a sequence of *atomic write
groups* (LevelDB batches), and the process may die between any two of them:

* `ConfirmBlock`              one ledger batch
* `Truncate`                  one ledger batch
* `DoTx`                      one state batch (effects + pool record)
* `PlayAndRepost`/`PlayForMiner`  one state batch
* `Walk`                      a SEQUENCE of state batches:
    (1) one batch rolling back the whole pool,
    (2) one batch per undone block (newest first),
    (3) one batch per applied block (oldest first),
    (4) one `DoTx` batch per re-admitted pending transaction (a refused re-admission writes nothing).
  A step that fails (undo refused at the irreversible height, block not applicable) writes nothing and ends the
  walk; the batches completed before it stay.

`walkTrace` lists the state after each of these batches, built from the very helper functions `walk` uses
(`walk.undoAll`, `walk.todoAll`, `undoBlock`, `todoBlock`, `doTx`); `walkTrace_getLast` ties its last element to `walk`.
`Node` pairs the two databases, `opTrace` is the node after each batch of one operation, `crashStates` is every node
a history can leave behind when the process dies after any batch (prefix closure), `recover` is the restart
(synchronise the state to the ledger tip). Nothing here changes the frozen models: everything is defined from them.
-/
namespace XV.Crash
open XV.Chain

-- ---------------------------------------------------------------- the batches of `walk`

/-- batch (1) of `walk`: the whole pool rolled back, newest first, and the pool table emptied -/
def rolledBack (e : Env) (s : St) : St :=
  { (s.pool.reverse.foldl (fun st i => undoTx e st (e.tx i)) s) with pool := [] }

/-- batches (2): the state after each undone block; the list ends where `walk.undoAll` refuses -/
def undoSteps (e : Env) (prune : Bool) : List Nat → St → List St
  | [], _ => []
  | bi :: rest, st =>
    let b := e.block bi
    if !prune && (b.height : Int) ≤ st.irrev then []
    else undoBlock e st b prune :: undoSteps e prune rest (undoBlock e st b prune)

/-- batches (3): the state after each applied block; the list ends where `todoBlock` fails -/
def todoSteps (e : Env) (lh : Int) : List Nat → St → List St
  | [], _ => []
  | bi :: rest, st =>
    match todoBlock e st lh (e.block bi) with
    | some st' => st' :: todoSteps e lh rest st'
    | none => []

/-- batches (4): the state after each re-admitted pending transaction (a refused one writes no batch) -/
def repostSteps (e : Env) (lh : Int) : List Nat → St → List St
  | [], _ => []
  | i :: rest, st =>
    if (doTx e st lh i).2 = .ok then (doTx e st lh i).1 :: repostSteps e lh rest (doTx e st lh i).1
    else repostSteps e lh rest (doTx e st lh i).1

/-- the block-boundary part of the trace: after the roll-back, after each undone block, after each applied block -/
def walkMid (e : Env) (s : St) (lh : Int) (dest : Nat) (prune : Bool) : List St :=
  let s0 := rolledBack e s
  let ut := undoTodo e s.pointer dest
  let r1 := walk.undoAll e prune ut.1 s0
  s0 :: (undoSteps e prune ut.1 s0 ++ (if r1.2 then todoSteps e lh ut.2 r1.1 else []))

/-- the re-admission part of the trace (only reached when both loops completed) -/
def walkRepost (e : Env) (s : St) (lh : Int) (dest : Nat) (prune : Bool) : List St :=
  let s0 := rolledBack e s
  let ut := undoTodo e s.pointer dest
  let r1 := walk.undoAll e prune ut.1 s0
  let r2 := walk.todoAll e lh ut.2 r1.1
  if r1.2 && r2.2 then repostSteps e lh (repostList e s) r2.1 else []

/-- **the state after each atomic batch of `walk`**, in the order the batches are written -/
def walkTrace (e : Env) (s : St) (lh : Int) (dest : Nat) (prune : Bool) : List St :=
  walkMid e s lh dest prune ++ walkRepost e s lh dest prune

-- ---------------------------------------------------------------- the last element is what `walk` returns

/-- last element of a list, or `d` when the list is empty -/
def lastD (l : List St) (d : St) : St := l.getLast?.getD d

theorem lastD_nil (d : St) : lastD [] d = d := rfl

theorem lastD_cons (a : St) (l : List St) (d : St) : lastD (a :: l) d = lastD l a := by
  unfold lastD
  rw [List.getLast?_cons]
  rfl

theorem lastD_append (l1 l2 : List St) (d : St) : lastD (l1 ++ l2) d = lastD l2 (lastD l1 d) := by
  induction l1 generalizing d with
  | nil => rfl
  | cons a r ih => rw [List.cons_append, lastD_cons, lastD_cons, ih]

theorem getLast?_cons_lastD (a : St) (l : List St) : (a :: l).getLast? = some (lastD l a) := by
  rw [List.getLast?_cons]
  rfl

theorem undoSteps_last (e : Env) (prune : Bool) (l : List Nat) :
    ∀ st, lastD (undoSteps e prune l st) st = (walk.undoAll e prune l st).1 := by
  induction l with
  | nil => intro st; rfl
  | cons bi rest ih =>
    intro st
    unfold undoSteps walk.undoAll
    simp only
    split
    · rfl
    · rw [lastD_cons, ih]

theorem todoSteps_last (e : Env) (lh : Int) (l : List Nat) :
    ∀ st, lastD (todoSteps e lh l st) st = (walk.todoAll e lh l st).1 := by
  induction l with
  | nil => intro st; rfl
  | cons bi rest ih =>
    intro st
    unfold todoSteps walk.todoAll
    cases todoBlock e st lh (e.block bi) with
    | some st' => simp only; rw [lastD_cons, ih]
    | none => rfl

/-- a refused admission returns the state unchanged (one batch or none) -/
theorem doTx_refused (e : Env) (s : St) (lh : Int) (i : Nat) (h : ¬ (doTx e s lh i).2 = .ok) :
    (doTx e s lh i).1 = s := by
  unfold doTx at h ⊢
  by_cases hp : s.pool.contains i = true
  · rw [if_pos hp]
  · rw [if_neg hp] at h ⊢
    dsimp only at h ⊢
    cases hadm : admitTx s lh (e.tx i) <;> simp_all

theorem repostSteps_last (e : Env) (lh : Int) (l : List Nat) :
    ∀ st, lastD (repostSteps e lh l st) st = l.foldl (fun st i => (doTx e st lh i).1) st := by
  induction l with
  | nil => intro st; rfl
  | cons i rest ih =>
    intro st
    unfold repostSteps
    simp only [List.foldl_cons]
    split
    · rw [lastD_cons, ih]
    · rename_i h
      rw [doTx_refused e st lh i h, ih]

/-- `walk`, written with the names used here -/
theorem walk_eq (e : Env) (s : St) (lh : Int) (dest : Nat) (prune : Bool) :
    walk e s lh dest prune =
      (let s0 := rolledBack e s
       let ut := undoTodo e s.pointer dest
       let r1 := walk.undoAll e prune ut.1 s0
       if !r1.2 then (r1.1, false) else
       let r2 := walk.todoAll e lh ut.2 r1.1
       if !r2.2 then (r2.1, false) else
       ((repostList e s).foldl (fun st i => (doTx e st lh i).1) r2.1, true)) := by rfl

/-- **the last element of the trace is the state `walk` returns** — whether the walk succeeds or stops at a failing
step: in the latter case the trace ends with the last completed batch, which is exactly the state `walk` reports
(the failing step wrote nothing). -/
theorem walkTrace_getLast (e : Env) (s : St) (lh : Int) (dest : Nat) (prune : Bool) :
    (walkTrace e s lh dest prune).getLast? = some (walk e s lh dest prune).1 := by
  rw [walk_eq]
  unfold walkTrace walkMid walkRepost
  simp only
  rw [List.cons_append, getLast?_cons_lastD, lastD_append, lastD_append, undoSteps_last]
  cases h1 : (walk.undoAll e prune (undoTodo e s.pointer dest).1 (rolledBack e s)).2 with
  | false => simp [lastD_nil]
  | true =>
    simp only [↓reduceIte, Bool.true_and, Bool.not_true, Bool.false_eq_true]
    rw [todoSteps_last]
    cases h2 : (walk.todoAll e lh (undoTodo e s.pointer dest).2
        (walk.undoAll e prune (undoTodo e s.pointer dest).1 (rolledBack e s)).1).2 with
    | false => simp [lastD_nil]
    | true =>
      simp only [↓reduceIte, Bool.not_true, Bool.false_eq_true]
      rw [repostSteps_last]

/-- the trace is never empty: the roll-back batch is always there -/
theorem walkTrace_ne_nil (e : Env) (s : St) (lh : Int) (dest : Nat) (prune : Bool) :
    walkTrace e s lh dest prune ≠ [] := by
  unfold walkTrace walkMid
  simp

-- ---------------------------------------------------------------- nodes, operations, histories

/-- a node: the ledger DB and the state DB -/
structure Node where
  l : XV.Ledger.L := {}
  s : St := {}
deriving Repr, Inhabited

/-- the operations of a history; blocks and transactions are named by their ids in the environment -/
inductive Op where
  | submit (i : Nat)                    -- `DoTx`
  | confirm (b : Nat)                   -- `ConfirmBlock` (ledger)
  | play (b : Nat)                      -- `PlayAndRepost`
  | playMiner (b : Nat)                 -- `PlayForMiner`
  | walk (dest : Nat) (prune : Bool)    -- `Walk`
  | truncate (dest : Nat)               -- `Truncate` (ledger)
deriving Repr, DecidableEq, Inhabited

/-- the ledger height the state machine reads (frozen outputs) -/
def lh (n : Node) : Int := n.l.trunkHeight

/-- the transactions of block `b` with their coinbase flags, as `ConfirmBlock` receives them -/
def confirmArgs (e : Env) (b : Nat) : List (Nat × Bool) :=
  (e.block b).txs.map (fun t => (t, (e.tx t).coinbase))

/-- the node after the whole operation -/
def runOp (e : Env) (n : Node) : Op → Node
  | .submit i => { n with s := (doTx e n.s (lh n) i).1 }
  | .confirm b =>
    { n with l := (XV.Ledger.confirm n.l (e.block b).id ((e.block b).pre.getD 0) (confirmArgs e b)).1 }
  | .play b => { n with s := (play e n.s (lh n) (e.block b)).1 }
  | .playMiner b => { n with s := (playForMiner e n.s (lh n) (e.block b)).1 }
  | .walk dest prune => { n with s := (walk e n.s (lh n) dest prune).1 }
  | .truncate dest => { n with l := (XV.Ledger.truncate n.l dest).1 }

/-- **the node after each atomic batch of one operation**: one element for every operation but `walk`
(a refused operation writes nothing: its single element is the node itself) -/
def opTrace (e : Env) (n : Node) : Op → List Node
  | .walk dest prune => (walkTrace e n.s (lh n) dest prune).map (fun s => { n with s := s })
  | op => [runOp e n op]

theorem opTrace_getLast (e : Env) (n : Node) (op : Op) : (opTrace e n op).getLast? = some (runOp e n op) := by
  cases op with
  | walk dest prune =>
    unfold opTrace runOp
    rw [List.getLast?_map, walkTrace_getLast]
    rfl
  | submit i => rfl
  | confirm b => rfl
  | play b => rfl
  | playMiner b => rfl
  | truncate d => rfl

/-- the uninterrupted run of a history -/
def run (e : Env) (n : Node) (ops : List Op) : Node := ops.foldl (runOp e) n

/-- **every node a history can leave behind**: the process dies before the first batch, or after any batch of any
operation (the batches of one operation in order, the operations in order) -/
def crashStates (e : Env) (n : Node) : List Op → List Node
  | [] => [n]
  | op :: rest => n :: (opTrace e n op ++ crashStates e (runOp e n op) rest)

/-- restart (the first step of the miner loop, `miner.go`: "状态机walk，确保状态机和账本一致"): if the state's
pointer is not the ledger tip, the state machine is synchronised to the ledger tip by a consensus (non-pruning) walk -/
def recover (e : Env) (n : Node) : Node × Bool :=
  if n.s.pointer = n.l.tip then (n, true)
  else ({ n with s := (walk e n.s (lh n) n.l.tip false).1 }, (walk e n.s (lh n) n.l.tip false).2)

end XV.Crash
