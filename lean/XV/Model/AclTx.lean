import XV.Model.Acl
/-!
Model of the access-control half of `State.ImmediateVerifyTx` (property C11, end to end) and of read faults:

* `bcs/ledger/xledger/state/tx_verification.go`  `verifySignatures`, `verifyUTXOPermission`, `removeDuplicateUser`,
  `verifyContractPermission`, `verifyContractOwnerPermission`, `verifyRWSetPermission`
* `kernel/permission/acl/manager.go`             `GetAccountACL` / `GetContractMethodACL` (errors of the tip snapshot
  reader and stored bytes that are no rule are passed on as errors)
* `kernel/permission/acl/ptree/ptree.go`         `BuildAccountPermTree` / `BuildMethodPermTree` / `buildPermTree`
  (one ACL lookup per new node; the first lookup error ends the evaluation with an error)

Read faults.  `bad n = true` means: the lookup of the rule stored under name `n` answers an error (storage read error,
the pending writer of the key evicted under the reader, stored bytes that do not parse).  `buildPermTree` looks up the
ACL of EVERY name it meets (keys as well: `GetAccountACL(akname)` for every new node), the root first, and returns the
first error; so an evaluation fails as soon as one name among `lookupsAcc` / `lookupsMeth` cannot be read, whatever the
rules say.  A rule that cannot be read is never taken for "no rule stored".

The transaction.  Signature checking itself (ECDSA, address derivation) belongs to C07; the model takes as input, for
every signature the transaction carries, the key whose valid signature it is (`none` = it does not verify).  The
transactions are otherwise well formed (amounts, read/write sets as produced by a pre-execution): the remaining stages
of `ImmediateVerifyTx` (`verifyContractTxAmount`, `verifyTxRWSets`) accept them, which the correspondence run checks
on the real node for every generated transaction.  One exception, handled by the driver and not part of this model: a
storage read error on a key the transaction itself declares as read makes `verifyTxRWSets` fail (rejecting more, never
less).
-/
namespace XV.Acl

/-! ### read faults in the permission tree -/

/-- names whose rule is looked up while the permission tree of account `root` is built -/
def lookupsAcc (root : Name) (us : List URI) : List Name := root :: (belowRoot root us).flatten

/-- names whose rule is looked up while the permission tree of a contract method is built (besides the method rule) -/
def lookupsMeth (us : List URI) : List Name := us.flatten

/-- `utils.IdentifyAccount` when the lookups of the names in `bad` answer an error -/
def identifyAccountF (bad : Name → Bool) (env : Env) (root : Name) (us : List URI) : Bool :=
  !(lookupsAcc root us).any bad && identifyAccount env root us

/-- `utils.CheckContractMethodPerm`; `badRule`: the lookup of the method rule itself answers an error -/
def checkMethodPermF (bad : Name → Bool) (badRule : Bool) (env : Env) (rule : Option Rule) (us : List URI) : Bool :=
  !badRule && !(lookupsMeth us).any bad && checkMethodPerm env rule us

/-! ### the transaction -/

/-- one contract request of a transaction -/
inductive Act where
  | call                        -- a call of the contract method whose stored rule is `TxChain.mrule`
  | setAcl (a : Name)           -- $acl.SetAccountAcl: writes XCAccount/<a> (+ the key-to-account index)
  | newAcc (a : Name)           -- $acl.NewAccount:    writes XCAccount/<a> (+ the key-to-account index)
  | setMethod (c : Nat)         -- $acl.SetMethodAcl:  writes XCContract/<c>\x01<method>
deriving DecidableEq, Repr

structure Tx where
  init   : Name                 -- `tx.Initiator`
  isig   : List (Option Name)   -- `tx.InitiatorSigns`: the key whose valid signature it is (`none`: does not verify)
  auth   : List URI             -- `tx.AuthRequire`
  usig   : List (Option Name)   -- `tx.AuthRequireSigns`, likewise
  inputs : List Name            -- owners of `tx.TxInputs`, in order
  acts   : List Act             -- `tx.ContractRequests`, in order (`[]`: a plain transfer)
deriving Repr

/-- the chain a transaction is verified against -/
structure TxChain where
  env       : Env               -- account rules in force (confirmed tip; what the acl manager's snapshot reader yields)
  owner     : Nat → Option Name -- confirmed XCContract2Account entries
  pendOwner : Nat → Bool        -- the newest version of the owner entry is an unconfirmed one
  mrule     : Option Rule       -- stored rule of the callable contract method
  bad       : Name → Bool       -- read fault: the rule stored under this name cannot be read
  badM      : Act → Bool        -- read fault on the stored rule of the method this request names

/-- `IdentifyAK(uri, sign)`: the signature must be a valid one of the key named by the LAST component -/
def lastSigned (u : URI) (s : Option Name) : Bool :=
  match u.getLast?, s with
  | some (.key k), some (.key j) => k == j
  | _, _ => false

/-- the AuthRequire loop of `verifySignatures`; `ver` = `verifiedAddr` -/
def sigAuth : List (URI × Option Name) → List Name → Option (List Name)
  | [], ver => some ver
  | (u, s) :: rest, ver =>
    match u.getLast? with
    | none => none
    | some l =>
      if l ∈ ver then sigAuth rest ver
      else if lastSigned u s then sigAuth rest (l :: ver) else none

/-- the keys of the initiator signatures, if all of them verify -/
def allSigned : List (Option Name) → Option (List Name)
  | [] => some []
  | some (.key k) :: rest => (allSigned rest).map (fun ks => .key k :: ks)
  | _ :: _ => none

/-- `verifySignatures` (not XuperSign): the verified addresses, `none` = rejected -/
def verifySigs (ch : TxChain) (tx : Tx) : Option (List Name) :=
  if tx.auth.length ≠ tx.usig.length then none
  else match tx.init with
    | .key k =>
      match tx.isig with
      | some (.key j) :: _ => if j = k then sigAuth (tx.auth.zip tx.usig) [.key k] else none
      | _ => none
    | .acct a =>
      match tx.isig, allSigned tx.isig with
      | _ :: _, some ks =>
        if identifyAccountF ch.bad ch.env (.acct a) (ks.map (fun k => [Name.acct a, k]))
        then sigAuth (tx.auth.zip tx.usig) ks else none
      | _, _ => none

/-- the loop of `verifyUTXOPermission` over the owners of the token inputs; `ver` = `verifiedID` -/
def verifyUtxo (ch : TxChain) (auth : List URI) : List Name → List Name → Option (List Name)
  | [], ver => some ver
  | o :: rest, ver =>
    if o ∈ ver then verifyUtxo ch auth rest ver
    else match o with
      | .key _ => none                                   -- an address that did not sign
      | .acct _ =>
        if ch.bad o then none                            -- queryAccountACL: error
        else if (ch.env o).isNone then none              -- "valid account should have ACL info"
        else if identifyAccountF ch.bad ch.env o auth then verifyUtxo ch auth rest (o :: ver) else none

/-- `removeDuplicateUser`: the initiator (if it is an address) and the AuthRequire entries, first occurrences -/
def authUsers (init : Name) (auth : List URI) : List URI :=
  ((match init with | .key _ => [[init]] | .acct _ => []) ++ auth).eraseDups

def methodRuleOf (ch : TxChain) : Act → Option Rule
  | .call => ch.mrule
  | _ => none                   -- no rule is stored for the kernel's own methods

/-- `verifyContractPermission`: every request, in order -/
def verifyContractPerm (ch : TxChain) (tx : Tx) : Bool :=
  tx.acts.all (fun a => checkMethodPermF ch.bad (ch.badM a) ch.env (methodRuleOf ch a) (authUsers tx.init tx.auth))

/-- the write set a pre-execution of the request produces, by bucket -/
def writesOf : Act → List Write
  | .call => [.other]
  | .setAcl a => [.other, .account a]
  | .newAcc a => [.other, .account a]
  | .setMethod c => [.method c]

/-- the loop of `verifyRWSetPermission` with the identification and the owner lookup as parameters -/
def verifyWritesG (ident : Name → Bool) (own : Nat → Option Name) : List Write → List Name → Bool
  | [], _ => true
  | .account a :: ws, ver =>
    if a ∈ ver then verifyWritesG ident own ws ver
    else if ident a then verifyWritesG ident own ws (a :: ver) else false
  | .method c :: ws, ver =>
    match own c with
    | none => false
    | some o =>
      if o ∈ ver then verifyWritesG ident own ws ver
      else if ident o then verifyWritesG ident own ws (o :: ver) else false
  | .methodBadKey :: _, _ => false
  | .c2a none :: _, _ => false
  | .c2a (some a) :: ws, ver =>
    if a ∈ ver then verifyWritesG ident own ws ver
    else if ident a then verifyWritesG ident own ws (a :: ver) else false
  | .other :: ws, ver => verifyWritesG ident own ws ver

/-- `verifyContractOwnerPermission` reads the NEWEST version of the owner entry and refuses an unconfirmed one -/
def ownerInForce (ch : TxChain) (c : Nat) : Option Name := if ch.pendOwner c then none else ch.owner c

/-- `verifyRWSetPermission` on the write set of the requests (without requests it passes directly, and the write set
is empty) -/
def verifyRW (ch : TxChain) (tx : Tx) (ver : List Name) : Bool :=
  verifyWritesG (fun a => identifyAccountF ch.bad ch.env a tx.auth) (ownerInForce ch) (tx.acts.flatMap writesOf) ver

/-- the access-control stages of `State.ImmediateVerifyTx`, in the order of the code: signatures, token inputs,
contract method rules, write set -/
def verifyTx (ch : TxChain) (tx : Tx) : Bool :=
  match verifySigs ch tx with
  | none => false
  | some ver =>
    match verifyUtxo ch tx.auth tx.inputs ver with
    | none => false
    | some ver' => verifyContractPerm ch tx && verifyRW ch tx ver'

/-- the same chain without read faults -/
def TxChain.clean (ch : TxChain) : TxChain := { ch with bad := fun _ => false, badM := fun _ => false }

end XV.Acl
