/-!
Model of xupercore's access-control evaluation (property C11):

* `kernel/permission/acl/ptree/ptree.go`   `BuildAccountPermTree` / `BuildMethodPermTree` / `buildPermTree`
* `kernel/permission/acl/utils/utils.go`   `IdentifyAccount` / `CheckContractMethodPerm` / `validatePermTree`
* `kernel/permission/acl/rule/*.go`        `ThresholdValidator.Validate` / `AKSetsValidator.Validate`
* `bcs/ledger/xledger/state/tx_verification.go` `verifyRWSetPermission` (decision logic)

Names are abstract: `key n` is an address (`IsAccount(name) = 0`), `acct n` a contract account
(`IsAccount(name) = 1`).  A signer URI `acc/sub/ak` is the list of its components.

The permission tree of the Go code is a trie of the URIs: `buildPermTree` walks every URI from the
root and re-uses the child with the same name (`FindChild`) or appends a new one, so a node *is* a
prefix, its children are the distinct next components in order of first occurrence, and the URIs
that pass through it are described by their remaining suffixes (`below`).  `validatePermTree`
evaluates the BFS list backwards, i.e. every node after all of its children; the model evaluates a
node by recursion on its children (`nodeStatus`).  `fuel` bounds the number of nested account levels
below the node; `fuelFor` is always sufficient (`XV.C11.nodeStatus_fuel`).

Weights and thresholds are integers in units of 1/4 (the harness only generates dyadic values, so
float64 arithmetic is exact).

The model is the code AFTER the repair `fix: a key inside a signer uri counts only as last component`:
a key node has status Success iff some URI ends at it (`PermNode.Terminal`).  `nodeStatusV0` is the
code before the repair (a key node is always Success).
-/
namespace XV.Acl

inductive Name where
  | key (n : Nat)
  | acct (n : Nat)
deriving DecidableEq, Repr

abbrev URI := List Name

/-- `pb.Acl` restricted to what `validACL` lets into the ledger: a permission model of kind
SIGN_THRESHOLD (`AksWeight` map + `AcceptValue`) or SIGN_AKSET (`AkSets.Sets`). -/
inductive Rule where
  | thr (members : List (Name × Int)) (theta : Int)
  | sets (ss : List (List Name))
deriving Repr

/-- `AclManager.GetAccountACL`: `none` = no ACL stored under that name (`nil, nil`) -/
abbrev Env := Name → Option Rule

/-! ### the trie view of `buildPermTree` -/

/-- remove repetitions, keeping first occurrences (the order in which `buildPermTree` appends children) -/
def dedup : List Name → List Name
  | [] => []
  | x :: xs => x :: (dedup xs).filter (fun y => decide (y ≠ x))

/-- names of the children of a node, given the suffixes of the URIs passing through it -/
def childNames (below : List URI) : List Name := dedup (below.filterMap List.head?)

/-- suffixes of the URIs that continue from this node into child `c` -/
def under (c : Name) (below : List URI) : List URI :=
  below.filterMap (fun p => match p with
    | h :: t => if h = c then some t else none
    | [] => none)

/-! ### the validators (`rule/validator_threshold.go`, `rule/validator_aksets.go`) -/

/-- `findWeightInACL`: the weight listed for `n`, 0 if not listed -/
def weightOf : List (Name × Int) → Name → Int
  | [], _ => 0
  | (m, w) :: ms, n => if n = m then w else weightOf ms n

def sumW (ms : List (Name × Int)) : List Name → Int
  | [] => 0
  | c :: cs => weightOf ms c + sumW ms cs

/-- names of the children whose status is Success -/
def okNames (kids : List (Name × Bool)) : List Name := (kids.filter (fun k => k.2)).map (fun k => k.1)

/-- `ThresholdValidator.Validate`: sum the weights of the children with status Success -/
def thresholdOk (ms : List (Name × Int)) (theta : Int) (kids : List (Name × Bool)) : Bool :=
  decide (theta ≤ sumW ms (okNames kids))

/-- `findAkInNodeList`: first child with that name -/
def findKid (n : Name) : List (Name × Bool) → Option Bool
  | [] => none
  | (m, s) :: ks => if m = n then some s else findKid n ks

/-- `validateAkSet` -/
def setOk (kids : List (Name × Bool)) (set : List Name) : Bool :=
  !set.isEmpty && !kids.isEmpty && set.all (fun k => findKid k kids == some true)

/-- `AKSetsValidator.Validate` -/
def setsOk (ss : List (List Name)) (kids : List (Name × Bool)) : Bool := ss.any (setOk kids)

/-- the account branch of `validatePermTree`: no ACL stored = everyone passes -/
def ruleOk : Option Rule → List (Name × Bool) → Bool
  | none, _ => true
  | some (.thr ms theta), kids => thresholdOk ms theta kids
  | some (.sets ss), kids => setsOk ss kids

/-! ### `validatePermTree` -/

/-- status of the (non-root) node `c`; `below` = suffixes of the URIs passing through it (`[]` = a URI ends here) -/
def nodeStatus (env : Env) : Nat → Name → List URI → Bool
  | _, .key _, below => decide ([] ∈ below)
  | 0, .acct _, _ => false
  | fuel + 1, .acct a, below =>
    ruleOk (env (.acct a)) ((childNames below).map (fun c => (c, nodeStatus env fuel c (under c below))))

/-- the children of a node with their statuses -/
def kids (env : Env) (fuel : Nat) (below : List URI) : List (Name × Bool) :=
  (childNames below).map (fun c => (c, nodeStatus env fuel c (under c below)))

/-- the code before the repair: a key node is Success wherever it stands -/
def nodeStatusV0 (env : Env) : Nat → Name → List URI → Bool
  | _, .key _, _ => true
  | 0, .acct _, _ => false
  | fuel + 1, .acct a, below =>
    ruleOk (env (.acct a)) ((childNames below).map (fun c => (c, nodeStatusV0 env fuel c (under c below))))

def maxLen : List URI → Nat
  | [] => 0
  | u :: us => max u.length (maxLen us)

def fuelFor (us : List URI) : Nat := maxLen us

/-- account trees accept only URIs of at least two components that start with the root -/
def belowRoot (root : Name) (us : List URI) : List URI :=
  us.filterMap (fun u => match u with
    | h :: t => if h = root ∧ t ≠ [] then some t else none
    | [] => none)

/-- `IdentifyAccount` with an explicit bound on nested account levels -/
def identifyAccountD (env : Env) (d : Nat) (root : Name) (us : List URI) : Bool :=
  match root with
  | .key _ => true   -- the root (i = 0) named like an address: nothing is evaluated
  | .acct _ => ruleOk (env root) (kids env d (belowRoot root us))

/-- `utils.IdentifyAccount(aclMgr, root, us)` -/
def identifyAccount (env : Env) (root : Name) (us : List URI) : Bool :=
  identifyAccountD env (fuelFor us) root us

def checkMethodPermD (env : Env) (d : Nat) (rule : Option Rule) (us : List URI) : Bool :=
  ruleOk rule (kids env d us)

/-- `utils.CheckContractMethodPerm(aclMgr, us, contract, method)`, `rule` = the stored method ACL -/
def checkMethodPerm (env : Env) (rule : Option Rule) (us : List URI) : Bool :=
  checkMethodPermD env (fuelFor us) rule us

def identifyAccountV0 (env : Env) (root : Name) (us : List URI) : Bool :=
  match root with
  | .key _ => true
  | .acct _ => ruleOk (env root)
      ((childNames (belowRoot root us)).map (fun c => (c, nodeStatusV0 env (fuelFor us) c (under c (belowRoot root us)))))

/-! ### specification -/

/-- `Σ_{m ∈ members, m ∈ S} w m` -/
def memberSum : List (Name × Int) → (Name → Bool) → Int
  | [], _ => 0
  | (m, w) :: ms, S => (if S m then w else 0) + memberSum ms S

/-- the property's `sat`: the rule is satisfied by the set `S` of verified names -/
def Sat (r : Option Rule) (S : Name → Bool) : Prop :=
  match r with
  | none => True
  | some (.thr ms theta) => theta ≤ memberSum ms S
  | some (.sets ss) => ∃ set ∈ ss, set ≠ [] ∧ ∀ k ∈ set, S k = true

instance (r : Option Rule) (S : Name → Bool) : Decidable (Sat r S) := by
  unfold Sat
  split <;> infer_instance

/-- The set of names that count as verified at a node, given the suffixes `below` of the signer URIs
passing through it: a key counts iff some URI ends with exactly that key at this level (the last
component is what signature checking verified); an account counts iff some URI delegates through it
and its own rule is satisfied by what counts below it (`d` bounds the nesting). -/
def verified (env : Env) : Nat → List URI → Name → Bool
  | _, below, .key k => decide ([Name.key k] ∈ below)
  | 0, _, .acct _ => false
  | d + 1, below, .acct a =>
    decide (under (.acct a) below ≠ []) && decide (Sat (env (.acct a)) (verified env d (under (.acct a) below)))

def SpecAccount (env : Env) (d : Nat) (root : Name) (us : List URI) : Prop :=
  match root with
  | .key _ => True
  | .acct _ => Sat (env root) (verified env d (belowRoot root us))

def SpecMethod (env : Env) (d : Nat) (rule : Option Rule) (us : List URI) : Prop :=
  Sat rule (verified env d us)

instance (env : Env) (d : Nat) (root : Name) (us : List URI) : Decidable (SpecAccount env d root us) := by
  unfold SpecAccount
  split <;> infer_instance

instance (env : Env) (d : Nat) (rule : Option Rule) (us : List URI) : Decidable (SpecMethod env d rule us) := by
  unfold SpecMethod
  infer_instance

/-! ### decision logic of `verifyRWSetPermission` -/

/-- one element of the write set (`tx.TxOutputsExt`), by bucket -/
inductive Write where
  | account (a : Name)          -- XCAccount/<a>: the ACL of account a
  | method (c : Nat)            -- XCContract/<c>\x01<method>: a method ACL of contract c
  | methodBadKey                -- XCContract/<key without separator>
  | c2a (a : Option Name)       -- XCContract2Account/<c> := a   (none: nil value)
  | other
deriving DecidableEq, Repr

structure Chain where
  env   : Env                   -- account ACLs at the confirmed tip (AclManager reads the tip snapshot)
  owner : Nat → Option Name     -- confirmed XCContract2Account entries

/-- the loop of `verifyRWSetPermission`; `ver` = `verifiedID` (grows while looping) -/
def verifyWrites (ch : Chain) (auth : List URI) : List Write → List Name → Bool
  | [], _ => true
  | .account a :: ws, ver =>
    if a ∈ ver then verifyWrites ch auth ws ver
    else if identifyAccount ch.env a auth then verifyWrites ch auth ws (a :: ver) else false
  | .method c :: ws, ver =>
    match ch.owner c with
    | none => false
    | some o =>
      if o ∈ ver then verifyWrites ch auth ws ver
      else if identifyAccount ch.env o auth then verifyWrites ch auth ws (o :: ver) else false
  | .methodBadKey :: _, _ => false
  | .c2a none :: _, _ => false
  | .c2a (some a) :: ws, ver =>
    if a ∈ ver then verifyWrites ch auth ws ver
    else if identifyAccount ch.env a auth then verifyWrites ch auth ws (a :: ver) else false
  | .other :: ws, ver => verifyWrites ch auth ws ver

/-- `verifyRWSetPermission(tx, verifiedID)`: transactions without contract requests pass directly -/
def verifyRWSetPermission (ch : Chain) (hasRequests : Bool) (auth : List URI) (ws : List Write) (ver : List Name) : Bool :=
  if hasRequests then verifyWrites ch auth ws ver else true

end XV.Acl
