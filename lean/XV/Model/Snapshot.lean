import XV.Model.Chain
/-!
Model of snapshot reads (`xModSnapshot.Get`, state/xmodel/xmodel_snapshot.go): starting from the key's live
version, follow each writer's own input reference for the key backwards; a writer that is still pending
(found in the unconfirmed table) is skipped; the walk ends at the first writer whose recorded block has
height ≤ the snapshot height. `confH tx` is the height of the block recorded with a confirmed transaction
(`none` when the ledger does not know it).
-/
namespace XV.Snapshot
open XV.Chain

/-- the version of `key` that the writer of version `v` cited as its own input -/
def prevOf (e : Env) (v : Ver) (key : String) : Option Ver :=
  ((e.tx v.1).kin.find? (fun ki => ki.key == key)).bind (·.ver)

/-- the backwards walk; fuel bounds the length of the version chain -/
def walkBack (e : Env) (pool : List Nat) (confH : Nat → Option Nat) (h : Nat) (key : String) :
    Nat → Option Ver → Option Ver
  | 0, _ => none
  | _ + 1, none => none
  | fuel + 1, some v =>
    if pool.contains v.1 then walkBack e pool confH h key fuel (prevOf e v key)
    else match confH v.1 with
      | some bh => if bh ≤ h then some v else walkBack e pool confH h key fuel (prevOf e v key)
      | none => none

/-- `xModSnapshot.Get` at snapshot height `h` on state `s` -/
def snapshotGet (e : Env) (s : St) (confH : Nat → Option Nat) (h : Nat) (key : String) (fuel : Nat) : Option Ver :=
  walkBack e s.pool confH h key fuel (curVer s key)

end XV.Snapshot
