import XV.Model.Acl
/-!
Literal, imperative-style model of the permission tree code (executable only; no theorems):

* `ptree.buildPermTree`: nodes live in an array (index = pointer identity, 0 = root); every URI is walked from
  the root, `FindChild` re-uses the first child with the same name, otherwise a node is appended; the node of
  the last component is marked `Terminal`;
* `ptree.GetPermTreeList`: the BFS list;
* `utils.validatePermTree`: the BFS list is traversed backwards, every node's status is stored and the
  validators read the stored statuses of the children.

The theorems of C11 are about the trie recursion of `XV.Acl` (`identifyAccount`, `checkMethodPerm`); the driver
evaluates every op line with BOTH models and answers `model-split` if they differ, so each correspondence run
also checks `literal tree model = trie model` on every executed case.
-/
namespace XV.Acl.Tree
open XV.Acl

structure PNode where
  name     : Name
  terminal : Bool
  children : List Nat
deriving Repr

abbrev Tree := Array PNode

def blank : PNode := ⟨.key 0, false, []⟩

def node (t : Tree) (i : Nat) : PNode := t.getD i blank

/-- `PermNode.FindChild` -/
def findChild (t : Tree) (p : Nat) (n : Name) : Option Nat :=
  (node t p).children.find? (fun i => decide ((node t i).name = n))

/-- the inner loop of `buildPermTree` for one URI (components after the root for account trees) -/
def walk (t : Tree) (p : Nat) : List Name → Tree × Nat
  | [] => (t, p)
  | n :: rest =>
    match findChild t p n with
    | some c => walk t c rest
    | none =>
      let c := t.size
      let t := t.push ⟨n, false, []⟩
      let t := t.modify p (fun nd => { nd with children := nd.children ++ [c] })
      walk t c rest

def insertURI (t : Tree) (path : List Name) : Tree :=
  let (t, p) := walk t 0 path
  t.modify p (fun nd => { nd with terminal := true })

/-- `buildPermTree(root, aclMgr, aksuri, rootIsAccount)` -/
def build (rootName : Name) (rootIsAccount : Bool) (us : List URI) : Tree :=
  us.foldl (fun t u =>
    if rootIsAccount then
      match u with
      | h :: rest => if u.length < 2 || h ≠ rootName then t else insertURI t rest
      | [] => t
    else insertURI t u) #[⟨rootName, false, []⟩]

/-- `GetPermTreeList` -/
def bfs (t : Tree) : Array Nat := Id.run do
  let mut l : Array Nat := #[0]
  let mut pn := 0
  for _ in [0:t.size] do
    if pn < l.size then
      l := l ++ (node t (l.getD pn 0)).children.toArray
      pn := pn + 1
  return l

/-- `validatePermTree(root, isAccount)`; `rootRule` = ACL of the root node -/
def validate (env : Env) (rootRule : Option Rule) (isAccount : Bool) (t : Tree) : Bool := Id.run do
  let order := (bfs t).toList.reverse
  let mut status : Array Bool := Array.replicate t.size false   -- Success?
  for i in order do
    let nd := node t i
    let isAcct := (match nd.name with | .acct _ => true | .key _ => false) || (i == 0 && !isAccount)
    let res :=
      if !isAcct then nd.terminal || i == 0
      else
        let rule := if i == 0 then rootRule else env nd.name
        ruleOk rule (nd.children.map (fun c => ((node t c).name, status.getD c false)))
    status := status.setIfInBounds i res
  return status.getD 0 false

def identifyAccountT (env : Env) (root : Name) (us : List URI) : Bool :=
  validate env (env root) true (build root true us)

def checkMethodPermT (env : Env) (rule : Option Rule) (us : List URI) : Bool :=
  validate env rule false (build (.key 0) false us)

/-! ### lookup faults: `buildPermTree` asks the manager for the ACL of every NEW node and returns the first error -/

def walkF (bad : Name → Bool) (t : Tree) (p : Nat) : List Name → Option (Tree × Nat)
  | [] => some (t, p)
  | n :: rest =>
    match findChild t p n with
    | some c => walkF bad t c rest
    | none =>
      if bad n then none
      else
        let c := t.size
        let t := t.push ⟨n, false, []⟩
        let t := t.modify p (fun nd => { nd with children := nd.children ++ [c] })
        walkF bad t c rest

def insertURIF (bad : Name → Bool) (t : Tree) (path : List Name) : Option Tree :=
  (walkF bad t 0 path).map (fun (t, p) => t.modify p (fun nd => { nd with terminal := true }))

def buildF (bad : Name → Bool) (rootName : Name) (rootIsAccount : Bool) (us : List URI) : Option Tree :=
  us.foldlM (fun t u =>
    if rootIsAccount then
      match u with
      | h :: rest => if u.length < 2 || h ≠ rootName then some t else insertURIF bad t rest
      | [] => some t
    else insertURIF bad t u) #[⟨rootName, false, []⟩]

def identifyAccountTF (bad : Name → Bool) (env : Env) (root : Name) (us : List URI) : Bool :=
  if bad root then false
  else match buildF bad root true us with
    | none => false
    | some t => validate env (env root) true t

def checkMethodPermTF (bad : Name → Bool) (badRule : Bool) (env : Env) (rule : Option Rule) (us : List URI) : Bool :=
  if badRule then false
  else match buildF bad (.key 0) false us with
    | none => false
    | some t => validate env rule false t

end XV.Acl.Tree
