import XV.Model.Safety
/-!
Model of the chained-bft half of `CheckMinerMatch` of the xpoa and tdpos consensus
plugins (bcs/consensus/xpoa/xpoa.go, schedule.go; bcs/consensus/tdpos/tdpos.go,
schedule.go): WHICH validator set the justify certificate of a block is checked
against.  The certificate check itself is `XV.Safety.checkProposal` (C14, first
engine); this file adds the lookup of the validator set *in force for the
certified view* from the history of validator-set changes recorded on the chain.

Addresses, heights, views and terms are `Nat`s.  The chain state the plugins read
through `CreateSnapshot(block)` is abstracted to a list of `Edit`s: the block
height whose post-state first contains a new validator set (xpoa: the value of
`$xpoa/<version>_validates` written by `editValidates`; tdpos: the top-K of the
nominate / vote tables), in chain order.
-/
namespace XV.BftMatch
open XV.Safety

structure Edit where
  height : Nat
  set    : List Nat
deriving Repr, DecidableEq

/-- The validator set recorded in the snapshot taken at block `b`: the last edit (in
chain order) whose block is not above `b`; `none` when nothing was ever written
(the plugins then fall back to the configured initial validators). -/
def recordedAt : List Edit → Nat → Option (List Nat)
  | [], _ => none
  | e :: es, b =>
    match recordedAt es b with
    | some s => some s
    | none => if e.height ≤ b then some e.set else none

/-- What a node knows when it checks a block: `start` = StartHeight of the consensus
instance, `tip` = height of its ledger tip, the configured initial validators and
the edits recorded on its chain. -/
structure Chain where
  start : Nat
  tip   : Nat
  init  : List Nat
  edits : List Edit
deriving Repr

/-! ## xpoa -/

/-- `xpoaSchedule.getValidates(height)`: the snapshot of block `height - 3`
(an edit becomes effective 3 blocks after the block that contains it); `none` = the
ledger has no block of that height (QueryBlockByHeight fails → nil validators). -/
def xpoaGetValidates (c : Chain) (height : Nat) : Option (List Nat) :=
  if height < c.start + 3 then some c.init
  else if c.tip < height - 3 then none
  else some ((recordedAt c.edits (height - 3)).getD c.init)

/-- `xpoaSchedule.GetLocalValidates(_, round, storage)`: the validators of round
(= view = height) `view`; `bits` is the `targetBits` field of the consensus storage of
the block of that round (non-zero when its miner rolled the ledger back: the tip
height it computed its validators from). -/
def xpoaValidatorsAt (c : Chain) (view bits : Nat) : Option (List Nat) :=
  if view - 1 ≤ 3 then some c.init
  else xpoaGetValidates c (if bits = 0 then view - 1 else bits)

/-- `CheckProposal(_, justify, vals)` as accept / reject; `none` = nil validators
(`EmptyValidators`). -/
def matchQC (vals? : Option (List Nat)) (es : List Entry) : Bool :=
  match vals? with
  | none => false
  | some vals => decide (checkProposal vals es = .accept)

/-- A lookup of the validator set during which a storage read fails (`CreateSnapshot`, the snapshot reader's `Get` of
the validator record, of the nominate / vote records) answers NO set, whatever the record holds: an unreadable
record is not an unwritten one (`getValidatesByBlockId`, `getSnapshotKey` hand the error on; `GetLocalValidates`,
`CalOldProposers` answer nil). -/
def faultedLookup (failed : Bool) (s : Option (List Nat)) : Option (List Nat) :=
  if failed then none else s

/-- The certificate part of xpoa `CheckMinerMatch`: the justify certificate
(declared view `view`, signature entries `es`) of a block whose predecessor's
storage carries `preBits`. -/
def xpoaMatchQC (c : Chain) (view preBits : Nat) (es : List Entry) : Bool :=
  matchQC (xpoaValidatorsAt c view preBits) es

/-- The justify certificate of a block: the height of the ledger block whose id it
certifies (`cert`; the certificate's TRUE view), the view number it declares, its
signature entries (`valid` = verifies over the certified id). -/
structure Justify where
  cert : Nat
  view : Nat
  es   : List Entry
deriving Repr

/-- A candidate block as `CheckMinerMatch` sees it. `pos` is the position its
timestamp selects in the slot schedule (the harness always names the validator at
that position as proposer); `justify = none`: the storage has no justify field. -/
structure Cand where
  height  : Nat
  ownBits : Nat
  pos     : Nat
  justify : Option Justify
deriving Repr

/-- xpoa `CheckMinerMatch` with chained-bft enabled (after the repair `fix: xpoa
CheckMinerMatch rejects a justify that does not certify the previous block`: the
certified id must be the predecessor's and the declared view its height; before it
the declared view alone selected the validator set). -/
def xpoaCheckMinerMatch (c : Chain) (preBits : Nat) (b : Cand) : Bool :=
  match xpoaValidatorsAt c b.height b.ownBits with
  | none => false
  | some own =>
    if own.length ≤ b.pos then false
    else if b.height ≤ c.start then true
    else match b.justify with
      | none => false
      | some j =>
        if j.cert ≠ b.height - 1 ∨ j.view ≠ b.height - 1 then false
        else xpoaMatchQC c j.view preBits j.es

/-- The same check WITHOUT the repair (the code as found): kept for the counterexample. -/
def xpoaCheckMinerMatchUnbound (c : Chain) (preBits : Nat) (b : Cand) : Bool :=
  match xpoaValidatorsAt c b.height b.ownBits with
  | none => false
  | some own =>
    if own.length ≤ b.pos then false
    else if b.height ≤ c.start then true
    else match b.justify with
      | none => false
      | some j => xpoaMatchQC c j.view preBits j.es

/-! ## tdpos -/

/-- tdpos additionally reads the `curTerm` stored in every ledger block:
`terms[h]` for `h = 0 .. tip` (so `tip = terms.length - 1`). -/
structure TdChain where
  start : Nat
  init  : List Nat
  edits : List Edit
  terms : List Nat
deriving Repr

def TdChain.tip (c : TdChain) : Nat := c.terms.length - 1

/-- `calHisValidators`' binary search: the first height (not below `start`) of the
term of block `h`, for ledgers whose stored terms are non-decreasing. -/
def firstOfTerm (terms : List Nat) (start h : Nat) : Nat :=
  ((List.range (h + 1)).find? (fun i => decide (start ≤ i) && (terms[i]? == terms[h]?))).getD h

/-- `calTopKNominator(t)`: top-K of the snapshot of block `t - 3`. -/
def tdTopK (c : TdChain) (t : Nat) : Option (List Nat) :=
  if t < c.start + 3 then some c.init
  else if c.tip < t - 3 then none
  else some ((recordedAt c.edits (t - 3)).getD c.init)

/-- `calHisValidators(h)`: the proposers of the term of ledger block `h` — the top-K the
term's first block `F` was produced and admitted under, `calTopKNominator(F - 1)` (after the
repair `fix: tdpos calHisValidators …`; the code as found used `F`, one block later). -/
def tdHis (c : TdChain) (h : Nat) : Option (List Nat) :=
  tdTopK c (firstOfTerm c.terms c.start h - 1)

/-- the historical lookup of the code as found -/
def tdHisAsFound (c : TdChain) (h : Nat) : Option (List Nat) :=
  tdTopK c (firstOfTerm c.terms c.start h)

/-- `tdposSchedule.CalOldProposers(height, timestamp, storage)`; `inputTerm` is the
term of `timestamp` in the slot schedule, `bits` the `targetBits` of `storage`. -/
def tdValidatorsAt (c : TdChain) (height inputTerm bits : Nat) : Option (List Nat) :=
  if height < c.start + 3 then some c.init
  else if height < c.tip then tdHis c height
  else if c.terms[c.tip]? == some inputTerm then tdHis c c.tip
  else tdTopK c (if bits = 0 then c.tip else bits)

/-- The certificate part of tdpos `CheckMinerMatch`: the validators are those of
the PREVIOUS block (its height, the term of its timestamp, its storage). -/
def tdMatchQC (c : TdChain) (preHeight preTerm preBits : Nat) (es : List Entry) : Bool :=
  matchQC (tdValidatorsAt c preHeight preTerm preBits) es

/-- tdpos `CheckMinerMatch` with chained-bft enabled, for a candidate whose
timestamp lies in term `term` at position `pos` of the schedule; `preTerm` /
`preBits`: term of the timestamp and rollback marker of its predecessor, ledger
block `height - 1` (after the repair `fix: tdpos CheckMinerMatch rejects a justify
that does not certify the previous block`). -/
def tdCheckMinerMatch (c : TdChain) (preTerm preBits : Nat) (term : Nat) (b : Cand) : Bool :=
  match tdValidatorsAt c b.height term b.ownBits with
  | none => false
  | some own =>
    if own.length ≤ b.pos then false
    else if b.height ≤ c.start then true
    else match b.justify with
      | none => false
      | some j =>
        if j.cert ≠ b.height - 1 ∨ j.view ≠ b.height - 1 then false
        else tdMatchQC c (b.height - 1) preTerm preBits j.es

/-- The same check WITHOUT the repair (the code as found): the certificate may name any block. -/
def tdCheckMinerMatchUnbound (c : TdChain) (preTerm preBits : Nat) (term : Nat) (b : Cand) : Bool :=
  match tdValidatorsAt c b.height term b.ownBits with
  | none => false
  | some own =>
    if own.length ≤ b.pos then false
    else if b.height ≤ c.start then true
    else match b.justify with
      | none => false
      | some j => tdMatchQC c (b.height - 1) preTerm preBits j.es

end XV.BftMatch
