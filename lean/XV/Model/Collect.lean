import XV.Model.Safety
/-!
Model of the COLLECTION side of quorum certificates in chained-bft
(`Smr.handleReceivedVoteMsg`, `Smr.handleReceivedProposal`, `Smr.qcVoteMsgs`,
`GetCompleteHighQC`; kernel/consensus/base/driver/chained-bft/smr.go).

A node (the collector) receives proposal messages and vote messages.  For every
proposal id it keeps a vote log (`qcVoteMsgs`); when the length of the log reaches the
threshold (`XV.Gen.calVotesThreshold`, translated from source) it *declares a quorum*:
the pacemaker moves to the next view and HighQC moves to the proposal.  The log of the
HighQC is what the node hands out as the justify certificate of its next proposal.

Ids and addresses are `Nat`s (id 0 = the root of the pending tree), views are `Int`s.
An `Entry` (from `XV.Safety`) carries the address it claims and `valid`, the result of
`VerifyVoteMsgSign(entry, id named by the message)`.  `vals v` is the validator set in
force for view `v` (`ProposerElectionInterface.GetValidators`).  The ledger state of
the node stays 0 and proposals carry no commit information (`preferredRound` stays 0).

The model follows the code as REPAIRED by four `fix:` commits (only the first, verified
signature of a vote message is stored; the collector's own vote is ignored also when it
arrives first; a vote whose declared view differs from the view of the local proposal is
dropped; a proposal whose justify declares another view than the local proposal it
certifies is refused).  `handleVoteAsFound` / `handlePropAsFound` are the handlers as found.
-/
namespace XV.Collect
open XV.Safety

structure Node where
  id     : Nat
  view   : Int
  parent : Nat
deriving Repr, DecidableEq

/-- a vote message: the proposal id it names, the view it declares (not covered by the
signature) and its signature list (an honest vote carries one) -/
structure VoteMsg where
  id   : Nat
  view : Int
  sigs : List Entry
deriving Repr

/-- a proposal message: proposal `id` of view `view`; its justify certificate names
`parent`, declares the view `pview` and carries the entries `just` -/
structure PropMsg where
  id     : Nat
  view   : Int
  parent : Nat
  pview  : Int
  just   : List Entry
deriving Repr

structure State where
  self     : Nat                       -- the collector's own address
  known    : List Nat                  -- localProposal
  nodes    : List Node                 -- every node handed to the pending tree (root first)
  log      : List (Nat × List Entry)   -- qcVoteMsgs
  high     : Node                      -- HighQC
  view     : Int                       -- the pacemaker's current view
  lastVote : Int                       -- saftyrules.lastVoteRound
  genesis  : Nat                       -- id of qcTree.Genesis (a justify naming it is "the first justify": not checked)
  rootV    : Int                       -- view of qcTree.Root
  rootPV   : Int                       -- parent view recorded in qcTree.Root
deriving Repr

inductive Ret where
  | ok | reject | drop
deriving Repr, DecidableEq

def rootNode : Node := ⟨0, 0, 0⟩

def init (self : Nat) : State := ⟨self, [0], [rootNode], [], rootNode, 0, 0, 0, 0, 0⟩

def findNode (nodes : List Node) (id : Nat) : Option Node := nodes.find? (fun nd => nd.id == id)

/-- reachable from the root through parent links (what `DFSQueryNode` finds: orphans are
adopted as soon as their parent is stored) -/
def inTree (nodes : List Node) : Nat → Nat → Bool
  | 0, id => id == 0
  | fuel + 1, id =>
    id == 0 || (match findNode nodes id with
      | none => false
      | some nd => inTree nodes fuel nd.parent)

/-- `qcTree.DFSQueryNode(id)` -/
def lookup (s : State) (id : Nat) : Option Node :=
  if inTree s.nodes (s.nodes.length + 1) id then findNode s.nodes id else none

def logOf (log : List (Nat × List Entry)) (id : Nat) : Option (List Entry) :=
  (log.find? (fun p => p.1 == id)).map (·.2)

def setLog (log : List (Nat × List Entry)) (id : Nat) (es : List Entry) : List (Nat × List Entry) :=
  (id, es) :: log.filter (fun p => !(p.1 == id))

/-- the quorum is declared: `pacemaker.AdvanceView(voteQC)` and `qcTree.updateHighQC(id)` -/
def declare (s : State) (nd : Node) (dview : Int) : State :=
  { s with view := max s.view (dview + 1),
           high := if nd.view < s.high.view then s.high else nd }

/-- The storing half of `handleReceivedVoteMsg`: the verified vote `e` for proposal `id` (node `nd` of the
local tree) is appended to the vote log unless its address is already there; the length of the log is
compared with the threshold of the view's validator set (`n` members).  The flag tells whether the
quorum was declared. -/
def collectVote (n : Nat) (s : State) (id : Nat) (dview : Int) (e : Entry) (nd : Node) : State × Bool :=
  let signs := (logOf s.log id).getD []
  if signs.any (fun x => x.addr == e.addr) then
    if XV.Gen.calVotesThreshold (signs.length : Int) (n : Int) then (declare s nd dview, true) else (s, false)
  else
    let s' := { s with log := setLog s.log id (signs ++ [e]) }
    if XV.Gen.calVotesThreshold ((signs ++ [e]).length : Int) (n : Int) then (declare s' nd dview, true)
    else (s', false)

/-- `handleReceivedVoteMsg`.  The third component tells whether the quorum was declared. -/
def handleVote (vals : Int → List Nat) (s : State) (m : VoteMsg) : State × Ret × Bool :=
  match m.sigs with
  | [] => (s, .reject, false)                                   -- EmptyVoteSignErr
  | e :: _ =>
    if !((vals m.view).contains e.addr) then (s, .reject, false)      -- InvalidVoteAddr
    else if !e.valid then (s, .reject, false)                         -- InvalidVoteSign
    else if m.view < s.lastVote - 3 then (s, .reject, false)          -- TooLowVoteView
    else if !(s.known.contains m.id) then (s, .drop, false)           -- vote before the proposal
    else match lookup s m.id with
      | none => (s, .drop, false)
      | some nd =>
        if nd.view != m.view then (s, .reject, false)                 -- VoteViewMismatch
        else if e.addr == s.self then (s, .ok, false)                 -- own vote: ignored
        else
          let r := collectVote (vals m.view).length s m.id m.view e nd
          (r.1, .ok, r.2)

/-- The justify part of `handleReceivedProposal`: the first justify (naming the genesis of the instance, which
is the root of the tree unless the node was restarted on a longer ledger) is not checked; a
justify that names a local proposal must declare that proposal's view; then `CheckProposal` against the
validator set of that view. -/
def justifyOk (vals : Int → List Nat) (s : State) (p : PropMsg) : Bool :=
  if p.parent == s.genesis then true
  else if (match lookup s p.parent with
      | some nd => nd.view != p.pview                           -- the justify lies about the view of a local proposal
      | none => false) then false
  else if p.view < s.lastVote - 3 then false                    -- CheckProposal: TooLowProposalView
  else if (lookup s p.parent).isNone && (p.view ≤ s.rootPV || p.view > s.rootV + 6) then false   -- EmptyParentNode
  else decide (checkProposal (vals p.pview) p.just = .accept)

/-- `qcTree.updateQcStatus(node)`: store the node, then `updateHighQC(parent)` -/
def insertNode (s : State) (p : PropMsg) : State :=
  if (lookup s p.id).isSome then s
  else
    let s' := { s with nodes := s.nodes ++ [⟨p.id, p.view, p.parent⟩] }
    match lookup s' p.parent with
    | none => s'
    | some nd => if nd.view < s'.high.view then s' else { s' with high := nd }

/-- The part of `handleReceivedProposal` after the justify was accepted. -/
def acceptProp (s : State) (p : PropMsg) : State :=
  if 3 < p.view then s                                          -- ledgerState + 3 < view
  else
    let s := { s with view := max s.view (p.pview + 1) }
    if !(XV.Gen.checkPacemaker p.view s.view) then s
    else if p.view < s.lastVote - 3 then s                      -- VoteProposal
    else if p.pview < -3 then s
    else insertNode { s with lastVote := max s.lastVote p.view } p

/-- `handleReceivedProposal` (the node's own vote for the proposal is sent to the next leader and
leaves the state alone). -/
def handleProp (vals : Int → List Nat) (s : State) (p : PropMsg) : State :=
  if s.known.contains p.id then s
  else
    let s := { s with known := p.id :: s.known }
    if justifyOk vals s p then acceptProp s p else s

/-- `GetCompleteHighQC`: the id of HighQC and the votes stored for it -/
def cert (s : State) : Nat × List Entry := (s.high.id, (logOf s.log s.high.id).getD [])

/-- `ProcessProposal` → `reloadJustifyQC`: the justify the node puts into its next proposal message — the
votes stored for HighQC; nothing for the root (first proposal); `none` = `JustifyVotesEmpty`, no proposal
is made -/
def nextJustify (s : State) : Option (Nat × List Entry) :=
  if s.high.id == s.genesis then some (s.high.id, [])
  else (logOf s.log s.high.id).map (fun es => (s.high.id, es))

/-! ### histories -/

inductive Ev where
  | vote (m : VoteMsg)
  | prop (p : PropMsg)
deriving Repr

def step (vals : Int → List Nat) (s : State) : Ev → State
  | .vote m => (handleVote vals s m).1
  | .prop p => handleProp vals s p

def run (vals : Int → List Nat) (s : State) (evs : List Ev) : State := evs.foldl (step vals) s

/-- the vote messages of a history, in arrival order -/
def votesOf : List Ev → List VoteMsg
  | [] => []
  | .vote m :: evs => m :: votesOf evs
  | .prop _ :: evs => votesOf evs

/-- the votes (first signatures) that arrived in messages naming proposal `id` -/
def firstSigs (id : Nat) : List VoteMsg → List Entry
  | [] => []
  | m :: ms =>
    match m.sigs with
    | e :: _ => if m.id == id then e :: firstSigs id ms else firstSigs id ms
    | [] => firstSigs id ms

/-! ### a collector restarted on a ledger

`NewXpoaConsensus` / `NewTdposConsensus` (the same code in both plugins) on a ledger that already holds the
blocks `0..tip`, for an instance whose StartHeight is `start` (`start - 1 ≤ tip`): `InitQCTree` rebuilds the
pending tree from the last ledger blocks, the pacemaker is set from the tip, and - in the restart state, i.e.
when the root of the rebuilt tree is not the genesis block `start - 1` of the instance - the signatures of the
justify certificates stored in the last three ledger blocks are loaded into the vote log (`Smr.LoadVotes`),
each under the id its certificate certifies: the block's PREDECESSOR.  `localProposal` holds the root only, so
votes for the rebuilt nodes are dropped until their proposal message arrives again; the ledger state of the
new Smr is 0.

Ids: the root of the rebuilt tree is id 0 (as after `init`); the ledger block of height `h` has id `h - r`
for `h ≥ r` and `100 + h` below, `r` = height of the root block.  Views are block heights.  `just b` = the
signature entries of the justify stored in block `b` (blocks at or below `start` carry none). -/

/-- height of the ledger block `InitQCTree` makes the root of the rebuilt tree -/
def rootHeight (start tip : Nat) : Nat :=
  if tip ≤ start then start - 1 else if tip < 3 then 0 else tip - 3

/-- proposal id of the ledger block of height `h` in a tree whose root is the block of height `r` -/
def relId (r h : Nat) : Nat := if r ≤ h then h - r else 100 + h

/-- the restart state proper: the root of the rebuilt tree is not the genesis of the instance -/
def restarted (start tip : Nat) : Bool := rootHeight start tip != start - 1

/-- `smr.LoadVotes(b.GetPreHash(), GetJustifySigns(b))` for the ledger block of height `b`: the signatures are
stored for the block's PREDECESSOR (paired here with its height); nothing is stored for an empty list, and
blocks at or below StartHeight carry no signatures -/
def loadOne (start : Nat) (just : Nat → List Entry) (b : Nat) : List (Nat × List Entry) :=
  if start < b ∧ (just b).isEmpty = false then [(b - 1, just b)] else []

/-- the certificates the constructor loads in the restart state: those stored in blocks `tip`, `tip-1`, `tip-2` -/
def loadedCerts (start tip : Nat) (just : Nat → List Entry) : List (Nat × List Entry) :=
  if restarted start tip then loadOne start just tip ++ loadOne start just (tip - 1) ++ loadOne start just (tip - 2)
  else []

def restart (self start tip : Nat) (just : Nat → List Entry) : State :=
  let r := rootHeight start tip
  let node : Nat → Node := fun i => ⟨i, ((r + i : Nat) : Int), i - 1⟩
  let highId := if tip ≤ start then 0 else if tip < 3 then 1 else 2
  { self := self
    known := [0]
    nodes := (List.range (tip + 1 - r)).map node
    log := (loadedCerts start tip just).map (fun c => (relId r c.1, c.2))
    high := node highId
    view := if restarted start tip then (tip : Int) - 1 else (start : Int)
    lastVote := 0
    genesis := relId r (start - 1)
    rootV := (r : Int)
    rootPV := if tip ≤ start ∨ r = 0 then 0 else (r : Int) - 1 }

/-! ### the handler as found (before the three repairs) -/

def handleVoteAsFound (vals : Int → List Nat) (s : State) (m : VoteMsg) : State × Ret × Bool :=
  match m.sigs with
  | [] => (s, .reject, false)
  | e :: _ =>
    if !((vals m.view).contains e.addr) then (s, .reject, false)
    else if !e.valid then (s, .reject, false)
    else if m.view < s.lastVote - 3 then (s, .reject, false)
    else if !(s.known.contains m.id) then (s, .drop, false)
    else match lookup s m.id with
      | none => (s, .drop, false)
      | some nd =>
        match logOf s.log m.id with
        | none =>
          -- the whole signature list of the first vote is stored, whoever signed it
          let s' := { s with log := setLog s.log m.id m.sigs }
          if XV.Gen.calVotesThreshold 1 ((vals m.view).length : Int) then (declare s' nd m.view, .ok, true)
          else (s', .ok, false)
        | some signs =>
          let stored := signs.any (fun x => x.addr == e.addr || e.addr == s.self)
          let signs' := if stored then signs else signs ++ [e]
          let s' := if stored then s else { s with log := setLog s.log m.id signs' }
          if XV.Gen.calVotesThreshold (signs'.length : Int) ((vals m.view).length : Int) then
            (declare s' nd m.view, .ok, true)
          else (s', .ok, false)

/-- the justify part as found: checked against the validator set of the view the justify DECLARES,
whatever the view of the local proposal it names -/
def justifyOkAsFound (vals : Int → List Nat) (s : State) (p : PropMsg) : Bool :=
  if p.parent == s.genesis then true
  else if p.view < s.lastVote - 3 then false
  else if (lookup s p.parent).isNone && (p.view ≤ s.rootPV || p.view > s.rootV + 6) then false
  else decide (checkProposal (vals p.pview) p.just = .accept)

def handlePropAsFound (vals : Int → List Nat) (s : State) (p : PropMsg) : State :=
  if s.known.contains p.id then s
  else
    let s := { s with known := p.id :: s.known }
    if justifyOkAsFound vals s p then acceptProp s p else s

end XV.Collect
