import XV.Gen.QcTree
/-!
Model of the pending-proposal tree of chained-bft (`QCPendingTree`,
kernel/consensus/base/driver/chained-bft/context.go, after the two `fix:` commits
recorded in known_findings.d/C15.json) and of `DefaultPaceMaker` (pacemaker.go).

Proposal ids are abstract `Nat`s.  A proposal id is a block hash, so it determines
the proposal's view and parent id: that content is the *world* `W : Nat → Info`,
a parameter of every operation (the driver builds it from the `ins` lines and
rejects an id re-used with different content).

The Go structure is a pointer tree (`ProposalNode.Sons`).  The model is flat: a
`sons` map from id to the ordered list of its sons' ids, the id of the root, the
four markers, and the orphan list as the list of the ids of its roots (the orphan
trees live in the same `sons` map).  `DFSQuery` is a fuelled depth-first search over
`sons`; the fuel is the number of ids ever placed (`tbl`, a ghost field the Go code
does not have), proved sufficient under the invariant in Props/C15.

Three comparisons are not written by hand but regenerated from the source on every
run (`XV.Gen.highQcKeeps`, `XV.Gen.orphanExpired`, `XV.Gen.pmAdvance`).
-/
namespace XV.QcTree

structure Info where
  view   : Int
  parent : Option Nat
deriving Repr, DecidableEq, Inhabited

abbrev World := Nat → Info

structure St where
  sons    : Nat → List Nat
  root    : Nat
  genesis : Nat
  high    : Nat
  generic : Option Nat
  locked  : Option Nat
  commit  : Option Nat
  orphans : List Nat
  omap    : List Nat
  tbl     : List Nat
  pm      : Int

/-- `InitQCTree` on a fresh chain (see `initQCTree` below for every ledger) / `initQcTree()` of the tests:
Genesis = Root = HighQC = CommitQC = the genesis proposal. -/
def init (g : Nat) : St :=
  { sons := fun _ => [], root := g, genesis := g, high := g, generic := none, locked := none,
    commit := some g, orphans := [], omap := [], tbl := [g], pm := 0 }

def upd (f : Nat → List Nat) (a : Nat) (l : List Nat) : Nat → List Nat :=
  fun x => if x = a then l else f x

/-- `father.Sons = append(father.Sons, son)` -/
def link (f : Nat → List Nat) (father son : Nat) : Nat → List Nat := upd f father (f father ++ [son])

/-- `InitQCTree(startHeight, ledger, log)` (kernel/consensus/base/common/common.go, after the `fix:`
commit c73d582 recorded in known_findings.d/C15.json) over a ledger whose main chain holds the blocks
of the heights `0..tip`; `chain h` is the id of the block of height `h` (`makeTreeNode` gives it view
`h` and the parent id `chain (h-1)`).  `none` = the function returns nil: the block `start - 1` that
becomes the genesis QC is not on the ledger.

* `tip ≤ start` — initial state: Genesis = Root = HighQC = CommitQC = block `start - 1`; if the block
  of the start height is already on the ledger (restart exactly there) it hangs under it;
* restart with `tip < 3`: Root = block 0, HighQC = block `tip - 1` (`switch tip.GetHeight()`; the
  cases 0 and 1 are dead for a ledger that has no block `-1`, they are modelled as written);
* restart with `tip ≥ 3`: Root = block `tip-3`, GenericQC = `tip-2`, HighQC = `tip-1`, then the tip. -/
def initQCTree (chain : Nat → Nat) (start tip : Nat) : Option St :=
  if start = 0 ∨ tip + 1 < start then none else
  let g := chain (start - 1)
  if tip ≤ start then
    if tip = start then
      some { init g with sons := link (fun _ => []) g (chain tip), tbl := [g, chain tip] }
    else some (init g)
  else if tip < 3 then
    let r := chain 0
    let t : St := { sons := fun _ => [], root := r, genesis := g, high := r, generic := none, locked := none,
                    commit := none, orphans := [], omap := [], tbl := [r], pm := 0 }
    match tip with
    | 0 => some t
    | 1 => some { t with sons := link t.sons r (chain tip), tbl := [r, chain tip] }
    | _ => some { t with high := chain 1, sons := link (link t.sons (chain 1) (chain tip)) r (chain 1),
                         tbl := [r, chain 1, chain tip] }
  else
    let r := chain (tip - 3)
    let gq := chain (tip - 2)
    let h := chain (tip - 1)
    some { sons := link (link (link (fun _ => []) r gq) gq h) h (chain tip), root := r, genesis := g, high := h,
           generic := some gq, locked := none, commit := none, orphans := [], omap := [],
           tbl := [r, gq, h, chain tip], pm := 0 }

/-- `DFSQuery(node, target) != nil` with fuel (depth bound). -/
def dfs (sons : Nat → List Nat) : Nat → Nat → Nat → Bool
  | 0, _, _ => false
  | f + 1, n, t => if n = t then true else (sons n).any (fun c => dfs sons f c t)

def fuel (s : St) : Nat := s.tbl.length

/-- `t.DFSQueryNode(id) != nil` -/
def inMain (s : St) (x : Nat) : Bool := dfs s.sons (fuel s) s.root x

/-- `DFSQuery(r, id) != nil` for an orphan root `r` -/
def inTree (s : St) (r x : Nat) : Bool := dfs s.sons (fuel s) r x

/-- `t.DFSQueryNode(x.In.GetParentProposalId())`: the parent of `x` if it is in the tree. -/
def anc (W : World) (s : St) (x : Nat) : Option Nat :=
  match (W x).parent with
  | none => none
  | some p => if inMain s p then some p else none

/-- the common tail of `updateHighQC` / `enforceUpdateHighQC`: HighQC := node, the other three
markers are cleared and re-derived as far as the ancestors are found in the tree. -/
def derive (W : World) (s : St) (node : Nat) : St :=
  let g := anc W s node
  let l := g.bind (anc W s)
  let c := l.bind (anc W s)
  { s with high := node, generic := g, locked := l, commit := c }

def updateHighQC (W : World) (s : St) (id : Nat) : St :=
  if !inMain s id then s
  else if XV.Gen.highQcKeeps (W id).view (W s.high).view then s
  else derive W s id

def enforceUpdateHighQC (W : World) (s : St) (id : Nat) : St × Bool :=
  if !inMain s id then (s, false) else (derive W s id, true)

def addTbl (tbl : List Nat) (x : Nat) : List Nat := if x ∈ tbl then tbl else x :: tbl

def isKid (W : World) (node r : Nat) : Bool := (W r).parent == some node

def expired (W : World) (s : St) (r : Nat) : Bool := XV.Gen.orphanExpired (W r).view (W s.root).view

/-- `insert` when the parent `p` is in the tree: append under `p`, then `adoptOrphans`. -/
def insertMain (W : World) (s : St) (node p : Nat) : St :=
  let kids := s.orphans.filter (isKid W node)
  let rest := s.orphans.filter (fun r => !isKid W node r)
  { s with sons := upd (upd s.sons node kids) p (s.sons p ++ [node]), orphans := rest,
           tbl := addTbl s.tbl node }

/-- `insertOrphan` (repaired): duplicate check on OrphanMap; pass 1 drops expired orphan roots and
moves every orphan root that is a son of `node` under `node`; pass 2 hangs `node` under its parent
if some remaining orphan tree holds it; otherwise `node` becomes a new orphan root. -/
def insertOrphan (W : World) (s : St) (node p : Nat) : St :=
  if node ∈ s.omap then s else
  let live := s.orphans.filter (fun r => !expired W s r)
  let kids := live.filter (isKid W node)
  let rest := live.filter (fun r => !isKid W node r)
  if rest.any (fun r => inTree s r p) then
    { s with sons := upd (upd s.sons node kids) p (s.sons p ++ [node]), orphans := rest,
             omap := node :: s.omap, tbl := addTbl s.tbl node }
  else
    { s with sons := upd s.sons node kids, orphans := rest ++ [node],
             omap := node :: s.omap, tbl := addTbl s.tbl node }

/-- `insert`; `none` = `NoValidParentId`. -/
def insert (W : World) (s : St) (node : Nat) : Option St :=
  match (W node).parent with
  | none => none
  | some p => if inMain s p then some (insertMain W s node p) else some (insertOrphan W s node p)

/-- `updateQcStatus`; the Bool is `err == nil`. -/
def updateQcStatus (W : World) (s : St) (node : Nat) : St × Bool :=
  if inMain s node then (s, true) else
  match insert W s node with
  | none => (s, false)
  | some s' =>
    match (W node).parent with
    | none => (s', true)
    | some p => (updateHighQC W s' p, true)

/-- `updateCommit`: four generations above `id` must be in the tree; the great-grandparent
becomes Root and the sons of *its* parent are dropped. -/
def updateCommit (W : World) (s : St) (id : Nat) : St :=
  if !inMain s id then s else
  let a3 := ((anc W s id).bind (anc W s)).bind (anc W s)
  match a3, a3.bind (anc W s) with
  | some ppp, some pppp => { s with sons := upd s.sons pppp [], root := ppp }
  | _, _ => s

/-- `DefaultPaceMaker.AdvanceView(qc)` with `r = qc.GetProposalView()` -/
def advanceView (s : St) (r : Int) : St := { s with pm := XV.Gen.pmAdvance s.pm r }

/-- operations of the line protocol = what the SMR does to the tree.  `prop` / `vote` are the
tree-and-pacemaker part of `handleReceivedProposal` / `handleReceivedVoteMsg` (at quorum). -/
inductive Op where
  | ins (id : Nat)
  | high (id : Nat)
  | enforce (id : Nat)
  | commit (id : Nat)
  | prop (id : Nat) (pview : Int) (doCommit : Bool)
  | vote (id : Nat)
  | pm (view : Int)
deriving Repr

def stepOp (W : World) (s : St) : Op → St × Bool
  | .ins id => updateQcStatus W s id
  | .high id => (updateHighQC W s id, true)
  | .enforce id => enforceUpdateHighQC W s id
  | .commit id => (updateCommit W s id, true)
  | .prop id pview c =>
    match (W id).parent with
    | none => (s, false)
    | some p =>
      let s1 := advanceView s pview
      let s2 := if c then updateCommit W s1 p else s1
      updateQcStatus W s2 id
  | .vote id =>
    if !inMain s id then (s, false)
    else (updateHighQC W (advanceView s (W id).view) id, true)
  | .pm v => (advanceView s v, true)

def run (W : World) (s : St) (ops : List Op) : St := ops.foldl (fun s o => (stepOp W s o).1) s

/-- several pending trees in one process (two chains, or the replicas of an in-process net), tree `i` over its own
world `Ws i`: tree `io.1` executes `io.2`.  The Go structure of one tree shares nothing with another one (no
package-level state in context.go), so a step of one tree leaves every other tree as it is. -/
def stepAt (Ws : Nat → World) (sts : Nat → St) (io : Nat × Op) : Nat → St :=
  fun j => if j = io.1 then (stepOp (Ws j) (sts j) io.2).1 else sts j

/-- an interleaving of the operations of the trees: a schedule is a list of (tree, operation) -/
def runSched (Ws : Nat → World) (sts : Nat → St) (sched : List (Nat × Op)) : Nat → St :=
  sched.foldl (stepAt Ws) sts

/-- preorder walk with fuel (the order of `DFSQuery`); used for dumps only. -/
def walk (sons : Nat → List Nat) : Nat → Nat → List Nat
  | 0, _ => []
  | f + 1, n => n :: (sons n).flatMap (walk sons f)

def mainNodes (s : St) : List Nat := walk s.sons (fuel s) s.root
def orphanNodes (s : St) : List Nat := s.orphans.flatMap (walk s.sons (fuel s))

end XV.QcTree
