import XV.Model.Crc32
import XV.Gen.P2p
/-!
Model of kernel/network/p2p/message.go: `NewMessage`, `Compress`, `Checksum`, `VerifyChecksum`,
`Decompress`, `Unmarshal`, `GetRespMessageType`, and of the wire (proto.Marshal / proto.Unmarshal of
the `XuperMessage` envelope), which turns an empty `MsgInfo` into a nil one.

protobuf marshalling of the payload and snappy are *abstract*: a `Codec` with the two inverse laws
as explicit hypotheses of the theorems (validated by the correspondence run, which executes the real
`proto.Marshal`, `snappy.Encode/Decode`).  Core Lean only.
-/
namespace XV.Msg
open XV.Crc32

abbrev Bytes := List Byte
abbrev Str := List Char

structure Header where
  version : Str
  logid : Str
  sender : Str            -- header.From
  bcname : Str
  typ : Nat
  checksum : BitVec 32    -- header.DataCheckSum
  errorType : Nat
  enableCompress : Bool
  deriving DecidableEq, Repr

/-- `info = none` is a nil `Data.MsgInfo`, `some []` an empty non-nil one (they differ in Go). -/
structure Msg where
  header : Header
  info : Option Bytes
  deriving DecidableEq, Repr

/-- MessageOption values of message.go -/
inductive Opt where
  | bcName (s : Str)
  | logId (s : Str)
  | version (s : Str)
  | errorType (e : Nat)
  deriving DecidableEq, Repr

def applyOpt (m : Msg) : Opt → Msg
  | .bcName s => { m with header := { m.header with bcname := s } }
  | .logId s => { m with header := { m.header with logid := s } }
  | .version s => { m with header := { m.header with version := s } }
  | .errorType e => { m with header := { m.header with errorType := e } }

/-- payload codec: protobuf marshalling of the payload type `α` and snappy -/
structure Codec (α : Type) where
  marshal : α → Bytes
  unmarshal : Bytes → Option α
  compress : Bytes → Bytes
  decompress : Bytes → Option Bytes

/-- the inverse laws assumed of protobuf and snappy -/
structure Codec.Lawful {α : Type} (C : Codec α) : Prop where
  unmarshal_marshal : ∀ a, C.unmarshal (C.marshal a) = some a
  decompress_compress : ∀ b, C.decompress (C.compress b) = some b

/-- `len(msg.GetData().GetMsgInfo())`-style read: nil and empty are both the empty byte string -/
def Msg.bytes (m : Msg) : Bytes := m.info.getD []

/-- `pb.XuperMessage_NONE` (SUCCESS is 0) -/
def errorNone : Nat := 1
def version3 : Str := "3.0.0".toList
def defaultChain : Str := "xuper".toList

/-- `Compress` -/
def compress {α : Type} (C : Codec α) (m : Msg) : Msg :=
  if m.bytes.length = 0 then m
  else if m.header.enableCompress then m
  else { header := { m.header with enableCompress := true }, info := some (C.compress m.bytes) }

/-- `Checksum` -/
def checksum (m : Msg) : BitVec 32 := crc32 m.bytes

/-- `NewMessage(typ, message, opts...)`; `logid` stands for `utils.GenLogId()`; `payload = none` is a nil message -/
def newMessage {α : Type} (C : Codec α) (typ : Nat) (logid : Str) (payload : Option α) (opts : List Opt) : Msg :=
  let m0 : Msg := { header := { version := version3, logid := logid, sender := [], bcname := defaultChain, typ := typ,
                                checksum := 0#32, errorType := errorNone, enableCompress := false },
                    info := payload.map C.marshal }
  let m1 := opts.foldl applyOpt m0
  let m2 := compress C m1
  { m2 with header := { m2.header with checksum := checksum m2 } }

/-- the envelope after proto.Marshal / proto.Unmarshal: an empty bytes field is not transmitted -/
def wire (m : Msg) : Msg :=
  { m with info := match m.info with
                   | some [] => none
                   | x => x }

/-- `VerifyChecksum` -/
def verifyChecksum (m : Msg) : Bool := crc32 m.bytes == m.header.checksum

inductive Err where
  | checksum | decompress | unmarshal
  deriving DecidableEq, Repr

/-- `Decompress` (after the repair: a nil `MsgInfo` is the empty payload, not a parameter error) -/
def decompress {α : Type} (C : Codec α) (m : Msg) : Option Bytes :=
  if !m.header.enableCompress then some m.bytes else C.decompress m.bytes

/-- `Unmarshal`: checksum first, then decompress, then protobuf -/
def unmarshal {α : Type} (C : Codec α) (m : Msg) : Except Err α :=
  if !verifyChecksum m then .error .checksum
  else match decompress C m with
    | none => .error .decompress
    | some data =>
      match C.unmarshal data with
      | none => .error .unmarshal
      | some a => .ok a

/-- `GetRespMessageType`: the `requestToResponse` table regenerated from message.go, else `n + offset` -/
def getRespMessageType (t : Nat) : Nat :=
  match XV.Gen.requestToResponse.lookup t with
  | some r => r
  | none => t + XV.Gen.respDefaultOffset

/-- `VerifyMessageType(request, response, peerID)` -/
def verifyMessageType (req resp : Header) (peer : Str) : Bool :=
  if resp.sender ≠ peer then false
  else if req.logid ≠ resp.logid then false
  else if getRespMessageType req.typ ≠ resp.typ then false
  else true

end XV.Msg
