import XV.Model.Sandbox
/-!
Model of the contract pipeline (C09): pre-execution → assembly → verification → commit.

  kernel/engines/xuperos/chain.go            `Chain.PreExec`, `Chain.SubmitTx`
  bcs/ledger/xledger/state/tx_verification.go `verifyTxRWSets`, `GenRWSetFromTx`, `getGasLimitFromTx`,
                                              `isContractUtxoEffective`
  bcs/ledger/xledger/state/xmodel            `verifyInputs`, `verifyOutputs`, `updateExtUtxo`, `XModel.Get`
  kernel/contract/bridge                      `vmContextImpl.Invoke` (resource check), `ContractCall`

after the repairs `fix:` e466658 (declared contract transfers must be real outputs) and e01144a (a call
answering with an error status is refused).  The sandbox is the proved model of C10 (`XV.Sandbox`,
strip configuration `fixed`).

* A contract is any deterministic `Prog`: a function from the results of its calls so far to its next
  action (`none` = return with status 200).  Actions: a sandbox call `op` (Get/Put/Del/Select in any
  bucket of `bks`; a nested contract call is a stretch of calls on the callee's bucket, the sandbox is
  shared), a token transfer from the initiator, an event, resource use of the contract itself (`burn`),
  resource use inside a nested call (`subuse`, see below), `fail` (response status >= 400) and `err`
  (the call aborts with an error).  `fuel` bounds the number of actions (the VM's step bound).
* Resources (one dimension, XFee): `used` is what the contract itself used — for a kernel contract
  `bridge.Context.ResourceUsed` leaves out what callees used; `peak` is the smallest limit under which no
  resource check fails: the callee of a nested call runs under `limit - used so far` and is checked
  against it when it returns, the caller against `limit` at its end.  PreExec runs under the maximal
  limits and reports `used`; the client declares it as the request's limit.
* The committed contract state `DB` is the pair of xmodel tables: `live` (ZU) and `dead` (ZD, delete
  markers); an entry holds the version `mkVer txid offset` and the value (`0` = delete mark), the way
  `XModel.Get` resolves a version to the output it names.  `DB.reader` is the C10 reader `xmodelReader`.
* `Tx` is what the property speaks about: request (program, declared limit), `$` fee output, declared
  read set (versions), declared write set (bucket, key, value; transient bucket aside), the declared
  transient entries (`cx` = ContractUtxo.Outputs, `ev` = contractEvent) and the real outputs `outs`
  to other addresses.  Change outputs, token inputs and signatures are outside the model.
-/
namespace XV.Contract
open XV.Sandbox

inductive Act where
  | op (o : Op)
  | transfer (to amt : Nat)
  | event (e : Nat)
  | burn (n : Nat)
  | subuse (n : Nat)
  | fail
  | err
deriving Repr, DecidableEq

abbrev Prog := List Res → Option Act

def opBucket : Op → Bucket
  | .get b _ => b
  | .put b _ _ => b
  | .del b _ => b
  | .sel b _ _ _ => b

/-- the part of an execution context outside the sandbox -/
structure Meta where
  res : List Res := []             -- results of the actions so far, oldest first
  xf : List (Nat × Nat) := []      -- transfers (to, amount)
  ev : List Nat := []              -- events
  used : Nat := 0
  peak : Nat := 0
deriving Repr, DecidableEq

structure Ctx where
  sb : State
  m : Meta

def Ctx.init : Ctx := ⟨State.init, {}⟩

inductive Outcome where
  | ok | failed | error
deriving Repr, DecidableEq

def Meta.push (m : Meta) (y : Res) : Meta := { m with res := m.res ++ [y] }
def Meta.addXf (m : Meta) (to amt : Nat) : Meta := { m.push .done with xf := m.xf ++ [(to, amt)] }
def Meta.addEv (m : Meta) (e : Nat) : Meta := { m.push .done with ev := m.ev ++ [e] }
/-- the contract itself uses `n` -/
def Meta.burn (m : Meta) (n : Nat) : Meta :=
  { m.push .done with used := m.used + n, peak := max m.peak (m.used + n) }
/-- a nested call whose callee uses `n`: it runs under `limit - used` -/
def Meta.subuse (m : Meta) (n : Nat) : Meta := { m.push .done with peak := max m.peak (m.used + n) }

/-- one action other than `fail` / `err`; `none` = the action itself errors -/
def act (bks : List Bucket) (r : Reader) (x : Ctx) : Act → Option Ctx
  | .op o =>
    if opBucket o ∈ bks then
      some ⟨(stepOp fixed r x.sb o).1, x.m.push (stepOp fixed r x.sb o).2⟩
    else none
  | .transfer to amt =>
    -- UTXOSandbox.Transfer refuses amount 0; the initiator's balance is assumed sufficient
    if amt = 0 then none else some ⟨x.sb, x.m.addXf to amt⟩
  | .event e => some ⟨x.sb, x.m.addEv e⟩
  | .burn n => some ⟨x.sb, x.m.burn n⟩
  | .subuse n => some ⟨x.sb, x.m.subuse n⟩
  | .fail => none
  | .err => none

/-- `Invoke`: run the program until it returns, fails, errors or runs out of fuel -/
def exec (bks : List Bucket) (r : Reader) (p : Prog) : Nat → Ctx → Ctx × Outcome
  | 0, x => (x, .error)
  | fuel + 1, x =>
    match p x.m.res with
    | none => (x, .ok)
    | some .fail => (x, .failed)
    | some .err => (x, .error)
    | some a =>
      match act bks r x a with
      | none => (x, .error)
      | some x' => exec bks r p fuel x'

/-! ### the committed state -/

structure DB where
  live : Store
  dead : Store

def DB.empty : DB := ⟨Store.empty, Store.empty⟩

/-- `XModel.Get`: live table, else the delete table, else the empty version -/
def DB.cur (db : DB) (b : Bucket) (k : Key) : VData :=
  match find k (db.live b) with
  | some d => d
  | none =>
    match find k (db.dead b) with
    | some d => d
    | none => ⟨0, 1⟩

def DB.reader (db : DB) : Reader := xmodelReader db.live db.dead

def eraseK (k : Key) (l : KV) : KV := l.filter (fun e => e.1 != k)

def Store.erase (m : Store) (b : Bucket) (k : Key) : Store :=
  fun b' => if b' = b then eraseK k (m b') else m b'

/-- `MakeVersion(txid, offset)`; `0` is the empty version -/
def mkVer (id off : Nat) : Nat := id * 1024 + off + 1

abbrev REntry := Bucket × Key × Nat   -- bucket, key, version
abbrev WEntry := Bucket × Key × Nat   -- bucket, key, value (0 = delete mark)

structure Tx where
  id : Nat
  prog : Prog
  limit : Nat
  fee : Nat
  kin : List REntry
  kout : List WEntry
  cx : List (Nat × Nat)
  ev : List Nat
  outs : List (Nat × Nat)

/-- number of transient entries, which precede the other buckets in `TxOutputsExt` ("$" sorts first):
`ContractUtxo.Inputs` + `ContractUtxo.Outputs` if the contract transferred, `contractEvent` if it emitted -/
def nTransient (cx : List (Nat × Nat)) (ev : List Nat) : Nat :=
  (if cx = [] then 0 else 2) + (if ev = [] then 0 else 1)

/-- `XModel.updateExtUtxo` -/
def applyKOut (id : Nat) : List WEntry → Nat → DB → DB
  | [], _, db => db
  | (b, k, v) :: rest, off, db =>
    let db' : DB :=
      if v = 0 then ⟨Store.erase db.live b k, db.dead.put b k ⟨mkVer id off, 0⟩⟩
      else ⟨db.live.put b k ⟨mkVer id off, v⟩, db.dead⟩
    applyKOut id rest (off + 1) db'

def commit (db : DB) (t : Tx) : DB := applyKOut t.id t.kout (nTransient t.cx t.ev) db

/-! ### read / write set listings -/

def listOf (bks : List Bucket) (m : Store) : List (Bucket × Key × VData) :=
  bks.flatMap (fun b => (m b).map (fun e => (b, e.1, e.2)))

def rsetOf (bks : List Bucket) (s : State) : List REntry :=
  (listOf bks s.inputs).map (fun e => (e.1, e.2.1, e.2.2.ver))

def wsetOf (bks : List Bucket) (s : State) : List WEntry :=
  (listOf bks s.outputs).map (fun e => (e.1, e.2.1, e.2.2.val))

/-! ### pre-execution and assembly -/

structure Pre where
  outcome : Outcome
  kin : List REntry
  kout : List WEntry
  cx : List (Nat × Nat)
  ev : List Nat
  used : Nat
  peak : Nat
  res : List Res
deriving Repr, DecidableEq

/-- `Chain.PreExec`: sandbox over the live state, maximal limits; an erroring call yields no response -/
def preexec (bks : List Bucket) (fuel : Nat) (db : DB) (p : Prog) : Option Pre :=
  match exec bks db.reader p fuel Ctx.init with
  | (_, .error) => none
  | (x, o) => some ⟨o, rsetOf bks x.sb, wsetOf bks x.sb, x.m.xf, x.m.ev, x.m.used, x.m.peak, x.m.res⟩

/-- the client: requests with the returned limits, `$` output paying their gas (`price` gas per unit:
0 on a no-fee chain), returned read / write sets, the contract's outputs as real outputs -/
def assemble (price id : Nat) (p : Prog) (pre : Pre) : Tx :=
  { id := id, prog := p, limit := pre.used, fee := price * pre.used, kin := pre.kin, kout := pre.kout,
    cx := pre.cx, ev := pre.ev, outs := pre.cx }

/-! ### verification -/

/-- `GenRWSetFromTx` / `xmodel.verifyInputs`: every declared read cites the current version -/
def readsCurrent (db : DB) (kin : List REntry) : Bool :=
  kin.all (fun e => (db.cur e.1 e.2.1).ver == e.2.2)

/-- `XMReaderFromRWSet` of the read set `GenRWSetFromTx` builds: the state's entry of every declared key -/
def rsOf (db : DB) : List REntry → Store
  | [] => Store.empty
  | e :: rest => (rsOf db rest).put e.1 e.2.1 (db.cur e.1 e.2.1)

/-- `xmodel.Equal`: both sides sorted, then compared; the re-executed side has no repeated entry, so this
is "same length and every re-executed entry is declared" -/
def sameSet (decl lst : List WEntry) : Bool :=
  decl.length == lst.length && lst.all (fun e => decl.contains e)

/-- sub-multiset (`isSubOutputs`) -/
def subMulti : List (Nat × Nat) → List (Nat × Nat) → Bool
  | [], _ => true
  | a :: rest, l => l.contains a && subMulti rest (l.erase a)

/-- the re-execution of `verifyTxRWSets` over the declared reads under the declared limit -/
def reexecOK (bks : List Bucket) (fuel : Nat) (db : DB) (t : Tx) : Bool :=
  match exec bks (memReader (rsOf db t.kin)) t.prog fuel Ctx.init with
  | (x, .ok) =>
    decide (x.m.peak ≤ t.limit) && sameSet t.kout (wsetOf bks x.sb) && (t.cx == x.m.xf) && (t.ev == x.m.ev)
  | _ => false

/-- `xmodel.verifyOutputs`: a written key must be a declared read -/
def writesRead (t : Tx) : Bool :=
  t.kout.all (fun w => t.kin.any (fun r => r.1 == w.1 && r.2.1 == w.2.1))

/-- `State.VerifyTx` + the xmodel part of `State.DoTx` (signatures, ACL and token sums are outside) -/
def verify (bks : List Bucket) (price fuel : Nat) (db : DB) (t : Tx) : Bool :=
  readsCurrent db t.kin &&
  decide (price * t.limit ≤ t.fee) &&
  subMulti t.cx t.outs &&
  reexecOK bks fuel db t &&
  writesRead t

/-- `Chain.SubmitTx` -/
def submit (bks : List Bucket) (price fuel : Nat) (db : DB) (t : Tx) : DB × Bool :=
  if verify bks price fuel db t then (commit db t, true) else (db, false)

end XV.Contract
