import XV.Model.Sandbox
/-!
Model of the contract pipeline (C09): pre-execution → assembly → verification → commit.

  kernel/engines/xuperos/chain.go            `Chain.PreExec`, `Chain.SubmitTx`
  bcs/ledger/xledger/state/tx_verification.go `verifyTxRWSets`, `GenRWSetFromTx`, `getGasLimitFromTx`,
                                              `isContractUtxoEffective`
  bcs/ledger/xledger/state/xmodel            `verifyInputs`, `verifyOutputs`, `updateExtUtxo`, `XModel.Get`
  kernel/contract/bridge                      `vmContextImpl.Invoke` (resource check), `ContractCall`

after the repairs `fix:` e466658 (declared contract transfers must be real outputs) and e01144a (a call
answering with an error status is refused).  The sandbox is the proved model of C10 (`XV.Sandbox`,
strip configuration `fixed`), key/value side AND token side: `UReader`, `listReader`, `replayReader`,
`transfer`, `flushEntries` are the definitions of `Model/Sandbox.lean`, not copies.

* A contract is any deterministic `Prog`: a function from the results of its calls so far to its next
  action (`none` = return with status 200).  Actions: a sandbox call `op` (Get/Put/Del/Select in any
  bucket of `bks`; a nested contract call is a stretch of calls on the callee's bucket, the sandbox is
  shared), a token transfer `KContext.Transfer(from, to, amount)`, an event, resource use of the contract itself (`burn`),
  resource use inside a nested call (`subuse`, see below), `fail` (response status >= 400) and `err`
  (the call aborts with an error).  `fuel` bounds the number of actions (the VM's step bound).
* Resources (one dimension, XFee): `used` is what the contract itself used — for a kernel contract
  `bridge.Context.ResourceUsed` leaves out what callees used; `peak` is the smallest limit under which no
  resource check fails: the callee of a nested call runs under `limit - used so far` and is checked
  against it when it returns, the caller against `limit` at its end.  PreExec runs under the maximal
  limits and reports `used`; the client declares it as the request's limit.
* The committed contract state `DB` is the pair of xmodel tables: `live` (ZU) and `dead` (ZD, delete
  markers); an entry holds the version `mkVer txid offset` and the value (`0` = delete mark), the way
  `XModel.Get` resolves a version to the output it names.  `DB.reader` is the C10 reader `xmodelReader`.
* Tokens.  A transfer asks the execution's `contract.UtxoReader` for inputs of `from` covering the amount
  (`UTXOSandbox.Transfer` = `Sandbox.transfer`): the inputs handed out are recorded, an output to the
  receiver and — iff the inputs are worth more — a change output to `from` are recorded.  PreExec runs over
  a first-run reader (`UtxoVM.SelectUtxos`; any reader `R`, the theorems ask it to meet the `SelectUtxos`
  contract `UReader.Lawful`), verification over `replayReader` (`sandbox.NewUTXOReaderFromInput`) of the
  inputs DECLARED in the transaction.  `Flush` writes inputs, outputs and events into the transient bucket
  (`flushEntries`), so the comparison of write sets compares them too.
* `Tx` is what the property speaks about: request (program, declared limit), `$` fee output, declared
  read set (versions), declared write set (bucket, key, value; transient bucket aside), the declared
  transient entries (`cin` = ContractUtxo.Inputs, `cx` = ContractUtxo.Outputs — change outputs included —,
  `ev` = contractEvent), the references `ins` of the real token inputs and the real outputs `outs`.
  Inputs and outputs that pay the fee, the sum check and signatures are outside the model.
-/
namespace XV.Contract
open XV.Sandbox

inductive Act where
  | op (o : Op)
  | transfer (a to amt : Nat)   -- from, to, amount
  | event (e : Nat)
  | burn (n : Nat)
  | subuse (n : Nat)
  | fail
  | err
deriving Repr, DecidableEq

abbrev Prog := List Res → Option Act

def opBucket : Op → Bucket
  | .get b _ => b
  | .put b _ _ => b
  | .del b _ => b
  | .sel b _ _ _ => b

/-- the part of an execution context outside the sandbox -/
structure Meta where
  res : List Res := []             -- results of the actions so far, oldest first
  ev : List Nat := []              -- events
  used : Nat := 0
  peak : Nat := 0
deriving Repr, DecidableEq

structure Ctx (σ : Type) where
  sb : State
  m : Meta
  tok : UState σ     -- `UTXOSandbox`: reader state, recorded inputs, recorded outputs

/-- a fresh sandbox over the utxo reader state `st` -/
def Ctx.init (st : σ) : Ctx σ := ⟨State.init, {}, ⟨st, [], []⟩⟩

inductive Outcome where
  | ok | failed | error
deriving Repr, DecidableEq

def Meta.push (m : Meta) (y : Res) : Meta := { m with res := m.res ++ [y] }
def Meta.addEv (m : Meta) (e : Nat) : Meta := { m.push .done with ev := m.ev ++ [e] }
/-- the contract itself uses `n` -/
def Meta.burn (m : Meta) (n : Nat) : Meta :=
  { m.push .done with used := m.used + n, peak := max m.peak (m.used + n) }
/-- a nested call whose callee uses `n`: it runs under `limit - used` -/
def Meta.subuse (m : Meta) (n : Nat) : Meta := { m.push .done with peak := max m.peak (m.used + n) }

/-- one action other than `fail` / `err`; `none` = the action itself errors -/
def act (bks : List Bucket) (r : Reader) (R : UReader σ) (x : Ctx σ) : Act → Option (Ctx σ)
  | .op o =>
    if opBucket o ∈ bks then
      some ⟨(stepOp fixed r x.sb o).1, x.m.push (stepOp fixed r x.sb o).2, x.tok⟩
    else none
  | .transfer a to amt =>
    -- `UTXOSandbox.Transfer`: amount 0 refused, the reader may refuse (not enough, wrong owner); the
    -- contract passes the error on
    match transfer R x.tok a to amt with
    | (u, true) => some ⟨x.sb, x.m.push .done, u⟩
    | (_, false) => none
  | .event e => some ⟨x.sb, x.m.addEv e, x.tok⟩
  | .burn n => some ⟨x.sb, x.m.burn n, x.tok⟩
  | .subuse n => some ⟨x.sb, x.m.subuse n, x.tok⟩
  | .fail => none
  | .err => none

/-- `Invoke`: run the program until it returns, fails, errors or runs out of fuel -/
def exec (bks : List Bucket) (r : Reader) (R : UReader σ) (p : Prog) : Nat → Ctx σ → Ctx σ × Outcome
  | 0, x => (x, .error)
  | fuel + 1, x =>
    match p x.m.res with
    | none => (x, .ok)
    | some .fail => (x, .failed)
    | some .err => (x, .error)
    | some a =>
      match act bks r R x a with
      | none => (x, .error)
      | some x' => exec bks r R p fuel x'

/-! ### the committed state -/

structure DB where
  live : Store
  dead : Store

def DB.empty : DB := ⟨Store.empty, Store.empty⟩

/-- `XModel.Get`: live table, else the delete table, else the empty version -/
def DB.cur (db : DB) (b : Bucket) (k : Key) : VData :=
  match find k (db.live b) with
  | some d => d
  | none =>
    match find k (db.dead b) with
    | some d => d
    | none => ⟨0, 1⟩

def DB.reader (db : DB) : Reader := xmodelReader db.live db.dead

def eraseK (k : Key) (l : KV) : KV := l.filter (fun e => e.1 != k)

def Store.erase (m : Store) (b : Bucket) (k : Key) : Store :=
  fun b' => if b' = b then eraseK k (m b') else m b'

/-- `MakeVersion(txid, offset)`; `0` is the empty version -/
def mkVer (id off : Nat) : Nat := id * 1024 + off + 1

abbrev REntry := Bucket × Key × Nat   -- bucket, key, version
abbrev WEntry := Bucket × Key × Nat   -- bucket, key, value (0 = delete mark)

structure Tx where
  id : Nat
  prog : Prog
  limit : Nat
  fee : Nat
  kin : List REntry
  kout : List WEntry
  cin : List TxIn      -- declared `ContractUtxo.Inputs`
  cx : List TxOut      -- declared `ContractUtxo.Outputs` (payments and change, in the order of the calls)
  ev : List Nat        -- declared `contractEvent`
  ins : List Nat       -- references of the real `TxInputs`
  outs : List TxOut    -- the real `TxOutputs`

/-- an event number as the `ContractEvent` of the sandbox model -/
def evOf (l : List Nat) : List Event := l.map (fun e => ⟨e, e⟩)

/-- the transient entries of a write set: what `Flush` writes for these inputs, outputs and events -/
def transientOf (cin : List TxIn) (cx : List TxOut) (ev : List Nat) : List TEntry :=
  flushEntries cin cx (evOf ev)

/-- number of transient entries, which precede the other buckets in `TxOutputsExt` ("$" sorts first) -/
def nTransient (cin : List TxIn) (cx : List TxOut) (ev : List Nat) : Nat := (transientOf cin cx ev).length

/-- `XModel.updateExtUtxo` -/
def applyKOut (id : Nat) : List WEntry → Nat → DB → DB
  | [], _, db => db
  | (b, k, v) :: rest, off, db =>
    let db' : DB :=
      if v = 0 then ⟨Store.erase db.live b k, db.dead.put b k ⟨mkVer id off, 0⟩⟩
      else ⟨db.live.put b k ⟨mkVer id off, v⟩, db.dead⟩
    applyKOut id rest (off + 1) db'

def commit (db : DB) (t : Tx) : DB := applyKOut t.id t.kout (nTransient t.cin t.cx t.ev) db

/-! ### read / write set listings -/

def listOf (bks : List Bucket) (m : Store) : List (Bucket × Key × VData) :=
  bks.flatMap (fun b => (m b).map (fun e => (b, e.1, e.2)))

def rsetOf (bks : List Bucket) (s : State) : List REntry :=
  (listOf bks s.inputs).map (fun e => (e.1, e.2.1, e.2.2.ver))

def wsetOf (bks : List Bucket) (s : State) : List WEntry :=
  (listOf bks s.outputs).map (fun e => (e.1, e.2.1, e.2.2.val))

/-! ### pre-execution and assembly -/

structure Pre where
  outcome : Outcome
  kin : List REntry
  kout : List WEntry
  cin : List TxIn      -- `UtxoInputs`
  cx : List TxOut      -- `UtxoOutputs`
  ev : List Nat
  used : Nat
  peak : Nat
  res : List Res
deriving Repr, DecidableEq

/-- `Chain.PreExec`: sandbox over the live state and the first-run utxo reader `R` in state `st`, maximal
limits; an erroring call yields no response -/
def preexec (bks : List Bucket) (fuel : Nat) (db : DB) (R : UReader σ) (st : σ) (p : Prog) : Option Pre :=
  match exec bks db.reader R p fuel (Ctx.init st) with
  | (_, .error) => none
  | (x, o) => some ⟨o, rsetOf bks x.sb, wsetOf bks x.sb, x.tok.uin, x.tok.uout, x.m.ev, x.m.used, x.m.peak, x.m.res⟩

/-- the first-run reader after a pre-execution, whatever its outcome: what it handed out stays locked -/
def preexecRd (bks : List Bucket) (fuel : Nat) (db : DB) (R : UReader σ) (st : σ) (p : Prog) : σ :=
  (exec bks db.reader R p fuel (Ctx.init st)).1.tok.rd

/-- the client: requests with the returned limits, `$` output paying their gas (`price` gas per unit:
0 on a no-fee chain), returned read / write sets, the contract's inputs and outputs as real inputs and outputs -/
def assemble (price id : Nat) (p : Prog) (pre : Pre) : Tx :=
  { id := id, prog := p, limit := pre.used, fee := price * pre.used, kin := pre.kin, kout := pre.kout,
    cin := pre.cin, cx := pre.cx, ev := pre.ev, ins := pre.cin.map (·.ref), outs := pre.cx }

/-! ### verification -/

/-- `GenRWSetFromTx` / `xmodel.verifyInputs`: every declared read cites the current version -/
def readsCurrent (db : DB) (kin : List REntry) : Bool :=
  kin.all (fun e => (db.cur e.1 e.2.1).ver == e.2.2)

/-- `XMReaderFromRWSet` of the read set `GenRWSetFromTx` builds: the state's entry of every declared key -/
def rsOf (db : DB) : List REntry → Store
  | [] => Store.empty
  | e :: rest => (rsOf db rest).put e.1 e.2.1 (db.cur e.1 e.2.1)

/-- `xmodel.Equal`: both sides sorted, then compared; the re-executed side has no repeated entry, so this
is "same length and every re-executed entry is declared" -/
def sameSet (decl lst : List WEntry) : Bool :=
  decl.length == lst.length && lst.all (fun e => decl.contains e)

/-- sub-multiset (`isSubOutputs`: a counter per (amount, receiver), decremented by every match) -/
def subMulti : List TxOut → List TxOut → Bool
  | [], _ => true
  | a :: rest, l => l.contains a && subMulti rest (l.erase a)

/-- `isContractUtxoEffective`: the declared contract inputs are inputs of the transaction (by reference),
the declared contract outputs are outputs of the transaction, each as often as it is declared -/
def effective (t : Tx) : Bool :=
  decide (t.cin.length ≤ t.ins.length) && decide (t.cx.length ≤ t.outs.length) &&
  t.cin.all (fun u => t.ins.contains u.ref) && subMulti t.cx t.outs

/-- the re-execution of `verifyTxRWSets` over the declared reads and the declared contract inputs under
the declared limit, `Flush`, comparison of the write sets (the transient entries are part of them) -/
def reexecOK (bks : List Bucket) (fuel : Nat) (db : DB) (t : Tx) : Bool :=
  match exec bks (memReader (rsOf db t.kin)) replayReader t.prog fuel (Ctx.init t.cin) with
  | (x, .ok) =>
    decide (x.m.peak ≤ t.limit) && sameSet t.kout (wsetOf bks x.sb) &&
      (transientOf t.cin t.cx t.ev == transientOf x.tok.uin x.tok.uout x.m.ev)
  | _ => false

/-- `xmodel.verifyOutputs`: a written key must be a declared read -/
def writesRead (t : Tx) : Bool :=
  t.kout.all (fun w => t.kin.any (fun r => r.1 == w.1 && r.2.1 == w.2.1))

/-- `State.VerifyTx` + the xmodel part of `State.DoTx` (signatures, ACL and token sums are outside) -/
def verify (bks : List Bucket) (price fuel : Nat) (db : DB) (t : Tx) : Bool :=
  readsCurrent db t.kin &&
  decide (price * t.limit ≤ t.fee) &&
  effective t &&
  reexecOK bks fuel db t &&
  writesRead t

/-- `Chain.SubmitTx` -/
def submit (bks : List Bucket) (price fuel : Nat) (db : DB) (t : Tx) : DB × Bool :=
  if verify bks price fuel db t then (commit db t, true) else (db, false)

/-! ### the declared write set as it stands in the transaction

`Tx` above is the DECODED view of a transaction (stored writes, declared contract inputs / outputs / events).
What `verifyTxRWSets` compares is the list `TxOutputsExt` itself: `GenRWSetFromTx` turns every entry - transient or
not, in whatever order and however often it occurs - into a `PureData`, `xmodel.Equal` sorts that list and the
re-executed `RWSet().WSet` by (bucket, key, value) and compares them pairwise (= the two lists are permutations of
each other), while `ParseContractUtxoInputs` / `ParseContractUtxoOutputs` take the value of the LAST transient
entry with their key.  `RawTx` keeps the list; `Tx.raw` is the canonical encoding (transient entries first, as
`Flush` orders them), `RawTx.view` the decoding.  A declared write set in which an entry stands twice, or stands in
for another one, can only be said on this level. -/

/-- an entry of `TxOutputsExt` -/
inductive WX where
  | tr (e : TEntry)      -- bucket `$transient`
  | kv (w : WEntry)      -- (bucket, key, value)
deriving Repr, DecidableEq

def kvOf : List WX → List WEntry
  | [] => []
  | .kv w :: rest => w :: kvOf rest
  | .tr _ :: rest => kvOf rest

def trOf : List WX → List TEntry
  | [] => []
  | .tr e :: rest => e :: trOf rest
  | .kv _ :: rest => trOf rest

/-- the parse loops of `xmodel`: the value of the LAST transient entry of the wanted kind, empty if there is none -/
def pickStep (sel : TEntry → Option (List α)) (acc : List α) (e : TEntry) : List α :=
  match sel e with
  | some x => x
  | none => acc

def pickLast (sel : TEntry → Option (List α)) (l : List TEntry) : List α := l.foldl (pickStep sel) []

def selIn : TEntry → Option (List TxIn)
  | .inputs x => some x
  | _ => none

def selOut : TEntry → Option (List TxOut)
  | .outputs x => some x
  | _ => none

def selEv : TEntry → Option (List Event)
  | .events x => some x
  | _ => none

/-- `ParseContractUtxoInputs` -/
def parseIn (l : List TEntry) : List TxIn := pickLast selIn l

/-- `ParseContractUtxoOutputs` -/
def parseOut (l : List TEntry) : List TxOut := pickLast selOut l

/-- the declared events (nothing parses them during verification; part of the decoded view only) -/
def parseEv (l : List TEntry) : List Nat := (pickLast selEv l).map (·.name)

structure RawTx where
  id : Nat
  prog : Prog
  limit : Nat
  fee : Nat
  kin : List REntry
  wext : List WX       -- `TxOutputsExt`, in order
  ins : List Nat
  outs : List TxOut

/-- what `Flush` leaves in `RWSet().WSet`: the transient entries, then the buckets in order -/
def encodeW (cin : List TxIn) (cx : List TxOut) (ev : List Nat) (kout : List WEntry) : List WX :=
  (transientOf cin cx ev).map .tr ++ kout.map .kv

def Tx.raw (t : Tx) : RawTx :=
  { id := t.id, prog := t.prog, limit := t.limit, fee := t.fee, kin := t.kin,
    wext := encodeW t.cin t.cx t.ev t.kout, ins := t.ins, outs := t.outs }

def RawTx.view (t : RawTx) : Tx :=
  { id := t.id, prog := t.prog, limit := t.limit, fee := t.fee, kin := t.kin, kout := kvOf t.wext,
    cin := parseIn (trOf t.wext), cx := parseOut (trOf t.wext), ev := parseEv (trOf t.wext),
    ins := t.ins, outs := t.outs }

/-- the write set of a finished execution after `Flush` -/
def fullW (bks : List Bucket) (x : Ctx σ) : List WX :=
  encodeW x.tok.uin x.tok.uout x.m.ev (wsetOf bks x.sb)

/-- the re-execution of `verifyTxRWSets` over the declared reads and the parsed contract inputs, `Flush`, and
`xmodel.Equal` of the declared list with the re-executed one (both sorted, compared pairwise) -/
def reexecRaw (bks : List Bucket) (fuel : Nat) (db : DB) (t : RawTx) : Bool :=
  match exec bks (memReader (rsOf db t.kin)) replayReader t.prog fuel (Ctx.init t.view.cin) with
  | (x, .ok) => decide (x.m.peak ≤ t.limit) && t.wext.isPerm (fullW bks x)
  | _ => false

/-- `State.VerifyTx` + the xmodel part of `State.DoTx` on the transaction as it stands -/
def verifyRaw (bks : List Bucket) (price fuel : Nat) (db : DB) (t : RawTx) : Bool :=
  readsCurrent db t.kin &&
  decide (price * t.limit ≤ t.fee) &&
  effective t.view &&
  reexecRaw bks fuel db t &&
  writesRead t.view

/-- `XModel.updateExtUtxo`: the version of a stored write is (txid, offset in `TxOutputsExt`); transient
entries are skipped but counted -/
def applyW (id : Nat) : List WX → Nat → DB → DB
  | [], _, db => db
  | .tr _ :: rest, off, db => applyW id rest (off + 1) db
  | .kv (b, k, v) :: rest, off, db =>
    let db' : DB :=
      if v = 0 then ⟨Store.erase db.live b k, db.dead.put b k ⟨mkVer id off, 0⟩⟩
      else ⟨db.live.put b k ⟨mkVer id off, v⟩, db.dead⟩
    applyW id rest (off + 1) db'

def commitRaw (db : DB) (t : RawTx) : DB := applyW t.id t.wext 0 db

/-- `Chain.SubmitTx` on the transaction as it stands -/
def submitRaw (bks : List Bucket) (price fuel : Nat) (db : DB) (t : RawTx) : DB × Bool :=
  if verifyRaw bks price fuel db t then (commitRaw db t, true) else (db, false)

end XV.Contract
