/-!
Model of one round of the miner of xupercore (property C13, `kernel/engines/xuperos/miner/miner.go`):

* `calcAward`   — `GenesisBlock.CalcAward` (bcs/ledger/xledger/ledger/genesis.go): the configured award, multiplied
  by `award_decay.ratio` once per `award_decay.height_gap` blocks, rounded half up (`math.Round`). The Go code
  iterates `realAward = realAward * ratio` in float64; the model iterates the same loop over exact fractions
  (`decayLoop`), which is what the float computation yields for the dyadic ratios the harness generates;
* `mineRound`   — `Miner.mining`: `ProcessBeforeMiner` may name a truncate target `k` blocks below the tip;
  `truncateForMiner` cuts the trunk; the height of the new block is read from the ledger AFTER the cut; `packBlock`
  asks the state for the timer transaction of that height (`GetTimerTx`, evaluated on the node's LIVE state: the
  confirmed tasks of the remaining trunk and the tasks registered by pending transactions), computes the award of that
  height, and packs the pending transactions behind them;
* `acceptable`  — what every other node checks: the block stands one above its parent (`ConfirmBlock`), carries the
  award of its height (`IsValidTx`), and its timer transaction is the one the node generates itself for that height
  on the confirmed state (`ImmediateVerifyAutoTx`).

Core Lean only; everything is executable (`xvdriver pool`).
-/
namespace XV.Miner

/-- `award`, `award_decay.height_gap`, `award_decay.ratio = num / den` of the genesis configuration -/
structure AwardCfg where
  award : Nat := 0
  gap : Nat := 0
  num : Nat := 1
  den : Nat := 1
deriving Repr, DecidableEq, Inhabited

/-- `math.Round` of the non-negative fraction `a / b`: half away from zero -/
def roundDiv (a b : Nat) : Nat := (2 * a + b) / (2 * b)

/-- the loop `for i := 0; i < period; i++ { realAward = realAward * ratio }` over exact fractions `a / d` -/
def decayLoop (num den : Nat) : Nat → Nat × Nat → Nat × Nat
  | 0, x => x
  | p + 1, x => decayLoop num den p (x.1 * num, x.2 * den)

/-- `GenesisBlock.CalcAward(height)` -/
def calcAward (c : AwardCfg) (h : Nat) : Nat :=
  if c.gap = 0 then c.award
  else
    let r := decayLoop c.num c.den (h / c.gap) (c.award, 1)
    roundDiv r.1 r.2

/-- a timer task: `$timer_task.Add(block_height, trigger)` stored under `<height>_<id>` -/
structure Task where
  height : Nat
  id : Nat
deriving Repr, DecidableEq, Inhabited

/-- a block as far as the miner round is concerned -/
structure Blk where
  height : Nat
  award : Nat
  /-- ids of the tasks the block's timer transaction ran (`[]` = no timer transaction) -/
  timer : List Nat
  /-- timer tasks registered by transactions of the block -/
  adds : List Task
deriving Repr, DecidableEq, Inhabited

/-- the node: its trunk above the root block (tip first) and the tasks registered by pending transactions -/
structure Node where
  trunk : List Blk := []
  pendingAdds : List Task := []
deriving Repr, DecidableEq, Inhabited

/-- `Ledger.GetMeta().TrunkHeight` -/
def Node.height (n : Node) : Nat := n.trunk.length

/-- the timer tasks of the confirmed state -/
def confirmedTasks (trunk : List Blk) : List Task := trunk.flatMap (·.adds)

/-- the tasks `$timer_task.Do(block_height = h)` runs -/
def due (ts : List Task) (h : Nat) : List Nat := (ts.filter (fun t => t.height == h)).map (·.id)

/-- `Miner.mining` with `ProcessBeforeMiner` asking to cut `k` blocks (`k = 0`: no truncate target): the new block and
the node after `confirmBlockForMiner` (all pending registrations packed) -/
def mineRound (c : AwardCfg) (n : Node) (k : Nat) : Blk × Node :=
  let trunk := n.trunk.drop k                       -- truncateForMiner
  let h := trunk.length + 1                          -- height re-read after the truncation
  let live := confirmedTasks trunk ++ n.pendingAdds  -- GetTimerTx runs on the live state
  let b : Blk := { height := h, award := calcAward c h, timer := due live h, adds := n.pendingAdds }
  (b, { trunk := b :: trunk, pendingAdds := [] })

/-- the round with the block height taken from a ledger-meta snapshot read BEFORE the truncation (a stale read; the
code does not do this — the variant exists to show that the theorems tell the two apart) -/
def mineRoundStale (c : AwardCfg) (n : Node) (k : Nat) : Blk × Node :=
  let h := n.trunk.length + 1
  let trunk := n.trunk.drop k
  let live := confirmedTasks trunk ++ n.pendingAdds
  let b : Blk := { height := h, award := calcAward c h, timer := due live h, adds := n.pendingAdds }
  (b, { trunk := b :: trunk, pendingAdds := [] })

/-- what a node that holds `parentTrunk` checks before it accepts the block on top of it -/
def acceptable (c : AwardCfg) (parentTrunk : List Blk) (b : Blk) : Prop :=
  b.height = parentTrunk.length + 1 ∧            -- ConfirmBlock: one above the parent
  b.award = calcAward c b.height ∧                -- IsValidTx: the award of the block's height
  b.timer = due (confirmedTasks parentTrunk) b.height  -- ImmediateVerifyAutoTx: regenerated on the confirmed state

instance (c : AwardCfg) (t : List Blk) (b : Blk) : Decidable (acceptable c t b) := by
  unfold acceptable; exact inferInstance

/-- a trunk every block of which is acceptable on top of the blocks below it -/
def validTrunk (c : AwardCfg) : List Blk → Prop
  | [] => True
  | b :: rest => acceptable c rest b ∧ validTrunk c rest

instance instValidTrunk (c : AwardCfg) : (t : List Blk) → Decidable (validTrunk c t)
  | [] => isTrue trivial
  | _ :: rest => @instDecidableAnd _ _ _ (instValidTrunk c rest)

/-- a sequence of rounds: each entry is (number of blocks the consensus asks to cut, tasks registered by the
transactions pending at that moment) -/
def runRounds (c : AwardCfg) (n : Node) : List (Nat × List Task) → Node
  | [] => n
  | (k, adds) :: rest => runRounds c (mineRound c { n with pendingAdds := adds } k).2 rest

/-! ### a round that fails on a storage write, and the miner's recovery

`confirmBlockForMiner` writes twice: the ledger batch of `Ledger.ConfirmBlock`, then the single state batch at the end of
`State.PlayForMiner`. If the first write fails nothing has happened. If the second fails the block IS the tip of the
ledger (peers that synchronise are served it) while the state machine still stands on its parent; `PlayForMiner` has
applied the award to its in-memory total while filling the batch and must take that back (`rollbackMemState`). The next
round starts with `State.Walk(ledger tip)`, which plays the block like any other node does. -/

/-- which write of the round fails -/
inductive Fault where
  | ledger
  | state
deriving Repr, DecidableEq, Inhabited

/-- the node with its state machine: how many blocks of the trunk (counted from the root) the state has applied, and
the total supply the state reports -/
structure NodeS where
  node : Node := {}
  played : Nat := 0
  total : Nat := 0
deriving Repr, DecidableEq, Inhabited

/-- the awards of the `n` newest blocks of a trunk -/
def newestAwards (trunk : List Blk) (n : Nat) : Nat := ((trunk.take n).map (·.award)).sum

/-- `State.Walk(ledger tip)` at the start of `Miner.mining`: the blocks the state has not played yet are applied -/
def walkToTip (s : NodeS) : NodeS :=
  { s with played := s.node.trunk.length,
           total := s.total + newestAwards s.node.trunk (s.node.trunk.length - s.played) }

/-- one round without truncation, optionally with a failing write. `keepsAward = false` is the code (the in-memory
award of a `PlayForMiner` whose batch is not written is rolled back); `keepsAward = true` is the variant that forgets
the rollback (seeded change C13-13) -/
def roundS (c : AwardCfg) (keepsAward : Bool) (s : NodeS) (f : Option Fault) : NodeS :=
  let s := walkToTip s
  let r := mineRound c s.node 0
  match f with
  | none => { node := r.2, played := r.2.trunk.length, total := s.total + r.1.award }
  | some .ledger => s
  | some .state => { node := r.2, played := s.played, total := if keepsAward then s.total + r.1.award else s.total }

/-- the supply invariant: the state's total is the genesis amount plus the awards of the blocks it has played -/
def supplyOK (g : Nat) (s : NodeS) : Prop :=
  s.played ≤ s.node.trunk.length ∧
  s.total + newestAwards s.node.trunk (s.node.trunk.length - s.played) = g + newestAwards s.node.trunk s.node.trunk.length

instance (g : Nat) (s : NodeS) : Decidable (supplyOK g s) := by unfold supplyOK; exact inferInstance

/-- rounds with faults: each entry is (tasks registered by the pending transactions, failing write) -/
def runRoundsS (c : AwardCfg) (keeps : Bool) (s : NodeS) : List (List Task × Option Fault) → NodeS
  | [] => s
  | (adds, f) :: rest => runRoundsS c keeps (roundS c keeps { s with node := { s.node with pendingAdds := adds } } f) rest

end XV.Miner
