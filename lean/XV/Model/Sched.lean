import XV.Model.SpinLock
/-!
# Schedules (property C12)

A schedule is the list of thread ids the scheduler releases, one atomic step each.
`run s sched` is the system after that interleaving.  Ids of finished or unknown threads are no-ops,
so EVERY list of naturals is a schedule and theorems quantified over `List Nat` cover every interleaving
of any number of threads.
-/
namespace XV.SpinLock

def run (s : Sys) (sched : List Nat) : Sys := sched.foldl step s

@[simp] theorem run_nil (s : Sys) : run s [] = s := rfl
@[simp] theorem run_cons (s : Sys) (t : Nat) (ts : List Nat) : run s (t :: ts) = run (step s t) ts := rfl
theorem run_append (s : Sys) (a b : List Nat) : run s (a ++ b) = run (run s a) b := by
  simp [run, List.foldl_append]

namespace Split
def run (s : Sys) (sched : List Nat) : Sys := sched.foldl step s
end Split

end XV.SpinLock
