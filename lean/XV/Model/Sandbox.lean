/-!
Model of the contract sandbox `XMCache` (kernel/contract/sandbox: xmcache.go, iterator.go,
mem_xmodel.go, utils.go).

* Buckets and keys are abstract `Nat`s (bucket `0` is the transient bucket; the order of the key
  numbers is the byte order of the keys).  A bucket name contains no `/`, so the raw keys
  `bucket/key` of one bucket form a contiguous block of the red-black tree and a range scan of a
  bucket only ever sees that bucket: a store is modelled as one ordered association list per bucket.
* `VData` is `ledger.VersionedData`: `ver = 0` is the empty version (`RefTxid == nil && RefOffset == 0`,
  `IsEmptyVersionedData`), `val = 0` is the delete mark `"\x00"` (`IsDelFlag`).
* `Reader` is `ledger.XMReader`: `sel b` is what `Select` iterates over in bucket `b` (key order),
  `get b k` is `Get` (`none` = `ErrNotFound`).  `memReader` is `MemXModel` (and therefore
  `XMReaderFromRWSet`); the ledger's `XModel` is a reader whose `get` also finds deleted keys
  (delete table) and answers an empty-version entry for a never-written key, while `sel` iterates
  live keys only.
* `Select` is the iterator stack of `newXModelCacheIterator` as a state machine (`Scan`):
  `strip(multi(outputs, multi(strip(inputs), strip(rset(model)))))` with the eager one-element
  look-ahead of every `peekIterator`; pulling an entry out of the backend iterator records it in the
  read set (`rsetIterator.Next` calls `XMCache.Get`).
  The inputs iterator walks the live red-black tree while the backend iterator inserts into it.
  Its `Next` is "successor of the current node in the current tree", so it may also yield entries
  inserted during the scan; these are exactly entries the backend iterator has already produced
  with the same data, and a key yielded by both sides is yielded once (front wins), so the scan
  over the snapshot of the inputs taken at creation (which is what is modelled) yields the same
  items and pulls the backend iterator at the same moments.  The correspondence check compares
  results and read-set sizes after every scan.
* `Cfg` says what the two strip layers drop. `fixed` is the code as repaired (`fix:` commits
  b7558b1, 6922197): inner strips drop delete marks and empty versions, the outer strip drops delete
  marks. `orig` is the code before the repair (inner: delete marks only; no outer strip); it is
  kept for the refutation witnesses in `Props/C10.lean`.
-/
namespace XV.Sandbox

/-- keys and buckets are plain `Nat`s (notation, so that `omega` sees them) -/
scoped notation "Key" => Nat
scoped notation "Bucket" => Nat

structure VData where
  ver : Nat
  val : Nat
deriving Repr, DecidableEq, Inhabited

abbrev Elem := Key × VData
abbrev KV := List Elem

/-- `IsDelFlag(v.PureData.Value)` -/
def VData.isDel (v : VData) : Bool := v.val == 0
/-- `IsEmptyVersionedData(v)` -/
def VData.isEmptyVer (v : VData) : Bool := v.ver == 0

/-- `TransientBucket` -/
def transient : Bucket := 0

/-- tree lookup -/
def find (k : Key) : KV → Option VData
  | [] => none
  | e :: r => if k = e.1 then some e.2 else find k r

/-- tree insert (ordered; an existing key is overwritten) -/
def ins (k : Key) (v : VData) : KV → KV
  | [] => [(k, v)]
  | e :: r =>
    if k < e.1 then (k, v) :: e :: r
    else if k = e.1 then (k, v) :: r
    else e :: ins k v r

abbrev Store := Bucket → KV

def Store.get (m : Store) (b : Bucket) (k : Key) : Option VData := find k (m b)
def Store.put (m : Store) (b : Bucket) (k : Key) (v : VData) : Store :=
  fun b' => if b' = b then ins k v (m b') else m b'
def Store.empty : Store := fun _ => []

structure Reader where
  sel : Store
  get : Bucket → Key → Option VData

/-- `MemXModel` over the given tree; `XMReaderFromRWSet rwset` is `memReader` of the read set -/
def memReader (m : Store) : Reader := ⟨m, fun b k => find k (m b)⟩

/-- a reader with the semantics of the ledger's `XModel`: `live` is the ext-utxo table, `dead` the
delete table (entries carry the delete mark), a key in neither is answered with an empty version -/
def xmodelReader (live dead : Store) : Reader :=
  ⟨live, fun b k => match find k (live b) with
    | some d => some d
    | none => match find k (dead b) with
      | some d => some d
      | none => some ⟨0, 1⟩⟩

structure State where
  inputs : Store    -- inputsCache: the read set
  outputs : Store   -- outputsCache: the write set (versions are empty)

def State.init : State := ⟨Store.empty, Store.empty⟩

inductive GetRes where
  | val (v : Nat)
  | notFound      -- ErrNotFound
  | hasDel        -- ErrHasDel
deriving Repr, DecidableEq

def classify (d : VData) : GetRes :=
  if d.isEmptyVer then .notFound else if d.isDel then .hasDel else .val d.val

/-- `XMCache.Get`: outputs, then inputs, then the model (recording the read) -/
def get (r : Reader) (s : State) (b : Bucket) (k : Key) : State × GetRes :=
  match s.outputs.get b k with
  | some d => if d.isDel then (s, .hasDel) else (s, .val d.val)
  | none =>
    match s.inputs.get b k with
    | some d => (s, classify d)
    | none =>
      match r.get b k with
      | none => (s, .notFound)
      | some d => ({ s with inputs := s.inputs.put b k d }, classify d)

/-- `XMCache.Put`: outside the transient bucket the key is read first (result dropped) -/
def put (r : Reader) (s : State) (b : Bucket) (k : Key) (v : Nat) : State :=
  let s1 := if b = transient then s else (get r s b k).1
  { s1 with outputs := s1.outputs.put b k ⟨0, v⟩ }

/-- `XMCache.Del` = `Put(bucket, key, DelFlag)` -/
def del (r : Reader) (s : State) (b : Bucket) (k : Key) : State := put r s b k 0

/-! ### Select -/

def inRange (lo : Nat) (hi : Option Nat) (k : Key) : Bool :=
  decide (lo ≤ k) && (match hi with | none => true | some h => decide (k < h))

/-- `treeIterator` over `[start, end)` of one bucket -/
def rangeOf (l : KV) (lo : Nat) (hi : Option Nat) : KV := l.filter (fun e => inRange lo hi e.1)

structure Cfg where
  inner : VData → Bool   -- what `strip(inputs)` and `strip(rset(model))` drop
  outer : VData → Bool   -- what the strip after the outer merge drops

def fixed : Cfg := ⟨fun v => v.isDel || v.isEmptyVer, fun v => v.isDel⟩
def orig : Cfg := ⟨fun v => v.isDel, fun _ => false⟩

/-- one `Next` of `strip(rset(model))`: pull backend entries, recording each one in the read set
(`rsetIterator.Next`: `mc.Get(bucket, key)`), until one survives the strip -/
def backNext (c : Cfg) (r : Reader) (b : Bucket) : State → KV → State × Option Elem × KV
  | s, [] => (s, none, [])
  | s, e :: rest =>
    let s' := (get r s b e.1).1
    if c.inner e.2 then backNext c r b s' rest else (s', some e, rest)

/-- the comparison of `multiIterator.Next` on the two look-aheads:
(what is yielded, advance front, advance back); equal keys: front wins, both advance -/
def pick (f b : Option Elem) : Option Elem × Bool × Bool :=
  match f, b with
  | none, none => (none, false, false)
  | none, some y => (some y, false, true)
  | some x, none => (some x, true, false)
  | some x, some y =>
    if x.1 = y.1 then (some x, true, true)
    else if x.1 < y.1 then (some x, true, false)
    else (some y, false, true)

/-- the iterator stack between two `Next` calls; every `peekIterator` holds its look-ahead -/
structure Scan where
  o  : KV            -- outputs iterator; head = look-ahead
  fi : KV            -- strip(inputs) iterator; head = look-ahead
  bp : Option Elem   -- look-ahead of strip(rset(model))
  br : KV            -- backend entries not pulled yet
  ip : Option Elem   -- look-ahead of the inner multiIterator

/-- `Next` of the inner `multiIterator(strip(inputs), strip(rset(model)))` -/
def innerNext (c : Cfg) (r : Reader) (b : Bucket) (s : State) (sc : Scan) : State × Scan × Option Elem :=
  match pick sc.fi.head? sc.bp with
  | (y, af, ab) =>
    let fi' := if af then sc.fi.tail else sc.fi
    if ab then
      match backNext c r b s sc.br with
      | (s', bp', br') => (s', { sc with fi := fi', bp := bp', br := br' }, y)
    else (s, { sc with fi := fi' }, y)

/-- `Next` of the outer `multiIterator(outputs, inner)` -/
def outerNext (c : Cfg) (r : Reader) (b : Bucket) (s : State) (sc : Scan) : State × Scan × Option Elem :=
  match pick sc.o.head? sc.ip with
  | (y, af, ab) =>
    let o' := if af then sc.o.tail else sc.o
    if ab then
      match innerNext c r b s sc with
      | (s', sc', ip') => (s', { sc' with o := o', ip := ip' }, y)
    else (s, { sc with o := o' }, y)

/-- `newXModelCacheIterator`: building the two `multiIterator`s fills every look-ahead -/
def openScan (c : Cfg) (r : Reader) (s : State) (b : Bucket) (lo : Nat) (hi : Option Nat) : State × Scan :=
  let o := rangeOf (s.outputs b) lo hi
  let fi := (rangeOf (s.inputs b) lo hi).filter (fun e => !c.inner e.2)
  match backNext c r b s (rangeOf (r.sel b) lo hi) with
  | (s1, bp, br) =>
    match innerNext c r b s1 { o := o, fi := fi, bp := bp, br := br, ip := none } with
    | (s2, sc, ip) => (s2, { sc with ip := ip })

def Scan.size (sc : Scan) : Nat := sc.o.length + sc.fi.length + sc.br.length + 2

/-- `Next` of the iterator handed to the contract: the outer strip loops over `outerNext`
(`fuel` bounds the loop; `Scan.size + 1` always suffices) -/
def scanNext (c : Cfg) (r : Reader) (b : Bucket) : Nat → State → Scan → State × Scan × Option Elem
  | 0, s, sc => (s, sc, none)
  | fuel + 1, s, sc =>
    match outerNext c r b s sc with
    | (s', sc', none) => (s', sc', none)
    | (s', sc', some e) => if c.outer e.2 then scanNext c r b fuel s' sc' else (s', sc', some e)

/-- at most `n` calls of `Next`, stopping at the first `false` -/
def scanTake (c : Cfg) (r : Reader) (b : Bucket) : Nat → State → Scan → State × List Elem
  | 0, s, _ => (s, [])
  | n + 1, s, sc =>
    match scanNext c r b (sc.size + 1) s sc with
    | (s', _, none) => (s', [])
    | (s', sc', some e) =>
      match scanTake c r b n s' sc' with
      | (s'', l) => (s'', e :: l)

/-- `MemXModel.Select` refuses `start > end` (both given) -/
def badRange (lo : Nat) (hi : Option Nat) : Bool :=
  match hi with | some h => decide (h < lo) | none => false

/-- `XMCache.Select(bucket, lo, hi)` followed by `n` calls of `Next` (`none` = the range is refused:
`start > end`); the contract sees key and value of every item -/
def select (c : Cfg) (r : Reader) (s : State) (b : Bucket) (lo : Nat) (hi : Option Nat) (n : Nat) :
    State × Option (List (Key × Nat)) :=
  if badRange lo hi then (s, none)
  else
    match openScan c r s b lo hi with
    | (s1, sc) =>
      match scanTake c r b n s1 sc with
      | (s2, l) => (s2, some (l.map (fun e => (e.1, e.2.val))))

/-! ### programs -/

inductive Op where
  | get (b : Bucket) (k : Key)
  | put (b : Bucket) (k : Key) (v : Nat)
  | del (b : Bucket) (k : Key)
  | sel (b : Bucket) (lo : Nat) (hi : Option Nat) (n : Nat)
deriving Repr, DecidableEq

inductive Res where
  | got (g : GetRes)
  | done
  | items (l : Option (List (Key × Nat)))
deriving Repr, DecidableEq

def stepOp (c : Cfg) (r : Reader) (s : State) : Op → State × Res
  | .get b k => let p := get r s b k; (p.1, .got p.2)
  | .put b k v => (put r s b k v, .done)
  | .del b k => (del r s b k, .done)
  | .sel b lo hi n => let p := select c r s b lo hi n; (p.1, .items p.2)

def run (c : Cfg) (r : Reader) : State → List Op → State × List Res
  | s, [] => (s, [])
  | s, op :: ops =>
    match stepOp c r s op with
    | (s1, x) =>
      match run c r s1 ops with
      | (s2, xs) => (s2, x :: xs)

/-- `XMReaderFromRWSet(xc.RWSet())` -/
def readerFromRWSet (s : State) : Reader := memReader s.inputs

/-! ### the token side of one execution: `Transfer`, events, `Flush`

(kernel/contract/sandbox/utxo.go, xmcache.go `Transfer/UTXORWSet/AddEvent/Flush`,
bcs/ledger/xledger/state/utxo/utxo_sandbox.go `UTXOSandbox`.)

* Addresses, output references `(RefTxid, RefOffset)`, event names and bodies are abstract `Nat`s.
* A `contract.UtxoReader` is a state machine `UReader σ`: `select st a n` is
  `SelectUtxo(a, n, lock, excludeUnconfirmed)`; the answer is `none` for an error, else the inputs
  handed out and the total the reader reports (`UTXOSandbox.Transfer` trusts that total).
* `listReader` is the first-run reader of the harness and the shape of `UtxoVM.SelectUtxos`: the
  unspent outputs in a fixed order; a selection walks them, takes every output owned by `a` until
  the running sum reaches the amount and removes (locks) what it took; if the outputs of `a` do not
  cover the amount it fails and takes nothing (`UtxoVM` unlocks what it had locked).
* `replayReader` is `sandbox.UTXOReader` (`NewUTXOReaderFromInput`): the state is
  `inputCache[inputIdx:]`.
* `Flush` writes up to three entries into the transient bucket with `XMCache.Put` (which never
  reads in that bucket): `ContractUtxo.Inputs`, `ContractUtxo.Outputs` (each only if the list is
  not empty) and `contractEvent` (only if there is an event).  Their keys sort, in this byte order,
  before every key `k<i>` the op lines can name, and the transient bucket `$transient` sorts before
  every other bucket, so in `RWSet().WSet` (the outputs tree in raw-key order) they come first, in
  this order.  They are kept apart from the `Nat`-valued store: `WSet.reserved`.
  A contract execution ends before `Flush`, so `Flush` is the last step (the drivers refuse further
  calls after it).
-/

scoped notation "Addr" => Nat

/-- `protos.TxInput` (frozen height left out: the sandbox never looks at it) -/
structure TxIn where
  ref : Nat
  owner : Addr     -- FromAddr
  amt : Nat
deriving Repr, DecidableEq, Inhabited

/-- `protos.TxOutput` -/
structure TxOut where
  to : Addr
  amt : Nat
deriving Repr, DecidableEq, Inhabited

/-- `protos.ContractEvent` -/
structure Event where
  name : Nat
  body : Nat
deriving Repr, DecidableEq, Inhabited

def sumIn (l : List TxIn) : Nat := (l.map (·.amt)).sum
def sumOut (l : List TxOut) : Nat := (l.map (·.amt)).sum

/-- `contract.UtxoReader` as a state machine: answer (`none` = error, else inputs and reported
total) and next state -/
structure UReader (σ : Type) where
  select : σ → Addr → Nat → Option (List TxIn × Nat) × σ

/-- the selection loop of `UtxoVM.SelectUtxos`: outputs of `a` in order until `need` is covered;
`some (taken, left)` or `none` when the outputs of `a` do not cover `need` -/
def pickUtxo (a : Addr) : Nat → List TxIn → Option (List TxIn × List TxIn)
  | _, [] => none
  | need, u :: rest =>
    if u.owner = a then
      if need ≤ u.amt then some ([u], rest)
      else
        match pickUtxo a (need - u.amt) rest with
        | none => none
        | some (t, l) => some (u :: t, l)
    else
      match pickUtxo a need rest with
      | none => none
      | some (t, l) => some (t, u :: l)

/-- the first-run reader: state = the unspent, unlocked outputs in selection order.  An amount of
zero selects nothing (`SelectUtxos` returns early); `Transfer` never asks for zero. -/
def listReader : UReader (List TxIn) where
  select st a need :=
    if need = 0 then (some ([], 0), st)
    else
      match pickUtxo a need st with
      | none => (none, st)
      | some (t, l) => (some (t, sumIn t), l)

/-- the loop of `UTXOReader.SelectUtxo` over `inputCache[inputIdx:]`, with the count `n` and the sum
so far: `none` = "from address mismatch", else the count and sum with which the loop was left -/
def replayLoop (a : Addr) (need : Nat) : List TxIn → Nat → Nat → Option (Nat × Nat)
  | [], n, sum => some (n, sum)
  | u :: rest, n, sum =>
    if u.owner ≠ a then none
    else if need ≤ sum + u.amt then some (n + 1, sum + u.amt)
    else replayLoop a need rest (n + 1) (sum + u.amt)

/-- `sandbox.UTXOReader` built by `NewUTXOReaderFromInput`: state = `inputCache[inputIdx:]` -/
def replayReader : UReader (List TxIn) where
  select st a need :=
    match replayLoop a need st 0 0 with
    | none => (none, st)
    | some (n, sum) =>
      if sum < need then (none, st)          -- "utxo not enough in utxo cache"
      else (some (st.take n, sum), st.drop n)

/-- `utxo.UTXOSandbox` -/
structure UState (σ : Type) where
  rd : σ                -- the reader's state
  uin : List TxIn       -- inputCache
  uout : List TxOut     -- outputCache

/-- `UTXOSandbox.Transfer`; `false` = an error is returned (nothing is recorded then).  The code as
repaired (`fix:` abdcf7e) refuses every amount `≤ 0` by one test before the reader is asked; amounts
are naturals here and `0` stands for all of them (the drivers map a negative amount to `0`). -/
def transfer (R : UReader σ) (u : UState σ) (a to : Addr) (amt : Nat) : UState σ × Bool :=
  if amt = 0 then (u, false)
  else
    match R.select u.rd a amt with
    | (none, st) => ({ u with rd := st }, false)
    | (some (l, total), st) =>
      ({ rd := st, uin := u.uin ++ l,
         uout := u.uout ++ [⟨to, amt⟩] ++ (if amt < total then [⟨a, total - amt⟩] else []) }, true)

/-- the whole sandbox: key/value caches, token caches, events -/
structure XState (σ : Type) where
  kv : State
  tok : UState σ
  events : List Event

def XState.init (st : σ) : XState σ := ⟨State.init, ⟨st, [], []⟩, []⟩

inductive XOp where
  | kv (op : Op)
  | xfer (a to : Addr) (amt : Nat)
  | event (name body : Nat)
deriving Repr, DecidableEq

inductive XRes where
  | kv (x : Res)
  | xfer (ok : Bool)
  | event
deriving Repr, DecidableEq

def xstep (c : Cfg) (r : Reader) (R : UReader σ) (x : XState σ) : XOp → XState σ × XRes
  | .kv op => let p := stepOp c r x.kv op; ({ x with kv := p.1 }, .kv p.2)
  | .xfer a to amt => let p := transfer R x.tok a to amt; ({ x with tok := p.1 }, .xfer p.2)
  | .event n b => ({ x with events := x.events ++ [⟨n, b⟩] }, .event)

def xrun (c : Cfg) (r : Reader) (R : UReader σ) : XState σ → List XOp → XState σ × List XRes
  | x, [] => (x, [])
  | x, op :: ops =>
    match xstep c r R x op with
    | (x1, y) =>
      match xrun c r R x1 ops with
      | (x2, ys) => (x2, y :: ys)

/-- an entry `Flush` writes into the transient bucket -/
inductive TEntry where
  | inputs (l : List TxIn)      -- `ContractUtxo.Inputs`
  | outputs (l : List TxOut)    -- `ContractUtxo.Outputs`
  | events (l : List Event)     -- `contractEvent`
deriving Repr, DecidableEq

/-- `XMCache.Flush` = `flushUTXORWSet` then `writeEventRWSet`: which entries exist, in the order in
which they stand in the write set -/
def flushEntries (uin : List TxIn) (uout : List TxOut) (evs : List Event) : List TEntry :=
  (if uin.isEmpty then [] else [.inputs uin]) ++
  (if uout.isEmpty then [] else [.outputs uout]) ++
  (if evs.isEmpty then [] else [.events evs])

/-- `RWSet().WSet` after `Flush`: `reserved`, then `kv 0`, `kv 1`, … -/
structure WSet where
  reserved : List TEntry
  kv : Store

def XState.flush (x : XState σ) : WSet := ⟨flushEntries x.tok.uin x.tok.uout x.events, x.kv.outputs⟩

end XV.Sandbox
