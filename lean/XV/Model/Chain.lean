/-!
L1 model of the xupercore state machine over a block tree (bcs/ledger/xledger/state/state.go,
state/xmodel/xmodel.go, state/utxo/utxo.go, state/meta/meta.go, tx/tx.go), after the repairs
recorded in known_findings.json ("fixed" entries).

The model holds exactly the persistent tables of the state DB — no caches: that the caches of the
Go code are unobservable is what the correspondence check (C05) establishes.

* `U`  : (txid, offset) ⇀ (owner, amount, frozenHeight)          table "U"
* `ZU` : key ⇀ version   (live keys)                              table "ZU"
* `ZD` : key ⇀ version   (delete markers, "recycle bin")          table "ZD"
* `total`, `pointer`, `irrev`                                     table "M"
* `pool` : pending transactions in admission order                table "N"

Ids are abstract `Nat`s (the harness numbers real txids / blockids by first occurrence).
Signatures and contract re-execution are outside this model: the harness only submits transactions
whose signatures and declared read/write sets are valid; what is modelled is admission against the
tables (CheckInputEqualOutput, XModel.verifyInputs/verifyOutputs), application, undo, fees, the pool
processing of a played block, Walk, and the irreversible height.
-/
namespace XV.Chain

structure InRef where
  tx : Nat
  off : Nat
  addr : String
  amt : Nat
  frozen : Int
  raw : Bool            -- amount cited with non-canonical bytes (leading zeros)
deriving Repr, DecidableEq, Inhabited

structure Out where
  addr : String         -- "$" = fee placeholder
  amt : Nat
  frozen : Int
deriving Repr, DecidableEq, Inhabited

abbrev Ver := Nat × Nat  -- (txid, offset)

structure KIn where
  key : String
  ver : Option Ver      -- none = the key was never written
deriving Repr, DecidableEq, Inhabited

structure KOut where
  key : String
  val : String
  del : Bool
deriving Repr, DecidableEq, Inhabited

structure Tx where
  id : Nat
  coinbase : Bool
  ins : List InRef
  outs : List Out
  kin : List KIn
  kout : List KOut
deriving Repr, DecidableEq, Inhabited

structure UItem where
  addr : String
  amt : Nat
  frozen : Int
deriving Repr, DecidableEq, Inhabited

structure Block where
  id : Nat
  pre : Option Nat
  height : Nat
  txs : List Nat        -- tx ids, award first
  prop : String
deriving Repr, DecidableEq, Inhabited

/-- association-list maps: lookup = first match; `put` replaces in place or appends; `del` removes all -/
def lookup {κ ν} [DecidableEq κ] (m : List (κ × ν)) (k : κ) : Option ν :=
  match m with
  | [] => none
  | (k', v) :: r => if k' = k then some v else lookup r k

def del {κ ν} [DecidableEq κ] (m : List (κ × ν)) (k : κ) : List (κ × ν) :=
  m.filter (fun p => p.1 ≠ k)

def put {κ ν} [DecidableEq κ] (m : List (κ × ν)) (k : κ) (v : ν) : List (κ × ν) :=
  (k, v) :: del m k

structure St where
  U : List (Ver × UItem) := []
  ZU : List (String × Ver) := []
  ZD : List (String × Ver) := []
  total : Int := 0
  pointer : Nat := 0
  irrev : Int := 0
  pool : List Nat := []
deriving Repr, Inhabited

/-- the environment: every transaction / block the harness has defined so far, the ledger's trunk
height (used for frozen outputs), the slide window -/
structure Env where
  txs : List (Nat × Tx) := []
  blocks : List (Nat × Block) := []
  window : Int := 0
  /-- (repaired `recoverUnconfirmedTx`) the rolled-back pending transactions that the ledger records as confirmed on the
  chain a walk ends on (their block and the destination are on the main chain, their block not above it): they are not
  re-admitted. Supplied per walk by the caller, who owns the ledger. -/
  skipRepost : List Nat := []
deriving Repr, Inhabited

def Env.tx (e : Env) (i : Nat) : Tx := (lookup e.txs i).getD default
def Env.block (e : Env) (i : Nat) : Block := (lookup e.blocks i).getD default

inductive Res where
  | ok | inpool | utxo | mismatch | frozen | dupinput | balance | rwset | premismatch
deriving Repr, DecidableEq, Inhabited

def Res.toString : Res → String
  | .ok => "ok" | .inpool => "inpool" | .utxo => "utxo" | .mismatch => "mismatch" | .frozen => "frozen"
  | .dupinput => "dupinput" | .balance => "balance" | .rwset => "rwset" | .premismatch => "premismatch"

/-- current version of a key as `XModel.Get` sees it: live table first, then the delete markers -/
def curVer (s : St) (k : String) : Option Ver :=
  match lookup s.ZU k with
  | some v => some v
  | none => lookup s.ZD k

/-- `UtxoVM.CheckInputEqualOutput`: inputs in order (duplicate, existence+owner, cited amount, frozen), then sums -/
def checkInputs (s : St) (ledgerH : Int) : List InRef → List Ver → Nat → Except Res Nat
  | [], _, acc => .ok acc
  | r :: rest, seen, acc =>
    if seen.contains (r.tx, r.off) then .error .dupinput else
    match lookup s.U (r.tx, r.off) with
    | none => .error .utxo
    | some u =>
      if u.addr ≠ r.addr then .error .utxo
      else if r.raw || u.amt ≠ r.amt then .error .mismatch
      else if u.frozen > ledgerH || u.frozen == -1 then .error .frozen
      else checkInputs s ledgerH rest ((r.tx, r.off) :: seen) (acc + u.amt)

def outSum (outs : List Out) : Nat := (outs.map (·.amt)).foldl (· + ·) 0

def checkInputEqualOutput (s : St) (ledgerH : Int) (t : Tx) : Res :=
  match checkInputs s ledgerH t.ins [] 0 with
  | .error r => r
  | .ok inSum =>
    if inSum = outSum t.outs then .ok
    else if inSum = 0 ∧ t.coinbase then .ok
    else .balance

/-- `XModel.verifyInputs` + `verifyOutputs` (against the tables; block transactions additionally see the
writes staged earlier in the same batch — in this model a block is applied transaction by transaction on
the evolving state, which is the same thing) -/
def verifyRW (s : St) (t : Tx) : Bool :=
  t.kin.all (fun ki => curVer s ki.key == ki.ver) &&
  t.kout.all (fun ko => t.kin.any (fun ki => ki.key == ko.key))

def admitTx (s : St) (ledgerH : Int) (t : Tx) : Res :=
  match checkInputEqualOutput s ledgerH t with
  | .ok => if verifyRW s t then .ok else .rwset
  | r => r

/-- `XModel.updateExtUtxo` -/
def applyKOut (t : Tx) : List KOut → Nat → St → St
  | [], _, s => s
  | ko :: rest, off, s =>
    let s' := if ko.del then { s with ZU := del s.ZU ko.key, ZD := put s.ZD ko.key (t.id, off) }
              else { s with ZU := put s.ZU ko.key (t.id, off) }
    applyKOut t rest (off + 1) s'

def applyOuts (t : Tx) : List Out → Nat → St → St
  | [], _, s => s
  | o :: rest, off, s =>
    let s' := if o.addr == "$" || o.amt == 0 then s
              else { s with U := put s.U (t.id, off) ⟨o.addr, o.amt, o.frozen⟩,
                            total := if t.coinbase then s.total + o.amt else s.total }
    applyOuts t rest (off + 1) s'

/-- `doTxInternal` after its checks: key writes, spend inputs, create outputs -/
def applyTx (s : St) (t : Tx) : St :=
  let s1 := applyKOut t t.kout 0 s
  let s2 := { s1 with U := t.ins.foldl (fun u r => del u (r.tx, r.off)) s1.U }
  applyOuts t t.outs 0 s2

/-- value stored at a version: the output `off` of transaction `tx` -/
def verIsDel (e : Env) (v : Ver) : Bool :=
  match (e.tx v.1).kout[v.2]? with
  | some ko => ko.del
  | none => false

/-- `XModel.UndoTx` (repaired: the delete marker of a never-written key is removed too) -/
def undoKOut (e : Env) (t : Tx) : List KOut → St → St
  | [], s => s
  | ko :: rest, s =>
    let prev : Option Ver := (t.kin.find? (fun ki => ki.key == ko.key)).bind (·.ver)
    let s' := match prev with
      | none => { s with ZU := del s.ZU ko.key, ZD := if ko.del then del s.ZD ko.key else s.ZD }
      | some pv =>
        if verIsDel e pv then { s with ZD := put s.ZD ko.key pv, ZU := del s.ZU ko.key }
        else { s with ZU := put s.ZU ko.key pv, ZD := if ko.del then del s.ZD ko.key else s.ZD }
    undoKOut e t rest s'

def undoOuts (t : Tx) : List Out → Nat → St → St
  | [], _, s => s
  | o :: rest, off, s =>
    let s' := if o.addr == "$" || o.amt == 0 then s
              else { s with U := del s.U (t.id, off),
                            total := if t.coinbase then s.total - o.amt else s.total }
    undoOuts t rest (off + 1) s'

/-- `undoTxInternal`: key versions back, inputs restored (amount and frozen height as cited), outputs removed -/
def undoTx (e : Env) (s : St) (t : Tx) : St :=
  let s1 := undoKOut e t t.kout s
  let s2 := { s1 with U := t.ins.foldl (fun u r => put u (r.tx, r.off) ⟨r.addr, r.amt, r.frozen⟩) s1.U }
  undoOuts t t.outs 0 s2

def payFee (t : Tx) (prop : String) : List Out → Nat → St → St
  | [], _, s => s
  | o :: rest, off, s =>
    let s' := if o.addr == "$" then { s with U := put s.U (t.id, off) ⟨prop, o.amt, 0⟩ } else s
    payFee t prop rest (off + 1) s'

def undoPayFee (t : Tx) : List Out → Nat → St → St
  | [], _, s => s
  | o :: rest, off, s =>
    let s' := if o.addr == "$" then { s with U := del s.U (t.id, off) } else s
    undoPayFee t rest (off + 1) s'

/-- `State.DoTx` / `doTxSync`: pool membership, admission, application, pool record -/
def doTx (e : Env) (s : St) (ledgerH : Int) (i : Nat) : St × Res :=
  if s.pool.contains i then (s, .inpool) else
  let t := e.tx i
  match admitTx s ledgerH t with
  | .ok => ({ applyTx s t with pool := s.pool ++ [i] }, .ok)
  | r => (s, r)

/-- `Meta.UpdateNextIrreversibleBlockHeight` -/
def nextIrrev (window : Int) (cur : Int) (height : Int) : Int :=
  if window ≤ 0 then cur
  else if height - window ≤ cur then cur else height - window

/-- `UpdateNextIrreversibleBlockHeightForPrune` -/
def nextIrrevPrune (window : Int) (cur : Int) (height : Int) : Int :=
  if window ≤ 0 then cur
  else if height - window ≤ 0 then 0 else height - window

-- ---------------------------------------------------------------- pool processing of a played block

/-- dependents graph of `SortUnconfirmedTx` (repaired): consumer of an output / key version produced in the pool,
and overwriter of a key version that a pool transaction only reads -/
def dependsOn (e : Env) (pool : List Nat) (child parent : Nat) : Bool :=
  let c := e.tx child
  let p := e.tx parent
  child ≠ parent && pool.contains parent && (
    c.ins.any (fun r => r.tx == parent) ||
    c.kin.any (fun ki => match ki.ver with | some v => v.1 == parent | none => false) ||
    -- parent only reads key@ver, child overwrites the same key@ver
    p.kin.any (fun pk => !(p.kout.any (fun ko => ko.key == pk.key)) &&
      c.kin.any (fun ck => ck.key == pk.key && ck.ver == pk.ver && c.kout.any (fun ko => ko.key == ck.key))))

/-- closure of a set of pool transactions under "dependents" (fuel = pool size) -/
def closure (e : Env) (pool : List Nat) : Nat → List Nat → List Nat
  | 0, set => set
  | fuel + 1, set =>
    let more := pool.filter (fun c => !set.contains c && set.any (fun p => dependsOn e pool c p))
    if more.isEmpty then set else closure e pool fuel (set ++ more)

/-- the conflict test of `processUnconfirmTxs` for one pending transaction -/
def conflicts (e : Env) (pool : List Nat) (blockTxs : List Nat) (i : Nat) : Bool :=
  let t := e.tx i
  let blockIns : List Ver := blockTxs.flatMap (fun b => (e.tx b).ins.map (fun r => (r.tx, r.off)))
  -- last writer of each key inside the block
  let blockVer (k : String) : Option Ver :=
    (blockTxs.reverse.findSome? (fun b =>
      let bt := e.tx b
      let idx := bt.kout.zipIdx.reverse.findSome? (fun (ko, off) => if ko.key == k then some off else none)
      idx.map (fun off => (b, off))))
  let known (v : Ver) : Bool := pool.contains v.1
  t.ins.any (fun r => blockIns.contains (r.tx, r.off)) ||
  -- (repaired) a read version other than the block's last one stays valid only if its writer is still pending
  t.kin.any (fun ki => match blockVer ki.key with
    | some rv => ki.ver != some rv &&
        !(match ki.ver with | some v => pool.contains v.1 && !blockTxs.contains v.1 | none => false)
    | none => false) ||
  (t.kout.zipIdx.any (fun (ko, off) => match blockVer ko.key with
    | some rv => (i, off) != rv && !(known rv)
    | none => false))

def blockHasDupInput (e : Env) (blockTxs : List Nat) : Bool :=
  let ins : List Ver := blockTxs.flatMap (fun b => (e.tx b).ins.map (fun r => (r.tx, r.off)))
  !(ins.eraseDups.length == ins.length)

/-- apply the transactions of a block that are not already applied through the pool; `none` = some admission failed -/
def applyBlockTxs (e : Env) (ledgerH : Int) (prop : String) (already : List Nat) : List Nat → St → Option (St × Res)
  | [], s => some (s, .ok)
  | i :: rest, s =>
    let t := e.tx i
    if already.contains i then applyBlockTxs e ledgerH prop already rest (payFee t prop t.outs 0 s)
    else match admitTx s ledgerH t with
      | .ok => applyBlockTxs e ledgerH prop already rest (payFee t prop t.outs 0 (applyTx s t))
      | r => some (s, r)

/-- the transactions whose outputs `t` spends or whose writes it read (`unconfirmedRefTxids`) -/
def refTxs (t : Tx) : List Nat :=
  t.ins.map (fun r => r.tx) ++ t.kin.filterMap (fun ki => ki.ver.map (fun v => v.1))

/-- `processUnconfirmTxs` (repaired): some transaction of the block comes without, or not after, a pending transaction
it depends on; `before` = the block's transactions so far -/
def parentMissing (e : Env) (pool : List Nat) : List Nat → List Nat → Bool
  | _, [] => false
  | before, i :: rest =>
    (refTxs (e.tx i)).any (fun p => pool.contains p && !before.contains p) ||
    parentMissing e pool (before ++ [i]) rest

/-- `processUnconfirmTxs` (repaired): a pending transaction of the block (it is skipped when the block is applied) read a
key that an earlier transaction of the block wrote, but not that version; `written` = last version of each key written by
the block so far -/
def staleMember (e : Env) (pool : List Nat) : List (String × Ver) → List Nat → Bool
  | _, [] => false
  | written, i :: rest =>
    let t := e.tx i
    (pool.contains i && t.kin.any (fun ki => match lookup written ki.key with
      | some v => ki.ver != some v
      | none => false)) ||
    staleMember e pool (t.kout.zipIdx.foldl (fun w (ko, off) => put w ko.key (i, off)) written) rest

/-- `PlayAndRepost` -/
def play (e : Env) (s : St) (ledgerH : Int) (b : Block) : St × Res :=
  if b.pre ≠ some s.pointer then (s, .premismatch) else
  if blockHasDupInput e b.txs then (s, .dupinput) else
  if parentMissing e s.pool [] b.txs then (s, .utxo) else
  if staleMember e s.pool [] b.txs then (s, .rwset) else
  let inBlock := s.pool.filter (fun i => b.txs.contains i)
  let rest := s.pool.filter (fun i => !b.txs.contains i)
  let seeds := rest.filter (fun i => conflicts e s.pool b.txs i)
  let evict := closure e s.pool s.pool.length seeds
  -- undo the evicted transactions, newest first
  let s1 := (s.pool.reverse.filter (fun i => evict.contains i)).foldl (fun st i => undoTx e st (e.tx i)) s
  -- (repaired) a pending transaction of the block that was rolled back as a dependent of an evicted one is applied again
  match applyBlockTxs e ledgerH b.prop (inBlock.filter (fun i => !evict.contains i)) b.txs s1 with
  | some (s2, .ok) =>
    ({ s2 with pointer := b.id, irrev := nextIrrev e.window s.irrev b.height,
               pool := s.pool.filter (fun i => !b.txs.contains i && !evict.contains i) }, .ok)
  | some (_, r) => (s, r)
  | none => (s, .rwset)

/-- `PlayForMiner`: only coinbase / generated transactions are applied, the others are already in the pool -/
def playForMiner (e : Env) (s : St) (ledgerH : Int) (b : Block) : St × Res :=
  if b.pre ≠ some s.pointer then (s, .premismatch) else
  let rec go : List Nat → St → Option St
    | [], st => some st
    | i :: rest, st =>
      let t := e.tx i
      if t.coinbase then
        match admitTx st ledgerH t with
        | .ok => go rest (payFee t b.prop t.outs 0 (applyTx st t))
        | _ => none
      else go rest (payFee t b.prop t.outs 0 st)
  match go b.txs s with
  | some s2 => ({ s2 with pointer := b.id, irrev := nextIrrev e.window s.irrev b.height,
                          pool := s.pool.filter (fun i => !b.txs.contains i) }, .ok)
  | none => (s, .rwset)

-- ---------------------------------------------------------------- Walk

/-- path from a block up to the root (block ids, the block itself first); fuel = number of blocks -/
def ancestors (e : Env) : Nat → Nat → List Nat
  | 0, _ => []
  | fuel + 1, b => b :: (match (e.block b).pre with | some p => ancestors e fuel p | none => [])

/-- `Ledger.FindUndoAndTodoBlocks`: blocks to undo (newest first) and to apply (oldest first) -/
def undoTodo (e : Env) (cur dest : Nat) : List Nat × List Nat :=
  let n := e.blocks.length + 1
  let ca := ancestors e n cur
  let da := ancestors e n dest
  let undo := ca.takeWhile (fun b => !da.contains b)
  let todo := (da.takeWhile (fun b => !ca.contains b)).reverse
  (undo, todo)

/-- undo one block: transactions newest first, each followed by its fee; pointer to the parent -/
def undoBlock (e : Env) (s : St) (b : Block) (prune : Bool) : St :=
  let s1 := b.txs.reverse.foldl (fun st i => let t := e.tx i; undoPayFee t t.outs 0 (undoTx e st t)) s
  { s1 with pointer := b.pre.getD 0,
            irrev := if prune then nextIrrevPrune e.window s.irrev b.height else s.irrev }

/-- apply one block during a walk: every transaction is admitted against the evolving state -/
def todoBlock (e : Env) (s : St) (ledgerH : Int) (b : Block) : Option St :=
  if blockHasDupInput e b.txs then none else
  match applyBlockTxs e ledgerH b.prop [] b.txs s with
  | some (s2, .ok) => some { s2 with pointer := b.id, irrev := nextIrrev e.window s.irrev b.height }
  | _ => none

/-- the rolled-back pending transactions a walk re-admits (repaired `recoverUnconfirmedTx`: those the ledger records as
confirmed on the chain the walk ends on are left out) -/
def repostList (e : Env) (s : St) : List Nat := s.pool.filter (fun i => !e.skipRepost.contains i)

/-- `Walk`: roll the pool back, undo (refusing at the irreversible height unless pruning), apply, then replay
the rolled-back pool transactions that are still admissible (`recoverUnconfirmedTx`, oldest first).
A failing step leaves the state where the last completed block batch put it; the pool stays rolled back. -/
def walk (e : Env) (s : St) (ledgerH : Int) (dest : Nat) (prune : Bool) : St × Bool :=
  -- 1. roll back the pool, newest first
  let s0 := { (s.pool.reverse.foldl (fun st i => undoTx e st (e.tx i)) s) with pool := [] }
  let (undo, todo) := undoTodo e s.pointer dest
  -- 2. undo blocks
  let rec undoAll : List Nat → St → St × Bool
    | [], st => (st, true)
    | bi :: rest, st =>
      let b := e.block bi
      if !prune && (b.height : Int) ≤ st.irrev then (st, false)
      else undoAll rest (undoBlock e st b prune)
  let (s1, ok1) := undoAll undo s0
  if !ok1 then (s1, false) else
  -- 3. apply blocks
  let rec todoAll : List Nat → St → St × Bool
    | [], st => (st, true)
    | bi :: rest, st =>
      match todoBlock e st ledgerH (e.block bi) with
      | some st' => todoAll rest st'
      | none => (st, false)
  let (s2, ok2) := todoAll todo s1
  if !ok2 then (s2, false) else
  -- 4. recover the pool (oldest first): a transaction is re-admitted if it still passes admission
  let s3 := (repostList e s).foldl (fun st i => (doTx e st ledgerH i).1) s2
  (s3, true)

end XV.Chain
