/-!
# Model of `utxo.SpinLock` and of the `doTxSync` locking protocol (property C12)

Mirrors `bcs/ledger/xledger/state/utxo/spin_lock.go` and the lock/critical-section/unlock
skeleton of `State.doTxSync` (`bcs/ledger/xledger/state/state.go`).

* the lock table is `m : key ⇀ kind` (the `sync.Map`, value = lock type) together with
  `rc : key → Int` (the `refCounter.ctMap`, keyed by key string — NOT stored in the map entry);
* a thread runs `TryLock(items)` key by key in sorted order (all-or-fail; on failure the caller's
  deferred `Unlock(succLocked)` releases what was taken), then the critical section
  `cs.check` (read the current versions), `cs.apply` (write), `cs.publish`, then `Unlock` in
  reverse order;
* one model step = the code between two yield points of the real code (hooks
  `verifYield(...)`, build tag `verif`) = at most one access to shared state.

Two step systems live here:

* `XV.SpinLock.step` — the REPAIRED code: `lockOne` (LoadOrStore + refcount Add of one key) and
  `unlockOne` (refcount Release + map Delete of one key) are each ONE atomic step (they run under
  `SpinLock.mu`);
* `XV.SpinLock.Split.step` — the code BEFORE the repair (faithful): LoadOrStore and Add are two
  steps, Release and Delete are two steps; a thread acts on the value it loaded earlier.

Core Lean only; everything is executable.
-/
namespace XV.SpinLock

inductive Kind
  | S  -- sharedLock    (read key)
  | X  -- exclusiveLock (utxo input/output, written key)
  deriving DecidableEq, Repr, Inhabited

/-- one lock key of a request (`LockKey`) plus the version the request was built against
(what `cs.check` compares with the store). -/
structure Item where
  key : Nat
  kind : Kind
  expect : Nat
  deriving DecidableEq, Repr, Inhabited

inductive Res
  | running | lockFail | stale | admitted
  deriving DecidableEq, Repr, Inhabited

/-- functional update -/
def upd {β : Type} (f : Nat → β) (k : Nat) (v : β) : Nat → β := fun x => if x = k then v else f x

@[simp] theorem upd_same {β : Type} (f : Nat → β) (k : Nat) (v : β) : upd f k v k = v := by simp [upd]
theorem upd_other {β : Type} (f : Nat → β) (k : Nat) (v : β) (x : Nat) (h : x ≠ k) : upd f k v x = f x := by
  simp [upd, h]

/-- `cs.check`: every key of the request still has the version it was built against -/
def check (store : Nat → Nat) (items : List Item) : Bool :=
  items.all (fun it => store it.key == it.expect)

/-- `cs.apply`: the request (thread id `t`) writes version `t+1` to its exclusive keys -/
def applyW (store : Nat → Nat) (t : Nat) : List Item → (Nat → Nat)
  | [] => store
  | it :: rest => applyW (if it.kind = .X then upd store it.key (t + 1) else store) t rest

/-- LoadOrStore + (for shared) refcount Add of ONE key, as one atomic step.
`none` = conflict (TryLock returns false). -/
def lockOne (m : Nat → Option Kind) (rc : Nat → Int) (k : Nat) (kind : Kind) :
    Option ((Nat → Option Kind) × (Nat → Int)) :=
  match m k, kind with
  | none, .X => some (upd m k (some .X), rc)
  | none, .S => some (upd m k (some .S), upd rc k (rc k + 1))
  | some .S, .S => some (m, upd rc k (rc k + 1))
  | _, _ => none

/-- refcount Release + map Delete of ONE key, as one atomic step. -/
def unlockOne (m : Nat → Option Kind) (rc : Nat → Int) (k : Nat) (kind : Kind) :
    (Nat → Option Kind) × (Nat → Int) :=
  match kind with
  | .X => (upd m k none, rc)
  | .S => if rc k - 1 = 0 then (upd m k none, upd rc k (rc k - 1)) else (m, upd rc k (rc k - 1))

/-! ## the repaired step system -/

/-- where a thread is paused (yield point it last reached) -/
inductive Pc
  | locking    -- inside TryLock (`todo` = keys still to take; initially all of them)
  | checked (ok : Bool)  -- cs.check done
  | applied              -- cs.apply done
  | published            -- cs.publish done
  | unlocking  -- inside the (deferred) Unlock(succLocked)
  | done
  deriving DecidableEq, Repr, Inhabited

structure Thread where
  /-- the request's lock keys, sorted, as ExtractLockKeys returns them (constant) -/
  items : List Item
  /-- keys TryLock has still to take -/
  todo : List Item
  /-- `succLocked`: the keys this thread holds, most recently taken first (Unlock releases in that order) -/
  succ : List Item
  pc : Pc
  res : Res
  deriving Repr, Inhabited

structure Sys where
  m : Nat → Option Kind
  rc : Nat → Int
  store : Nat → Nat
  /-- serialisation log: `(t, true)` appended by `cs.apply` of `t`, `(t, false)` by a failed `cs.check` -/
  log : List (Nat × Bool)
  threads : List Thread

def Sys.setThread (s : Sys) (t : Nat) (th : Thread) : Sys := { s with threads := s.threads.set t th }

/-- one iteration of `Unlock(succLocked)`: release the most recently taken key, or finish -/
def beginUnlock (s : Sys) (t : Nat) (th : Thread) : Sys :=
  match th.succ with
  | [] => s.setThread t { th with pc := .done }
  | it :: rest =>
    let r := unlockOne s.m s.rc it.key it.kind
    { s with m := r.1, rc := r.2, threads := s.threads.set t { th with succ := rest, pc := .unlocking } }

/-- thread `t` runs from its yield point to the next one -/
def step (s : Sys) (t : Nat) : Sys :=
  match s.threads[t]? with
  | none => s
  | some th =>
    match th.pc with
    | .locking =>
      match th.todo with
      | it :: rest =>
        match lockOne s.m s.rc it.key it.kind with
        | some r => { s with m := r.1, rc := r.2, threads := s.threads.set t { th with todo := rest, succ := it :: th.succ } }
        | none =>
          -- TryLock returns false; the caller's deferred Unlock(succLocked) follows (nothing to do if empty)
          s.setThread t { th with pc := if th.succ.isEmpty then .done else .unlocking, res := .lockFail }
      | [] =>
        -- TryLock returned true; cs.check
        if check s.store th.items then s.setThread t { th with pc := .checked true }
        else { s with log := s.log ++ [(t, false)],
                      threads := s.threads.set t { th with pc := .checked false, res := .stale } }
    | .checked true =>
      { s with store := applyW s.store t th.items, log := s.log ++ [(t, true)],
               threads := s.threads.set t { th with pc := .applied } }
    | .checked false => beginUnlock s t th
    | .applied => s.setThread t { th with pc := .published, res := .admitted }
    | .published => beginUnlock s t th
    | .unlocking => beginUnlock s t th
    | .done => s

def newThread (items : List Item) : Thread :=
  { items := items, todo := items, succ := [], pc := .locking, res := .running }

/-- all requests submitted against `store`, nobody has started, the lock table is empty -/
def init (store : Nat → Nat) (reqs : List (List Item)) : Sys :=
  { m := fun _ => none, rc := fun _ => 0, store := store, log := [], threads := reqs.map newThread }

/-- the thread holds key `k` in mode `kd` (it is in its `succLocked`) -/
def Thread.holds (th : Thread) (k : Nat) (kd : Kind) : Prop := ∃ it ∈ th.succ, it.key = k ∧ it.kind = kd

/-- inside the critical section: TryLock returned true and Unlock has not started -/
def Thread.inside (th : Thread) : Bool :=
  match th.pc with
  | .checked _ => true
  | .applied => true
  | .published => true
  | _ => false

/-! ## the step system before the repair (faithful to the unpatched spin_lock.go) -/
namespace Split

inductive Pc
  | start
  | loaded (i : Nat) (seen : Option Kind)  -- after LoadOrStore of key i; `seen` = what was there (`none` = stored)
  | added (i : Nat)                        -- after refCounter.Add of key i
  | failed (i : Nat)                       -- TryLock returned false holding i ≥ 1 keys
  | checked (ok : Bool)
  | applied
  | published
  | released (j : Nat) (zero : Bool)       -- after refCounter.Release of shared key j (`zero`: Delete follows)
  | deleted (j : Nat)                      -- after Delete of key j; j keys remain
  | done
  deriving DecidableEq, Repr, Inhabited

structure Thread where
  items : List Item
  pc : Pc
  res : Res
  deriving Repr, Inhabited

structure Sys where
  m : Nat → Option Kind
  rc : Nat → Int
  store : Nat → Nat
  log : List (Nat × Bool)
  threads : List Thread

/-- loop iteration `i` of TryLock: LoadOrStore of key `i`, or (all taken) return true and cs.check -/
def next (s : Sys) (t : Nat) (th : Thread) (i : Nat) : Sys :=
  match th.items[i]? with
  | some it =>
    let seen := s.m it.key
    { s with m := if seen = none then upd s.m it.key (some it.kind) else s.m,
             threads := s.threads.set t { th with pc := .loaded i seen } }
  | none =>
    if check s.store th.items then { s with threads := s.threads.set t { th with pc := .checked true } }
    else { s with log := s.log ++ [(t, false)],
                  threads := s.threads.set t { th with pc := .checked false, res := .stale } }

/-- loop iteration of Unlock with `j` keys left: Delete (exclusive) / Release (shared) of key `j-1` -/
def unlockFrom (s : Sys) (t : Nat) (th : Thread) (j : Nat) : Sys :=
  match j with
  | 0 => { s with threads := s.threads.set t { th with pc := .done } }
  | j + 1 =>
    match th.items[j]? with
    | some it =>
      match it.kind with
      | .X => { s with m := upd s.m it.key none, threads := s.threads.set t { th with pc := .deleted j } }
      | .S => { s with rc := upd s.rc it.key (s.rc it.key - 1),
                       threads := s.threads.set t { th with pc := .released j (s.rc it.key - 1 = 0) } }
    | none => { s with threads := s.threads.set t { th with pc := .done } }

def step (s : Sys) (t : Nat) : Sys :=
  match s.threads[t]? with
  | none => s
  | some th =>
    match th.pc with
    | .start => next s t th 0
    | .loaded i seen =>
      match th.items[i]? with
      | none => s
      | some it =>
        match seen, it.kind with
        | some .S, .S | none, .S =>
          { s with rc := upd s.rc it.key (s.rc it.key + 1), threads := s.threads.set t { th with pc := .added i } }
        | none, .X => next s t th (i + 1)
        | _, _ =>
          { s with threads := s.threads.set t { th with pc := if i = 0 then .done else .failed i, res := .lockFail } }
    | .added i => next s t th (i + 1)
    | .failed i => unlockFrom s t th i
    | .checked true =>
      { s with store := applyW s.store t th.items, log := s.log ++ [(t, true)],
               threads := s.threads.set t { th with pc := .applied } }
    | .checked false => unlockFrom s t th th.items.length
    | .applied => { s with threads := s.threads.set t { th with pc := .published, res := .admitted } }
    | .published => unlockFrom s t th th.items.length
    | .released j zero =>
      if zero then
        match th.items[j]? with
        | some it => { s with m := upd s.m it.key none, threads := s.threads.set t { th with pc := .deleted j } }
        | none => s
      else unlockFrom s t th j
    | .deleted j => unlockFrom s t th j
    | .done => s

def init (store : Nat → Nat) (reqs : List (List Item)) : Sys :=
  { m := fun _ => none, rc := fun _ => 0, store := store, log := [],
    threads := reqs.map (fun items => { items := items, pc := .start, res := .running }) }

def Thread.inside (th : Thread) : Bool :=
  match th.pc with
  | .checked _ => true
  | .applied => true
  | .published => true
  | _ => false

end Split

end XV.SpinLock
