/-!
CRC-32/IEEE (the checksum `hash/crc32.ChecksumIEEE` of kernel/network/p2p/message.go `Checksum`),
reflected bit-serial form: register `BitVec 32`, initial value all ones, one `step` per message
bit (least significant bit of every byte first), final complement.  Core Lean only, executable.
-/
namespace XV.Crc32

/-- reflected generator polynomial of CRC-32/IEEE (x^32 + x^26 + … + x + 1; bit 31 = constant term) -/
def poly : BitVec 32 := 0xEDB88320#32

/-- the polynomial or zero -/
def mask (c : Bool) : BitVec 32 := if c then poly else 0#32

/-- one register update for one message bit -/
def step (s : BitVec 32) (b : Bool) : BitVec 32 :=
  (s >>> 1) ^^^ mask (s.getLsbD 0 != b)

/-- register after a bit string, from register value `s` -/
def run (s : BitVec 32) (bits : List Bool) : BitVec 32 := bits.foldl step s

def init : BitVec 32 := 0xFFFFFFFF#32

/-- CRC-32/IEEE of a bit string -/
def crcBits (bits : List Bool) : BitVec 32 := ~~~ (run init bits)

abbrev Byte := BitVec 8

/-- the eight bits of a byte in transmission order (least significant first) -/
def byteBits (b : Byte) : List Bool :=
  [b.getLsbD 0, b.getLsbD 1, b.getLsbD 2, b.getLsbD 3, b.getLsbD 4, b.getLsbD 5, b.getLsbD 6, b.getLsbD 7]

def bytesBits (bs : List Byte) : List Bool := bs.flatMap byteBits

/-- CRC-32/IEEE of a byte string: what `crc32.ChecksumIEEE` computes -/
def crc32 (bs : List Byte) : BitVec 32 := crcBits (bytesBits bs)

/-- byte-at-a-time evaluation used by the driver (no intermediate bit list for the whole message) -/
def crc32Fast (bs : List Byte) : BitVec 32 :=
  ~~~ (bs.foldl (fun s b => run s (byteBits b)) init)

/-- bitwise exclusive or of two bit strings (error pattern applied to a payload) -/
def xorBits (p e : List Bool) : List Bool := List.zipWith (· != ·) p e

/-- bytewise exclusive or -/
def xorBytes (p e : List Byte) : List Byte := List.zipWith (· ^^^ ·) p e

/-- explicit inverse of the zero-bit step (exists because the polynomial has a constant term) -/
def zeroStepInv (r : BitVec 32) : BitVec 32 :=
  let c := r.getLsbD 31
  ((r ^^^ mask c) <<< 1) ||| (if c then 1#32 else 0#32)

end XV.Crc32
