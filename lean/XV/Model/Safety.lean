import XV.Gen.Safety
/-!
Model of the quorum-certificate check of chained-bft
(`DefaultSaftyRules.CheckProposal` / `CheckVote`, saftyrules.go).

Addresses are abstract `Nat`s.  An entry of a certificate carries the address it
claims and `valid`, the result of `CBFTCrypto.VerifyVoteMsgSign(entry, certifiedId)`
(public key hashes to the claimed address ∧ ECDSA verifies over the certified id).
The threshold function is *not* modelled by hand: it is `XV.Gen.calVotesThreshold`,
regenerated from the Go source on every run.
-/
namespace XV.Safety

structure Entry where
  addr  : Nat
  valid : Bool
deriving Repr, DecidableEq

inductive Verdict where
  | accept | invalidSign | notEnough
deriving Repr, DecidableEq

/-- The loop of `CheckProposal` over the justify signatures: entries of
non-members are skipped, an invalid signature of a member aborts, a member
already counted is not counted again.  Returns `none` on abort, else the list of
counted addresses (most recent first). -/
def countLoop (vals : List Nat) : List Entry → List Nat → Option (List Nat)
  | [], seen => some seen
  | e :: es, seen =>
    if !(vals.contains e.addr) then countLoop vals es seen
    else if !e.valid then none
    else if seen.contains e.addr then countLoop vals es seen
    else countLoop vals es (e.addr :: seen)

def checkProposal (vals : List Nat) (es : List Entry) : Verdict :=
  match countLoop vals es [] with
  | none => .invalidSign
  | some seen =>
    if XV.Gen.calVotesThreshold (seen.length : Int) (vals.length : Int) then .accept else .notEnough

/-- `CheckVote` restricted to its signature part: first entry must be a member with a valid signature. -/
def checkVote (vals : List Nat) (es : List Entry) : Bool :=
  match es with
  | [] => false
  | e :: _ => vals.contains e.addr && e.valid

/-- Specification side: the distinct members with a valid entry. -/
def validMembers (vals : List Nat) (es : List Entry) : List Nat :=
  ((es.filter (fun e => vals.contains e.addr && e.valid)).map (·.addr)).eraseDups

/-- Same, leaving out the collector (the proposer that assembled the certificate). -/
def validMembersBut (collector : Nat) (vals : List Nat) (es : List Entry) : List Nat :=
  (validMembers vals es).filter (· != collector)

/-- quorum size demanded by the property, *besides* the collector -/
def quorum (n : Nat) : Nat := n - (n - 1) / 3 - 1

end XV.Safety
