import XV.Model.Chain
/-!
Model of the block store (bcs/ledger/xledger/ledger/ledger.go, branch_manage.go) as exactly its
persistent tables, after the repairs recorded in known_findings.json:

* `B`  : blockid ⇀ header {pre, height, inTrunk, next, txs}     table "B"
* `ZH` : height ⇀ blockid                                        table "ZH"
* `C`  : txid ⇀ blockid  (the Blockid stored with the tx)        table "C"
* `ZI` : blockid ⇀ height (branch tips)                          table "ZI"
* meta {root, tip, trunkHeight}                                  table "M"

`confirm` mirrors `ConfirmBlock` (extend / attach to branch / switch trunk when strictly higher, with
`handleFork`, `correctTxsBlockid`, `updateBranchInfo` and the duplicated-transaction rule), `truncate`
mirrors `Truncate`. A failed operation returns the tables unchanged (single batch).
-/
namespace XV.Ledger
open XV.Chain (lookup put del)

structure Hdr where
  pre : Option Nat
  height : Nat
  inTrunk : Bool
  next : Option Nat
  txs : List Nat
deriving Repr, DecidableEq, Inhabited

structure L where
  B : List (Nat × Hdr) := []
  ZH : List (Nat × Nat) := []
  C : List (Nat × Nat) := []
  ZI : List (Nat × Nat) := []
  root : Nat := 0
  tip : Nat := 0
  trunkHeight : Nat := 0
deriving Repr, Inhabited

inductive Status where
  | succ | succSwitch | succSide | fail
deriving Repr, DecidableEq, Inhabited

def Status.toString : Status → String
  | .succ => "ok" | .succSwitch => "ok-switch" | .succSide => "ok-side" | .fail => "fail"

/-- ledger holding only the genesis block `id` with transactions `txs` -/
def genesis (id : Nat) (txs : List Nat) : L :=
  { B := [(id, ⟨none, 0, true, none, txs⟩)], ZH := [(0, id)], C := txs.map (fun t => (t, id)), ZI := [(id, 0)],
    root := id, tip := id, trunkHeight := 0 }

/-- `saveBlock`: header row, and the height index when the block is on the trunk -/
def saveBlock (l : L) (id : Nat) (h : Hdr) : L :=
  { l with B := put l.B id h, ZH := if h.inTrunk then put l.ZH h.height id else l.ZH }

/-- `correctTxsBlockid` -/
def correctTxs (l : L) (id : Nat) (txs : List Nat) : L :=
  { l with C := txs.foldl (fun c t => put c t id) l.C }

/-- `handleFork`: walk both branches down in lockstep to the split block. Returns the new tables and the split
height, or `none` when a block cannot be fetched (fuel = trunk height + 1 suffices when both cursors start at
equal height). Headers are fetched from `l0` (the tables before this batch), as the code does. -/
def handleFork (l0 : L) : Nat → Nat → Nat → Option Nat → L → Option (L × Nat)
  | 0, _, _, _, _ => none
  | fuel + 1, p, q, nextHash, l =>
    if p = q then
      match lookup l0.B q with
      | none => none
      | some sb => some (saveBlock l q { sb with inTrunk := true, next := nextHash }, sb.height)
    else
      match lookup l0.B p, lookup l0.B q with
      | some pb, some qb =>
        let l1 := correctTxs l q qb.txs
        let l2 := saveBlock l1 p { pb with inTrunk := false, next := none }
        let l3 := saveBlock l2 q { qb with inTrunk := true, next := nextHash }
        match pb.pre, qb.pre with
        | some pp, some qp => handleFork l0 fuel pp qp (some q) l3
        | _, _ => none
      | _, _ => none

/-- the per-transaction part of `ConfirmBlock` (coinbase count, confirmed table, duplicated-transaction rule).
`l0` = tables before the batch (what `confirmedTable.Has/Get` and `blocksTable.Get` read). -/
def confirmTxs (l0 : L) (id : Nat) (inTrunk : Bool) (splitHeight : Nat) : List (Nat × Bool) → Nat → L → Option L
  | [], _, l => some l
  | (t, cb) :: rest, cbNum, l =>
    let cbNum' := if cb then cbNum + 1 else cbNum
    if cbNum' > 1 then none else
    match lookup l0.C t with
    | none => confirmTxs l0 id inTrunk splitHeight rest cbNum' { l with C := put l.C t id }
    | some ob =>
      match lookup l0.B ob with
      | none => confirmTxs l0 id inTrunk splitHeight rest cbNum' { l with C := put l.C t id }   -- old block truncated away
      | some oh =>
        if oh.inTrunk && inTrunk && oh.height ≤ splitHeight then none
        else if inTrunk then confirmTxs l0 id inTrunk splitHeight rest cbNum' { l with C := put l.C t id }
        else confirmTxs l0 id inTrunk splitHeight rest cbNum' l

/-- `ConfirmBlock` for a non-genesis block; `txs` pairs each transaction with its coinbase flag -/
def confirm (l : L) (id : Nat) (pre : Nat) (txs : List (Nat × Bool)) : L × Status :=
  if (lookup l.B id).isSome then (l, .fail) else
  match lookup l.B pre with
  | none => (l, .fail)
  | some pb =>
    let height := pb.height + 1
    let txids := txs.map (·.1)
    if pre = l.tip then
      -- extend the trunk
      let l1 := saveBlock l pre { pb with next := some id }
      let l2 := saveBlock l1 id ⟨some pre, height, true, none, txids⟩
      let l3 := { l2 with ZI := put (del l2.ZI pre) id height }
      match confirmTxs l id true l.trunkHeight txs 0 l3 with
      | none => (l, .fail)
      | some l4 => ({ l4 with tip := id, trunkHeight := l.trunkHeight + 1 }, .succ)
    else if height > l.trunkHeight then
      -- the branch becomes the trunk
      match handleFork l (l.trunkHeight + 2) l.tip pre (some id) l with
      | none => (l, .fail)
      | some (l1, splitHeight) =>
        let l2 := saveBlock l1 id ⟨some pre, height, true, none, txids⟩
        let l3 := { l2 with ZI := put (del l2.ZI pre) id height }
        match confirmTxs l id true splitHeight txs 0 l3 with
        | none => (l, .fail)
        | some l4 => ({ l4 with tip := id, trunkHeight := height }, .succSwitch)
    else
      let l2 := saveBlock l id ⟨some pre, height, false, none, txids⟩
      let l3 := { l2 with ZI := put (del l2.ZI pre) id height }
      match confirmTxs l id false l.trunkHeight txs 0 l3 with
      | none => (l, .fail)
      | some l4 => (l4, .succSide)

/-- `removeBlocksAbove`: delete the blocks of the branch ending in `from` that are higher than `toH`;
returns the tables and the highest block kept -/
def removeAbove (l0 : L) (toH : Nat) : Nat → Nat → L → L × Option Nat
  | 0, b, l => (l, some b)
  | fuel + 1, b, l =>
    match lookup l0.B b with
    | none => (l, none)
    | some h =>
      if h.height > toH then
        let l1 := { l with B := del l.B b, ZH := if h.inTrunk then del l.ZH h.height else l.ZH }
        match h.pre with
        | some p => removeAbove l0 toH fuel p l1
        | none => (l1, none)
      else (l, some b)

/-- `Truncate` (repaired: the kept end of every cut branch is recorded as its tip; the new tip's next link is cleared) -/
def truncate (l : L) (target : Nat) : L × Bool :=
  match lookup l.B target with
  | none => (l, false)
  | some th =>
    let tips := l.ZI.filter (fun p => p.1 ≠ target && p.2 > th.height)
    let l1 := tips.foldl (fun acc p =>
      let (a, remain) := removeAbove l th.height (l.B.length + 1) p.1 acc
      let r := remain.getD target
      let rh := (lookup l.B r).map (·.height) |>.getD th.height
      { a with ZI := put (del a.ZI p.1) r rh }) l
    let l2 := if th.next.isSome then saveBlock l1 target { th with next := none } else l1
    ({ l2 with tip := target, trunkHeight := th.height }, true)

/-- what `GetBranchInfo` hands to `Truncate`: the recorded branch tips above the target, in table order -/
def scanTips (l : L) (target height : Nat) : List (Nat × Nat) :=
  l.ZI.filter (fun p => p.1 ≠ target && p.2 > height)

/-- `Truncate` cutting the branches of a given list of tips (`truncate` = this on the full scan, `truncateOn_scanTips`) -/
def truncateOn (l : L) (target : Nat) (tips : List (Nat × Nat)) : L × Bool :=
  match lookup l.B target with
  | none => (l, false)
  | some th =>
    let l1 := tips.foldl (fun acc p =>
      let (a, remain) := removeAbove l th.height (l.B.length + 1) p.1 acc
      let r := remain.getD target
      let rh := (lookup l.B r).map (·.height) |>.getD th.height
      { a with ZI := put (del a.ZI p.1) r rh }) l
    let l2 := if th.next.isSome then saveBlock l1 target { th with next := none } else l1
    ({ l2 with tip := target, trunkHeight := th.height }, true)

/-- `Truncate` when the storage engine breaks the branch-tip scan off after `n` entries with an error (`brk = some n`):
the code hands the error on (`GetBranchInfo` looks at the iterator's error AFTER the loop) and writes nothing. A scan
that broke off must not be taken for a complete one: `truncatePartial` is that (wrong) behaviour. -/
def truncateScan (l : L) (target : Nat) (brk : Option Nat) : L × Bool :=
  match lookup l.B target, brk with
  | none, _ => (l, false)
  | some _, some _ => (l, false)
  | some _, none => truncate l target

/-- NOT the code: a truncation that trusts the first `n` entries of a scan that broke off -/
def truncatePartial (l : L) (target : Nat) (n : Nat) : L × Bool :=
  match lookup l.B target with
  | none => (l, false)
  | some th => truncateOn l target ((scanTips l target th.height).take n)

/-- path from a block up to the root, the block itself first (fuel = number of stored blocks) -/
def ancestors (l : L) : Nat → Nat → List Nat
  | 0, _ => []
  | fuel + 1, b =>
    match lookup l.B b with
    | none => []
    | some h => b :: (match h.pre with | some p => ancestors l fuel p | none => [])

def pathOf (l : L) (b : Nat) : List Nat := ancestors l (l.B.length + 1) b

/-- `FindUndoAndTodoBlocks`: both lists newest first, as the API returns them -/
def findUndoTodo (l : L) (cur dest : Nat) : List Nat × List Nat :=
  let ca := pathOf l cur
  let da := pathOf l dest
  (ca.takeWhile (fun b => !da.contains b), da.takeWhile (fun b => !ca.contains b))

/-- `IsTxInTrunk` -/
def isTxInTrunk (l : L) (t : Nat) : Bool :=
  match lookup l.C t with
  | none => false
  | some b => match lookup l.B b with
    | none => false
    | some h => h.inTrunk

end XV.Ledger
