import XV.Gen.Sched
/-!
Acceptance decisions of the slot-scheduled plugins (`CheckMinerMatch` of tdpos,
xpoa — both without chained-bft, whose certificate check is property C14 — and
single).  The schedule functions themselves are *not* modelled by hand: they are
`XV.Gen.tdposMinerScheduling` / `XV.Gen.xpoaMinerScheduling`, regenerated from
the Go source on every run.

Addresses are abstract `Nat`s; the validator list is the one the plugin computes
for the block under test (`CalOldProposers` / `GetLocalValidates`).
-/
namespace XV.Sched

structure TdCfg where
  alt : Int      -- alternateInterval (ms)
  bn : Int       -- blockNum
  init : Int     -- initTimestamp (ns)
  period : Int   -- period (ms)
  pn : Int       -- proposerNum
  term : Int     -- termInterval (ms)
deriving Repr

/-- tdpos `minerScheduling` (regenerated) -/
def tdSched (c : TdCfg) (ts : Int) : Int × Int × Int :=
  XV.Gen.tdposMinerScheduling c.alt c.bn c.init c.period c.pn c.term ts

/-- xpoa `minerScheduling` (regenerated); `n` = number of validators -/
def xpSched (period bn : Int) (ts : Int) (n : Int) : Int × Int × Int :=
  XV.Gen.xpoaMinerScheduling bn period ts n

inductive Verdict where
  | accept | reject | panic
deriving Repr, DecidableEq

/-- tdpos `CheckMinerMatch` (no bft): range check of the slot computed from the block's own
timestamp (term 0 = before the start time, repaired code), then `wantProposers[pos] == proposer`
(an index outside the slice panics in Go). -/
def tdposAccept (c : TdCfg) (vals : List Nat) (ts : Int) (proposer : Nat) : Verdict :=
  let r := tdSched c ts
  let pos := r.2.1
  let bp := r.2.2
  if r.1 < 1 ∨ bp < 0 ∨ bp ≥ c.bn ∨ pos ≥ c.pn then .reject
  else if pos < 0 then .panic
  else match vals[pos.toNat]? with
    | none => .panic
    | some v => if v = proposer then .accept else .reject

/-- xpoa `GetLocalLeader`: `none` is the empty string it returns when the validator set is
unavailable or the slot is out of range. -/
def xpoaLeader (period bn : Int) (vals : List Nat) (ts : Int) : Option Nat :=
  if vals.isEmpty then none else
  let r := xpSched period bn ts vals.length
  let pos := r.2.1
  let bp := r.2.2
  if bp < 0 ∨ bp > bn ∨ pos ≥ vals.length then none
  else if pos < 0 then none
  else vals[pos.toNat]?

/-- xpoa `CheckMinerMatch` (no bft).  `proposer = none` is a block whose proposer field is empty.
Repaired code: an empty local leader never matches. -/
def xpoaAccept (period bn : Int) (vals : List Nat) (ts : Int) (proposer : Option Nat) : Verdict :=
  match xpoaLeader period bn vals ts with
  | none => .reject
  | some l => if proposer = some l then .accept else .reject

/-- single `CheckMinerMatch`: block id recomputes, proposer is the configured miner, the public key
parses and hashes to the proposer, the signature verifies over the block id. -/
def singleAccept (idOk isMiner keyOk sigOk : Bool) : Verdict :=
  if !idOk then .reject
  else if !isMiner then .reject
  else if !keyOk then .reject
  else if sigOk then .accept else .reject

end XV.Sched
