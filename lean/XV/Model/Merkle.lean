import XV.Gen.BlockId
/-!
Model of block integrity (C08):

* `leafSize`, `merkleTree`, `merkleRoot` — `getLeafSize` / `MakeMerkleTree` of
  bcs/ledger/xledger/ledger/ledger_hash.go over an abstract hash `H : Bytes → Bytes`
  (`hash.DoubleSha256`): the leaves are padded to the next power of two, a node whose
  right sibling is missing is hashed with itself, a node without left child is missing.
  The Go code computes the leaf size with `math.Log2` on floats and fills one flat
  array; the model computes level by level on `Nat`.  That the two agree (whole array,
  n = 0..300; leaf size n = 0..4096) is checked by the correspondence run.
* `segments` / `preimage` — the byte string `MakeBlockID` hashes, field by field
  (`modelSchema` is the sequence of write calls this implements; `XV.Gen.blockIdSchema`,
  regenerated from the Go source, must be equal to it: `XV.C08.gen_schema_is_model`).
* `verifyBlock` — decision logic of `Ledger.VerifyBlock` (ledger.go) over abstract
  key parsing / address check / ECDSA, `formatBlock` — `Ledger.formatBlock` (signed case).
Core Lean only.
-/
namespace XV.Merkle
open XV.Enc

/-! ### leaf padding -/

/-- doubling search: smallest `p·2^j ≥ n` -/
def nextPow2Aux : Nat → Nat → Nat → Nat
  | 0, p, _ => p
  | f + 1, p, n => if n ≤ p then p else nextPow2Aux f (2 * p) n

/-- `getLeafSize`: the number of leaves of the complete tree for `n` transactions -/
def leafSize (n : Nat) : Nat := if n = 0 then 0 else nextPow2Aux n 1 n

/-! ### merkle tree -/

/-- the byte strings hashed to obtain the next level: neighbours are concatenated,
an odd last node is concatenated with itself -/
def pairInputs : List Bytes → List Bytes
  | [] => []
  | [x] => [x ++ x]
  | x :: y :: rest => (x ++ y) :: pairInputs rest

def pairUp (H : Bytes → Bytes) (xs : List Bytes) : List Bytes := (pairInputs xs).map H

/-- all levels, leaves first (fuel = number of leaves is always enough) -/
def levels (H : Bytes → Bytes) : Nat → List Bytes → List (List Bytes)
  | 0, xs => [xs]
  | f + 1, xs => if xs.length ≤ 1 then [xs] else xs :: levels H f (pairUp H xs)

def rootAux (H : Bytes → Bytes) : Nat → List Bytes → Option Bytes
  | 0, xs => xs.head?
  | f + 1, xs => if xs.length ≤ 1 then xs.head? else rootAux H f (pairUp H xs)

/-- the merkle root of the ordered txid list (`none` for the empty list: `VerifyMerkle` fails) -/
def merkleRoot (H : Bytes → Bytes) (xs : List Bytes) : Option Bytes := rootAux H xs.length xs

/-- every byte string fed to `H` while computing the root -/
def hashedAux (H : Bytes → Bytes) : Nat → List Bytes → List Bytes
  | 0, _ => []
  | f + 1, xs => if xs.length ≤ 1 then [] else pairInputs xs ++ hashedAux H f (pairUp H xs)

def hashed (H : Bytes → Bytes) (xs : List Bytes) : List Bytes := hashedAux H xs.length xs

def padLevels : Nat → List (List Bytes) → List (Option Bytes)
  | _, [] => []
  | w, l :: ls => (l.map some ++ List.replicate (w - l.length) none) ++ padLevels (w / 2) ls

/-- the array `MakeMerkleTree` returns: levels padded with missing nodes to 2^k, concatenated -/
def merkleTree (H : Bytes → Bytes) (xs : List Bytes) : List (Option Bytes) :=
  if xs.isEmpty then [] else padLevels (leafSize xs.length) (levels H xs.length xs)

/-! ### block id pre-image -/

/-- two's complement little endian, `w` bytes -/
def leNat : Nat → Nat → Bytes
  | 0, _ => []
  | w + 1, n => UInt8.ofNat (n % 256) :: leNat w (n / 256)

def le (w : Nat) (i : Int) : Bytes := leNat w (i % (256 : Int) ^ w).toNat

structure SignInfo where
  address : Bytes
  publicKey : Bytes
  sign : Bytes
deriving DecidableEq, Repr

structure Justify where
  proposalId : Bytes
  proposalMsg : Bytes
  type : Int
  viewNumber : Int
  signs : List SignInfo      -- SignInfos.QCSignInfos (a nil SignInfos writes the same as an empty one)
deriving DecidableEq, Repr

structure Block where
  version : Int
  nonce : Int
  txCount : Int
  proposer : Bytes
  timestamp : Int
  pubkey : Bytes
  preHash : Bytes
  merkleRoot : Bytes
  failedTxs : List (Bytes × Bytes)   -- the FailedTxs map as (txid, message) in ascending txid order
  curTerm : Int
  curBlockNum : Int
  targetBits : Int
  justify : Option Justify
  /- not part of the id -/
  blockid : Bytes
  sign : Bytes
  height : Int
  txids : List Bytes                 -- Txid of every transaction, in block order (a nil Txid is `[]`)
  carried : List (Option Bytes)      -- the MerkleTree array the message carries (`none`: nil node); never read by VerifyBlock
deriving DecidableEq, Repr

def justifySegs : Option Justify → List Bytes
  | none => []
  | some j => [j.proposalId, j.proposalMsg, le 4 j.type, le 8 j.viewNumber] ++
      j.signs.flatMap (fun s => [s.address, s.publicKey, s.sign])

/-- the hashed fields in hashing order, one byte string per write call -/
def segments (b : Block) : List Bytes :=
  [le 4 b.version, le 4 b.nonce, le 4 b.txCount, b.proposer, le 8 b.timestamp, b.pubkey, b.preHash, b.merkleRoot]
  ++ b.failedTxs.map (·.2)
  ++ [le 8 b.curTerm, le 8 b.curBlockNum, if 0 < b.targetBits then le 4 b.targetBits else []]
  ++ justifySegs b.justify

def preimage (b : Block) : Bytes := (segments b).flatten

/-- the write calls `segments` implements, in the vocabulary of the extractor -/
def modelSchema : List Item := [
  ⟨"Version", .le32, [], []⟩,
  ⟨"Nonce", .le32, [], []⟩,
  ⟨"TxCount", .le32, [], []⟩,
  ⟨"Proposer", .raw, ["Proposer!=nil"], []⟩,
  ⟨"Timestamp", .le64, [], []⟩,
  ⟨"Pubkey", .raw, ["Pubkey!=nil"], []⟩,
  ⟨"PreHash", .raw, [], []⟩,
  ⟨"MerkleRoot", .raw, [], []⟩,
  ⟨"FailedTxs", .mapValsSorted, [], []⟩,
  ⟨"CurTerm", .le64, [], []⟩,
  ⟨"CurBlockNum", .le64, [], []⟩,
  ⟨"TargetBits", .le32, ["TargetBits>0"], []⟩,
  ⟨"Justify.ProposalId", .raw, ["Justify!=nil"], []⟩,
  ⟨"Justify.ProposalMsg", .raw, ["Justify!=nil"], []⟩,
  ⟨"Justify.Type", .le32, ["Justify!=nil"], []⟩,
  ⟨"Justify.ViewNumber", .le64, ["Justify!=nil"], []⟩,
  ⟨"Justify.SignInfos.QCSignInfos[].Address", .raw, ["Justify!=nil", "Justify.SignInfos!=nil"], ["Justify.SignInfos.QCSignInfos"]⟩,
  ⟨"Justify.SignInfos.QCSignInfos[].PublicKey", .raw, ["Justify!=nil", "Justify.SignInfos!=nil"], ["Justify.SignInfos.QCSignInfos"]⟩,
  ⟨"Justify.SignInfos.QCSignInfos[].Sign", .raw, ["Justify!=nil", "Justify.SignInfos!=nil"], ["Justify.SignInfos.QCSignInfos"]⟩
]

/-- header fields the property names as bound by the id -/
def requiredFields : List String :=
  ["Version", "Nonce", "TxCount", "Proposer", "Timestamp", "Pubkey", "PreHash", "MerkleRoot", "FailedTxs",
   "CurTerm", "CurBlockNum", "TargetBits", "Justify.ProposalId", "Justify.ProposalMsg", "Justify.Type",
   "Justify.ViewNumber", "Justify.SignInfos.QCSignInfos[].Address", "Justify.SignInfos.QCSignInfos[].PublicKey",
   "Justify.SignInfos.QCSignInfos[].Sign"]

/-- block fields deliberately outside the id: the id itself, the signature over it, the stored
tree and body (bound through `MerkleRoot`/`TxCount`), and the mutable chain links -/
def unhashedFields : List String :=
  ["Blockid", "Sign", "Height", "MerkleTree[]", "InTrunk", "NextHash", "Transactions[]"]

/-! ### verification -/

/-- width of a transaction id (`sha256.Size`) -/
def hashWidth : Nat := 32

structure Crypto where
  H : Bytes → Bytes                      -- hash.DoubleSha256
  keyOf : Bytes → Option Nat             -- GetEcdsaPublicKeyFromJsonStr; `none`: not a key
  addrOk : Bytes → Nat → Bool            -- VerifyAddressUsingPublicKey(proposer, key)
  verify : Nat → Bytes → Bytes → Bool    -- VerifyECDSA(key, signature, message)
  pubJson : Nat → Bytes                  -- GetEcdsaPublicKeyJsonFormatStr of key pair k
  signWith : Nat → Bytes → Bytes         -- SignECDSA with the private key of pair k

/-- node arrays compared the way `bytes.Equal` does: a nil node and an empty one are the same -/
def sameNodes (a b : List (Option Bytes)) : Bool := a.map (·.getD []) == b.map (·.getD [])

/-- `VerifyMerkle` recomputes the tree from the body: its root must be the header's root and —
since the repair — the carried array `b.carried` (outside id and signature, so rewritable by
anyone, but stored with the header and used by `queryBlock` to list the body) must be that tree -/
def verifyMerkle (H : Bytes → Bytes) (b : Block) : Bool :=
  match merkleRoot H b.txids with
  | none => false
  | some r => r == b.merkleRoot && sameNodes b.carried (merkleTree H b.txids)

/-- `VerifyMerkle` as found: the carried array was not consulted -/
def verifyMerkleAsFound (H : Bytes → Bytes) (b : Block) : Bool :=
  match merkleRoot H b.txids with
  | none => false
  | some r => r == b.merkleRoot

/-- `queryBlock`: the body of a stored block is listed from the first `TxCount` nodes of the tree
stored with its header -/
def storedBody (b : Block) : List Bytes := (b.carried.take b.txCount.toNat).map (·.getD [])

def verifySig (c : Crypto) (b : Block) : Bool :=
  match c.keyOf b.pubkey with
  | none => false
  | some k => c.addrOk b.proposer k && c.verify k b.sign b.blockid

/-- `Ledger.VerifyBlock` -/
def verifyBlock (c : Crypto) (b : Block) : Bool :=
  (c.H (preimage b) == b.blockid)
  && (b.txCount == (b.txids.length : Int))
  && b.txids.all (fun t => t.length == hashWidth)
  && verifyMerkle c.H b
  && verifySig c b

/-- `Ledger.VerifyBlock` as found (before the carried tree was checked) -/
def verifyBlockAsFound (c : Crypto) (b : Block) : Bool :=
  (c.H (preimage b) == b.blockid)
  && (b.txCount == (b.txids.length : Int))
  && b.txids.all (fun t => t.length == hashWidth)
  && verifyMerkleAsFound c.H b
  && verifySig c b

/-- `Ledger.formatBlock` with `needSign` (FormatBlock / FormatMinerBlock); the block is
signed only if `preHash` is not empty -/
def formatBlock (c : Crypto) (txids : List Bytes) (proposer : Bytes) (key : Nat) (timestamp curTerm curBlockNum : Int)
    (preHash : Bytes) (targetBits : Int) (qc : Option Justify) (failed : List (Bytes × Bytes)) (height : Int) : Block :=
  let b : Block := {
    version := 1, nonce := 0, txCount := txids.length, proposer := proposer, timestamp := timestamp,
    pubkey := c.pubJson key, preHash := preHash,
    merkleRoot := (merkleRoot c.H txids).getD [],
    failedTxs := failed, curTerm := curTerm, curBlockNum := curBlockNum, targetBits := targetBits,
    justify := qc, blockid := [], sign := [], height := height, txids := txids,
    carried := merkleTree c.H txids }
  let id := c.H (preimage b)
  { b with blockid := id, sign := if preHash.isEmpty then [] else c.signWith key id }

/-! ### crypto faults

The ledger reaches ECDSA and key handling through a crypto client whose requests can fail (hsm, remote signer,
entropy source).  `fail` is the number of the request that reports failure, counted in the order the requests are
made (0 = none fails). -/

/-- `Ledger.formatBlock` (signed case) with the `fail`-th crypto request failing.  Requests in order: 1 the public key
in JSON form, 2 the signature over the id (made only when `preHash` is not empty).  A failing request ends the call
with its error: no block is handed out. -/
def formatBlockF (c : Crypto) (txids : List Bytes) (proposer : Bytes) (key : Nat) (timestamp curTerm curBlockNum : Int)
    (preHash : Bytes) (targetBits : Int) (qc : Option Justify) (failed : List (Bytes × Bytes)) (height : Int)
    (fail : Nat) : Option Block :=
  if fail == 1 then none
  else if fail == 2 && !preHash.isEmpty then none
  else some (formatBlock c txids proposer key timestamp curTerm curBlockNum preHash targetBits qc failed height)

/-- the signature stage of `Ledger.VerifyBlock` with the `fail`-th crypto request failing.  Requests in order: 1 the key
parsed from its JSON form, 2 the address check (reached only with a key), 3 the signature check (reached only when the
address matched). -/
def verifySigF (c : Crypto) (b : Block) (fail : Nat) : Bool :=
  if fail == 1 then false else
  match c.keyOf b.pubkey with
  | none => false
  | some k => (fail != 2 && c.addrOk b.proposer k) && (fail != 3 && c.verify k b.sign b.blockid)

/-- `Ledger.VerifyBlock` with the `fail`-th crypto request failing (id and merkle checks make no request) -/
def verifyBlockF (c : Crypto) (b : Block) (fail : Nat) : Bool :=
  (c.H (preimage b) == b.blockid)
  && (b.txCount == (b.txids.length : Int))
  && b.txids.all (fun t => t.length == hashWidth)
  && verifyMerkle c.H b
  && verifySigF c b fail

end XV.Merkle
