/-!
Model of the vote-based election of tdpos proposers (`bcs/consensus/tdpos/schedule.go`:
`calTopKNominator`, `calHisValidators`, `CalOldProposers`) and of the producer check of
`tdposConsensus.CheckMinerMatch` (chained-bft off) built on it.

Addresses are `Nat`s ordered like the address strings.  The contract state visible in the snapshot of a
ledger block holds one nominate record (the candidates) and one vote record per candidate (ballots by voter).
Every read goes through `getSnapshotKey` and can fail (`Fault`): then the election has NO result and the block
under test is refused - an unreadable ballot record is not an empty one.
-/
namespace XV.TdElect

/-- a candidate's vote record as read from a snapshot -/
inductive VRec where
  | absent                    -- no record: nobody ever voted for the candidate
  | corrupt                   -- a value that does not decode
  | ballots (l : List Int)    -- ballots by voter
deriving Repr, DecidableEq

/-- the nominate record -/
inductive NRec where
  | absent
  | corrupt
  | cands (l : List (Nat × VRec))   -- candidate ↦ its vote record; a Go map: the order carries no meaning
deriving Repr

/-- an injected storage fault: every read of that kind fails while the block is checked -/
inductive Fault where
  | none
  | nominate          -- reading the nominate key fails
  | vote (c : Nat)    -- reading the vote key of candidate `c` fails
  | snapshot          -- `CreateSnapshot` fails
deriving Repr, DecidableEq

inductive Res (α : Type) where
  | ok (a : α) | err
deriving Repr, DecidableEq

structure Tally where
  addr : Nat
  ballots : Int
deriving Repr, DecidableEq

/-- the order `sort.Stable(termBallotsSlice)` establishes: more ballots first, equal ballots: larger address first -/
def before (a b : Tally) : Bool :=
  decide (a.ballots > b.ballots) || (decide (a.ballots = b.ballots) && decide (a.addr ≥ b.addr))

/-- one round of the loop over the candidates: `none` = skipped (no votes / non-positive sum) -/
def tally (f : Fault) (c : Nat × VRec) : Res (Option Tally) :=
  if f = .snapshot ∨ f = .vote c.1 then .err else
  match c.2 with
  | .absent => .ok none
  | .corrupt => .err
  | .ballots l => if l.sum ≤ 0 then .ok none else .ok (some ⟨c.1, l.sum⟩)

def pick : Res (Option Tally) → Option Tally
  | .ok (some t) => some t
  | _ => none

/-- the loop over the candidates (a Go map: any order): an unreadable or undecodable vote record aborts the
election, whichever candidate it belongs to -/
def tallies (f : Fault) (l : List (Nat × VRec)) : Res (List Tally) :=
  if l.any (fun c => tally f c == .err) then .err
  else .ok (l.filterMap (fun c => pick (tally f c)))

/-- the sorted slice (insertion sort: `before` is a total order on tallies of distinct addresses, so every
correct sorting algorithm - Go's `sort.Stable` included - produces this list) -/
def insertT (t : Tally) : List Tally → List Tally
  | [] => [t]
  | x :: xs => if before t x then t :: x :: xs else x :: insertT t xs

def sortT : List Tally → List Tally
  | [] => []
  | x :: xs => insertT x (sortT xs)

def elect (pn : Nat) (ts : List Tally) : List Nat := ((sortT ts).take pn).map (·.addr)

/-- `calTopKNominator` once the snapshot is chosen: `init` = the configured initial proposers, `pn` = proposer_num -/
def topK (init : List Nat) (pn : Nat) (f : Fault) (r : NRec) : Res (List Nat) :=
  if f = .snapshot ∨ f = .nominate then .err else
  match r with
  | .absent => .ok init
  | .corrupt => .err
  | .cands l =>
    match tallies f l with
    | .err => .err
    | .ok ts => if ts.length < pn then .ok init else .ok (elect pn ts)

/-- what a node knows when it checks a block -/
structure Chain where
  start : Nat                    -- StartHeight of the consensus instance
  init : List Nat
  pn : Nat                       -- proposer_num
  bn : Nat                       -- block_num
  terms : List Nat               -- curTerm stored in ledger blocks 0..tip
  snaps : List (Nat × NRec)      -- (E, record): the record visible in the snapshots of blocks ≥ E; later entries win
deriving Repr

def Chain.tip (c : Chain) : Nat := c.terms.length - 1

/-- the record of the latest entry (in list order) with `E ≤ h` -/
def recordAt (snaps : List (Nat × NRec)) (h : Nat) : NRec :=
  match (snaps.filter (fun p => decide (p.1 ≤ h))).getLast? with
  | none => .absent
  | some p => p.2

/-- `calHisValidators`' search: the first height (not below `start`) whose stored term is that of block `h` -/
def firstOfTerm (terms : List Nat) (start h : Nat) : Nat :=
  ((List.range (h + 1)).find? (fun i => decide (start ≤ i) && (terms[i]? == terms[h]?))).getD h

/-- `calTopKNominator(t)`: the election over the snapshot of block `t - 3` -/
def calTopK (c : Chain) (f : Fault) (t : Nat) : Res (List Nat) :=
  if t < c.start + 3 then .ok c.init else topK c.init c.pn f (recordAt c.snaps (t - 3))

/-- `calHisValidators(h)`: the proposers of the term of ledger block `h` - elected when the term's first
block `F` was produced, from the ledger as it stood at `F - 1` -/
def calHis (c : Chain) (f : Fault) (h : Nat) : Res (List Nat) :=
  calTopK c f (firstOfTerm c.terms c.start h - 1)

/-- `CalOldProposers(height, timestamp, _)`; `inputTerm` = the term the schedule assigns to the timestamp -/
def calOld (c : Chain) (f : Fault) (height inputTerm : Nat) : Res (List Nat) :=
  if height < c.start + 3 then .ok c.init
  else if height < c.tip then calHis c f height
  else if c.terms[c.tip]? == some inputTerm then calHis c f c.tip
  else calTopK c f c.tip

inductive Verdict where
  | accept | reject | panic
deriving Repr, DecidableEq

/-- tdpos `CheckMinerMatch` (no bft) for a block of height `h` whose timestamp the schedule maps to
`(term, pos, bp)` -/
def check (c : Chain) (f : Fault) (h term pos bp : Nat) (proposer : Nat) : Verdict :=
  if term < 1 ∨ bp ≥ c.bn ∨ pos ≥ c.pn then .reject else
  match calOld c f h term with
  | .err => .reject
  | .ok vals =>
    match vals[pos]? with
    | none => .panic
    | some v => if v = proposer then .accept else .reject

end XV.TdElect
