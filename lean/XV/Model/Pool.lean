import XV.Model.Chain
/-!
Model of the pool order of xupercore (property C13):

* `sortUnconfirmed`  — the dependency graph of `Tx.SortUnconfirmedTx` (bcs/ledger/xledger/tx/tx.go):
  producer → consumer edges from the `RefTxid` of token inputs and of key inputs, plus the
  reader → overwriter edges (a transaction that only read `key@version` must precede the pool
  transaction that overwrites that version), with the `writers` map of the Go code ("last writer in
  iteration order wins") kept as it is;
* `topSortDFS`       — `TopSortDFS` (bcs/ledger/xledger/tx/topsort.go): pre-processing of child-only
  nodes, split into connected components by an undirected DFS (`components`, gives `childDAGSize`),
  then the depth-first visit with temporary / permanent marks that fills the result from the back.
  Go's map iteration order is an explicit argument (`keyOrder`, the order in which `range g` yields the
  nodes); the order of every child list is the order of the edge list. The set of orders the real
  function can return is `{ topSortDFS g ko | ko a permutation of the nodes, edge list in any order }`;
* `admitAll`         — admitting a list of transactions one by one on the evolving L1 state
  (`XV.Chain.admitTx` / `applyTx`): what a replica does with the transactions of a block.

Core Lean only; everything is executable (`xvdriver pool`).
-/
namespace XV.Pool
open XV.Chain

/-- `TxGraph` (map txid → dependents): the keys of the map and the edges in the order they were appended -/
structure Graph where
  nodes : List Nat
  edges : List (Nat × Nat)
deriving Repr, DecidableEq, Inhabited

/-- `g[n]`: the dependents of `n` in append order -/
def Graph.children (g : Graph) (n : Nat) : List Nat :=
  (g.edges.filter (fun e => e.1 == n)).map (·.2)

/-- `reverseG[n]` -/
def Graph.parents (g : Graph) (n : Nat) : List Nat :=
  (g.edges.filter (fun e => e.2 == n)).map (·.1)

/-- the keys of `g` after the pre-processing loop of `TopSortDFS` (`g[m] = []` for child-only nodes) -/
def Graph.allNodes (g : Graph) : List Nat :=
  (g.nodes ++ g.edges.map (·.2)).eraseDups

-- ---------------------------------------------------------------- SortUnconfirmedTx

def writesKey (t : Tx) (k : String) : Bool := t.kout.any (fun ko => ko.key == k)

def inPool (pool : List Tx) (i : Nat) : Bool := pool.any (fun t => t.id == i)

/-- first loop: `txGraph[ref] = append(txGraph[ref], txID)` for every token input and every key input whose
`RefTxid` is a pool transaction (one edge per input, duplicates kept, as in the Go code) -/
def depEdges (pool : List Tx) : List (Nat × Nat) :=
  pool.flatMap (fun t =>
    t.ins.filterMap (fun r => if inPool pool r.tx then some (r.tx, t.id) else none) ++
    t.kin.filterMap (fun ki => match ki.ver with
      | some w => if inPool pool w.1 then some (w.1, t.id) else none
      | none => none))

/-- `bucket/key@refTxid_refOffset` -/
abbrev VerKey := String × Option Ver

/-- the `writers` map: version → the transaction that overwrites it (a later one in iteration order replaces an
earlier one) -/
def writers (pool : List Tx) : List (VerKey × Nat) :=
  pool.foldl (fun m t => t.kin.foldl (fun m ki =>
    if writesKey t ki.key then put m (ki.key, ki.ver) t.id else m) m) []

/-- the `readers` map at one version: the transactions that read it and do not write the key -/
def readers (pool : List Tx) (vk : VerKey) : List Nat :=
  pool.flatMap (fun t => t.kin.filterMap (fun ki =>
    if (ki.key, ki.ver) = vk ∧ writesKey t ki.key = false then some t.id else none))

/-- second loop: reader → overwriter edges -/
def antiEdges (pool : List Tx) : List (Nat × Nat) :=
  (writers pool).flatMap (fun p => (readers pool p.1).filterMap (fun r => if r ≠ p.2 then some (r, p.2) else none))

/-- `SortUnconfirmedTx`: the graph over the pool (`pool` lists the transactions in map iteration order) -/
def sortUnconfirmed (pool : List Tx) : Graph :=
  { nodes := pool.map (·.id), edges := depEdges pool ++ antiEdges pool }

/-- the graph before the repair `eb76c54` (no reader → overwriter edges) -/
def sortUnconfirmedPreFix (pool : List Tx) : Graph :=
  { nodes := pool.map (·.id), edges := depEdges pool }

-- ---------------------------------------------------------------- TopSortDFS

/-- state of the visiting phase: `temp` / `perm` marks, the filled tail `L[i:]`, `cycleFound` -/
structure VS where
  temp : List Nat := []
  perm : List Nat := []
  out : List Nat := []
  cyc : Bool := false
deriving Repr, DecidableEq, Inhabited

/-- `visit(n)`; `fuel` bounds the recursion depth (the depth never exceeds the number of nodes because every
nested call adds a new temporary mark — `C13.fuel_suffices`); running out of fuel is reported as a cycle -/
def visit (g : Graph) : Nat → Nat → VS → VS
  | 0, _, s => { s with cyc := true }
  | fuel + 1, n, s =>
    if s.temp.contains n then { s with cyc := true }
    else if s.perm.contains n then s
    else
      let s1 := (g.children n).foldl (fun st m => if st.cyc then st else visit g fuel m st)
                  { s with temp := n :: s.temp }
      if s1.cyc then s1
      else { s1 with temp := s1.temp.erase n, perm := n :: s1.perm, out := n :: s1.out }

/-- a loop of visits that stops at the first cycle report -/
def visitList (g : Graph) (fuel : Nat) (ms : List Nat) (s : VS) : VS :=
  ms.foldl (fun st m => if st.cyc then st else visit g fuel m st) s

/-- state of the component split: `marked`, the current `subG` -/
structure CS where
  marked : List Nat := []
  sub : List Nat := []
deriving Repr, DecidableEq, Inhabited

/-- `dfs(n)` of the component split (children first, then parents, then `subG = append(subG, n)`) -/
def cdfs (g : Graph) : Nat → Nat → CS → CS
  | 0, _, s => s
  | fuel + 1, n, s =>
    if s.marked.contains n then s
    else
      let s1 := (g.children n ++ g.parents n).foldl (fun st m => cdfs g fuel m st) { s with marked := n :: s.marked }
      { s1 with sub := s1.sub ++ [n] }

/-- the loop `for n := range g { if marked[n] {continue}; dfs(n); subGraphs = append(subGraphs, subG) }` -/
def components (g : Graph) (fuel : Nat) : List Nat → List Nat → List (List Nat)
  | [], _ => []
  | n :: rest, marked =>
    if marked.contains n then components g fuel rest marked
    else
      let s := cdfs g fuel n { marked := marked, sub := [] }
      s.sub :: components g fuel rest s.marked

structure SortResult where
  order : Option (List Nat)     -- `none` = cyclic
  dagSizes : List Nat           -- `childDAGSize`
deriving Repr, DecidableEq, Inhabited

def fuelOf (g : Graph) : Nat := g.allNodes.length + 1

/-- the visiting phase over an explicit root order -/
def topSortWith (g : Graph) (roots : List Nat) : Option (List Nat) :=
  let s := visitList g (fuelOf g) roots {}
  if s.cyc then none else some s.out

/-- `TopSortDFS(g)` with the iteration order of `range g` given by `keyOrder` -/
def topSortDFS (g : Graph) (keyOrder : List Nat) : SortResult :=
  let subs := components g (fuelOf g) keyOrder []
  { order := topSortWith g subs.flatten, dagSizes := (subs.map (·.length)).reverse }

-- ---------------------------------------------------------------- orders

/-- `u` occurs strictly before an occurrence of `v` -/
def Before (l : List Nat) (u v : Nat) : Prop := ∃ l1 l2, l = l1 ++ u :: l2 ∧ v ∈ l2

/-- executable form of "the order respects every edge of the graph and lists exactly its nodes once" -/
def beforeB (l : List Nat) (u v : Nat) : Bool := (l.dropWhile (fun x => x != u)).drop 1 |>.contains v

def respectsB (g : Graph) (l : List Nat) : Bool := g.edges.all (fun e => beforeB l e.1 e.2)

def isPermB (l nodes : List Nat) : Bool :=
  l.length == nodes.length && nodes.all (fun n => l.contains n) && l.all (fun n => nodes.contains n) &&
  l.eraseDups.length == l.length

/-- membership test of the over-approximated set of possible orders (what `C13.order_respects_deps` proves about
every order `topSortDFS` returns) -/
def possibleOrder (g : Graph) (l : List Nat) : Bool := isPermB l g.allNodes && respectsB g l

-- ---------------------------------------------------------------- the property's relation between two transactions

/-- `v` spends an output of `u` -/
def tokDep (u v : Tx) : Bool := v.ins.any (fun r => r.tx == u.id)

/-- `v` read a key version written by `u` -/
def keyDep (u v : Tx) : Bool :=
  v.kin.any (fun ki => match ki.ver with | some w => w.1 == u.id | none => false)

/-- `u` only read `key@version`, `v` read the same version and overwrites the key -/
def antiDep (u v : Tx) : Bool :=
  u.id != v.id && u.kin.any (fun pk => !writesKey u pk.key &&
    v.kin.any (fun ck => ck.key == pk.key && ck.ver == pk.ver && writesKey v ck.key))

/-- `u` must precede `v` -/
def edge (u v : Tx) : Bool := tokDep u v || keyDep u v || antiDep u v

-- ---------------------------------------------------------------- admission of a sequence

/-- a replica admits the transactions one by one on the evolving state -/
def admitAll (s : St) (lh : Int) : List Tx → Option St
  | [] => some s
  | t :: rest => if admitTx s lh t = .ok then admitAll (applyTx s t) lh rest else none

/-- index of the first transaction that is refused (for the driver) -/
def firstRefused (s : St) (lh : Int) : List Tx → Nat → Option Nat
  | [], _ => none
  | t :: rest, i => if admitTx s lh t = .ok then firstRefused (applyTx s t) lh rest (i + 1) else some i

end XV.Pool
