/-!
# Model of the governance-token kernel contract and of the proposal contract that locks tokens

Mirrors, call by call and in the code's READ-THEN-WRITE ORDER,
`kernel/contract/proposal/govern_token/govern_token_contract.go` (Init, Transfer, Lock, UnLock) and
`kernel/contract/proposal/propose/propose_contract.go` (Propose, Vote, Thaw, CheckVoteResult, Trigger)
together with the part of `kernel/contract/proposal/timer/timer_task_contract.go` (Add, Do) they use.

A contract bucket is a finite map `key ⇀ value`, represented as an association list with
`aget` = first match and `aput` = replace the first match or append (what `ctx.Get` / `ctx.Put` of the
sandbox do for one key).  Amounts are `Int` (`big.Int`).  Accounts are abstract numbers; the only
property of an account NAME the code depends on is whether `lock_<pid>_<name>` falls into the scan range
of `unlockGovernTokensForProposal` (first byte below 0x60) — `lockScanCovers`.

The TDPoS election contract (`bcs/consensus/tdpos/kernel_contract.go`: runNominateCandidate,
runRevokeCandidate, runVote, runRevokeVote) is modelled with the peculiarity that matters for the tokens: it
READS its records (`nominate`, `vote_<candidate>`) from the ledger snapshot of the block height the caller
names (`getSnapshotKey(height, …)`) and WRITES the whole re-encoded value through the contract context.  The
world therefore carries the committed `$tdpos` bucket `td` and one snapshot of it per sealed block (`tdSnaps`).

A rejected call is `none`: the transaction fails and none of its writes are committed.
-/
namespace XV.GovToken

abbrev Acct := Nat

/-! ## buckets -/

def aget {κ ν : Type} [DecidableEq κ] : List (κ × ν) → κ → Option ν
  | [], _ => none
  | (k, v) :: r, a => if k = a then some v else aget r a

def aput {κ ν : Type} [DecidableEq κ] : List (κ × ν) → κ → ν → List (κ × ν)
  | [], a, b => [(a, b)]
  | (k, v) :: r, a, b => if k = a then (a, b) :: r else (k, v) :: aput r a b

/-- `delete(m, a)`: drop the (first) entry of key `a` -/
def aerase {κ ν : Type} [DecidableEq κ] : List (κ × ν) → κ → List (κ × ν)
  | [], _ => []
  | (k, v) :: r, a => if k = a then r else (k, v) :: aerase r a

/-! ## the governToken bucket -/

inductive LockType
  | ordinary
  | tdpos
  deriving DecidableEq, Repr

/-- who reaches a restricted method: `ctx.Caller()` is the name of the calling contract -/
inductive Caller
  | proposal
  | tdpos
  | xpos
  | timer
  | other
  deriving DecidableEq, Repr

/-- `Caller() == $proposal || $tdpos || $xpos` -/
def Caller.mayLock : Caller → Bool
  | .proposal => true
  | .tdpos => true
  | .xpos => true
  | _ => false

/-- value under `balanceOf_<account>`: `GovernTokenBalance{TotalBalance, LockedBalance{ordinary,tdpos}}` -/
structure Bal where
  total : Int
  ord : Int
  tdp : Int
  deriving DecidableEq, Repr

/-- `utils.NewGovernTokenBalance()` -/
def Bal.zero : Bal := ⟨0, 0, 0⟩

def Bal.locked (b : Bal) : LockType → Int
  | .ordinary => b.ord
  | .tdpos => b.tdp

def Bal.addLocked (b : Bal) : LockType → Int → Bal
  | .ordinary, d => { b with ord := b.ord + d }
  | .tdpos, d => { b with tdp := b.tdp + d }

structure Gov where
  bal : List (Acct × Bal) := []
  /-- key `totalSupply` -/
  supply : Option Int := none
  /-- key `distributed` == "true" -/
  distributed : Bool := false
  deriving DecidableEq, Repr

/-- the loop of `InitGovernTokens`: every quota is added to the record already written for the address,
the running total counts every quota; a negative quota aborts -/
def initLoop (bal : List (Acct × Bal)) (sup : Int) : List (Acct × Int) → Option (List (Acct × Bal) × Int)
  | [] => some (bal, sup)
  | (a, q) :: r =>
    if q < 0 then none
    else
      let b := (aget bal a).getD Bal.zero
      initLoop (aput bal a { b with total := b.total + q }) (sup + q) r

/-- `InitGovernTokens` -/
def init (pre : List (Acct × Int)) (g : Gov) : Option Gov :=
  if g.distributed then none
  else
    match initLoop g.bal 0 pre with
    | none => none
    | some (bal, sup) => some { bal := bal, supply := some sup, distributed := true }

/-- `TransferGovernTokens`: amount check, read sender, lock checks, debit and WRITE sender,
then READ receiver (through the context: sees the write), credit, write receiver -/
def transfer (g : Gov) (s t : Acct) (n : Int) : Option Gov :=
  if n < 0 then none
  else
    match aget g.bal s with
    | none => none
    | some sb =>
      if sb.total - sb.ord < n ∨ sb.total - sb.tdp < n then none
      else
        let bal1 := aput g.bal s { sb with total := sb.total - n }
        let rb := (aget bal1 t).getD Bal.zero
        some { g with bal := aput bal1 t { rb with total := rb.total + n } }

/-- `LockGovernTokens`; `τ = none` is an invalid `lock_type` -/
def lock (g : Gov) (c : Caller) (a : Acct) (n : Int) (τ : Option LockType) : Option Gov :=
  if !c.mayLock then none
  else
    match τ with
    | none => none
    | some τ =>
      match aget g.bal a with
      | none => none
      | some b =>
        if n < 0 then none
        else if b.total - b.locked τ < n then none
        else some { g with bal := aput g.bal a (b.addLocked τ n) }

/-- `UnLockGovernTokens` -/
def unlock (g : Gov) (c : Caller) (a : Acct) (n : Int) (τ : Option LockType) : Option Gov :=
  if !c.mayLock then none
  else
    match aget g.bal a with
    | none => none
    | some b =>
      if n < 0 then none
      else
        match τ with
        | none => none
        | some τ =>
          if b.locked τ < n then none
          else some { g with bal := aput g.bal a (b.addLocked τ (-n)) }

/-! ## the proposal and timer buckets -/

inductive Status
  | voting
  | cancelled
  | rejected
  | passed
  | failed
  | succeeded
  deriving DecidableEq, Repr

structure Proposal where
  status : Status
  votes : Int
  proposer : Acct
  /-- `min_vote_percent` -/
  pct : Int
  /-- `trigger.height` -/
  trigHeight : Int
  /-- whether the call of the trigger target succeeds (abstracted) -/
  trigOk : Bool
  deriving DecidableEq, Repr

inductive TaskKind
  | check
  | trigger
  deriving DecidableEq, Repr

/-- timer bucket entry `<height>_<taskid>` → callback into `$proposal` -/
structure Task where
  height : Int
  kind : TaskKind
  pid : Nat
  deriving DecidableEq, Repr

/-- the election records of the `$tdpos` bucket (the `revoke` log carries no stake and is not modelled) -/
structure TdBucket where
  /-- key `tdpos_0_nominate`: candidate ↦ {nominator: deposit} (one nominator per candidate) -/
  nom : List (Acct × (Acct × Int)) := []
  /-- keys `tdpos_0_vote_<candidate>`: candidate ↦ {voter: ballots} -/
  votes : List (Acct × List (Acct × Int)) := []
  deriving DecidableEq, Repr

structure World where
  /-- genesis predistribution the contract instance was built with -/
  pre : List (Acct × Int)
  gov : Gov := {}
  /-- proposal bucket key `id` (0 = absent) -/
  lastPid : Nat := 0
  props : List (Nat × Proposal) := []
  /-- proposal bucket keys `lock_<pid>_<account>` -/
  locks : List ((Nat × Acct) × Int) := []
  /-- timer tasks in task-id order -/
  tasks : List Task := []
  /-- the committed `$tdpos` bucket -/
  td : TdBucket := {}
  /-- the snapshot of `td` taken by every sealed block, in order: blocks `tdBaseTip + 1`, `tdBaseTip + 2`, … -/
  tdSnaps : List TdBucket := []
  deriving DecidableEq, Repr

/-- `Propose`: args check, timer task for CheckVoteResult, Lock 1000 ordinary on the initiator, records -/
def propose (w : World) (a : Acct) (pct stop trig : Int) (trigOk : Bool) : Option (World × Nat) :=
  let pid := w.lastPid + 1
  if pct < 51 ∨ pct > 100 then none
  else if trig ≠ 0 ∧ trig ≤ stop then none
  else
    match lock w.gov .proposal a 1000 (some .ordinary) with
    | none => none
    | some g =>
      some ({ w with
                gov := g
                lastPid := pid
                locks := aput w.locks (pid, a) 1000
                props := aput w.props pid ⟨.voting, 0, a, pct, trig, trigOk⟩
                tasks := w.tasks ++ [⟨stop, .check, pid⟩] }, pid)

/-- `Vote` -/
def vote (w : World) (a : Acct) (pid : Nat) (n : Int) : Option World :=
  if n < 0 then none
  else
    match aget w.props pid with
    | none => none
    | some p =>
      if p.status ≠ .voting then none
      else
        match lock w.gov .proposal a n (some .ordinary) with
        | none => none
        | some g =>
          let old := (aget w.locks (pid, a)).getD 0
          some { w with
                   gov := g
                   locks := aput w.locks (pid, a) (n + old)
                   props := aput w.props pid { p with votes := p.votes + n } }

/-- `Thaw` -/
def thaw (w : World) (a : Acct) (pid : Nat) : Option World :=
  match aget w.props pid with
  | none => none
  | some p =>
    if p.proposer ≠ a then none
    else if p.votes > 0 then none
    else if p.status ≠ .voting then none
    else
      match aget w.locks (pid, a) with
      | none => none
      | some amt =>
        match unlock w.gov .proposal a amt (some .ordinary) with
        | none => none
        | some g => some { w with gov := g, props := aput w.props pid { p with status := .cancelled } }

/-- the key range `[lock_<pid>_, PrefixRange(lock_<pid>__))` scanned by `unlockGovernTokensForProposal`
contains `lock_<pid>_<name>` iff the first byte of `<name>` is below 0x60; the harness gives accounts
≥ 50 a name starting with a lower-case letter -/
def lockScanCovers (a : Acct) : Bool := a < 50

/-- `unlockGovernTokensForProposal`: UnLock every scanned lock record of the proposal, errors ignored -/
def unlockAll (g : Gov) (pid : Nat) : List ((Nat × Acct) × Int) → Gov
  | [] => g
  | ((p, a), amt) :: r =>
    if p = pid ∧ lockScanCovers a = true then
      unlockAll ((unlock g .proposal a amt (some .ordinary)).getD g) pid r
    else unlockAll g pid r

/-- body of `CheckVoteResult` once the caller check passed; an error leaves everything unchanged
(the timer ignores it and the callee wrote nothing before failing) -/
def checkVote (w : World) (pid : Nat) : World :=
  match aget w.props pid with
  | none => w
  | some p =>
    if p.status ≠ .voting then w
    else
      match w.gov.supply with
      | none => w
      | some sup =>
        if p.votes < sup * p.pct / 100 then
          { w with gov := unlockAll w.gov pid w.locks, props := aput w.props pid { p with status := .rejected } }
        else
          { w with props := aput w.props pid { p with status := .passed }
                   tasks := w.tasks ++ [⟨p.trigHeight, .trigger, pid⟩] }

/-- body of `Trigger` once the caller check passed -/
def trigger (w : World) (pid : Nat) : World :=
  match aget w.props pid with
  | none => w
  | some p =>
    if p.status ≠ .passed then w
    else
      { w with gov := unlockAll w.gov pid w.locks
               props := aput w.props pid { p with status := if p.trigOk then .succeeded else .failed } }

def runTask (w : World) (t : Task) : World :=
  match t.kind with
  | .check => checkVote w t.pid
  | .trigger => trigger w t.pid

/-- `$timer_task.Do(height)`: call back every task registered for that height (snapshot of the range) -/
def timerDo (w : World) (h : Int) : World :=
  (w.tasks.filter (fun t => t.height = h)).foldl runTask w

/-! ## the TDPoS election contract -/

/-- `StartHeight` of the consensus instance: `checkArgs` refuses heights `≤ tdStartHeight` -/
def tdStartHeight : Int := 1

/-- height of the ledger tip of a fresh world; blocks up to it carry no election record -/
def tdBaseTip : Nat := 2

def World.tip (w : World) : Nat := tdBaseTip + w.tdSnaps.length

/-- a new block: its snapshot is what has been committed so far -/
def sealBlock (w : World) : World := { w with tdSnaps := w.tdSnaps ++ [w.td] }

/-- `checkArgs` + `getSnapshotKey`: the records as of block `h`; `none` = the height is refused
(`h ≤ StartHeight` or above the tip) -/
def tdSnapAt (w : World) (h : Int) : Option TdBucket :=
  if h ≤ tdStartHeight ∨ h > w.tip then none
  else if h ≤ tdBaseTip then some {}
  else some (w.tdSnaps.getD (h - tdBaseTip - 1).toNat {})

/-- `isAuthAddress`: the initiator is the candidate, or the candidate is among the co-signers (`AuthRequire`);
`auth` = the candidate co-signs -/
def tdAuth (i c : Acct) (auth : Bool) : Bool := i = c || auth

/-- `runNominateCandidate`: amount check, authorisation, Lock of the INITIATOR's tokens (tdpos type), then the
snapshot's nominate record: refuse a repeated candidate, add `candidate ↦ {initiator: amount}`, write it back -/
def nominate (w : World) (i c : Acct) (n : Int) (auth : Bool) (h : Int) : Option World :=
  match tdSnapAt w h with
  | none => none
  | some s =>
    if n ≤ 0 then none
    else if !tdAuth i c auth then none
    else
      match lock w.gov .tdpos i n (some .tdpos) with
      | none => none
      | some g =>
        match aget s.nom c with
        | some _ => none
        | none => some { w with gov := g, td := { w.td with nom := aput s.nom c (i, n) } }

/-- `runRevokeCandidate`: the snapshot's record of the candidate must name the initiator as nominator; UnLock of the
INITIATOR's deposit, delete the candidate, write the record back -/
def revokeNominate (w : World) (i c : Acct) (h : Int) : Option World :=
  match tdSnapAt w h with
  | none => none
  | some s =>
    match aget s.nom c with
    | none => none
    | some (nominator, ballot) =>
      if nominator ≠ i then none
      else
        match unlock w.gov .tdpos i ballot (some .tdpos) with
        | none => none
        | some g => some { w with gov := g, td := { w.td with nom := aerase s.nom c } }

/-- `runVote`: amount check, Lock of the INITIATOR's tokens, the candidate must be nominated in the snapshot, the
snapshot's ballots of the initiator for the candidate are raised and `vote_<candidate>` is written back -/
def tdVote (w : World) (i c : Acct) (n : Int) (h : Int) : Option World :=
  match tdSnapAt w h with
  | none => none
  | some s =>
    if n ≤ 0 then none
    else
      match lock w.gov .tdpos i n (some .tdpos) with
      | none => none
      | some g =>
        match aget s.nom c with
        | none => none
        | some _ =>
          let vm := (aget s.votes c).getD []
          let old := (aget vm i).getD 0
          some { w with gov := g, td := { w.td with votes := aput w.td.votes c (aput vm i (old + n)) } }

/-- `runRevokeVote`: amount check, UnLock of the INITIATOR's tokens, the snapshot must hold at least that many
ballots of the initiator for the candidate; they are lowered and `vote_<candidate>` is written back -/
def tdRevokeVote (w : World) (i c : Acct) (n : Int) (h : Int) : Option World :=
  match tdSnapAt w h with
  | none => none
  | some s =>
    if n ≤ 0 then none
    else
      match unlock w.gov .tdpos i n (some .tdpos) with
      | none => none
      | some g =>
        match aget s.votes c with
        | none => none
        | some vm =>
          match aget vm i with
          | none => none
          | some v =>
            if v < n then none
            else some { w with gov := g, td := { w.td with votes := aput w.td.votes c (aput vm i (v - n)) } }

/-! ## calls and histories -/

inductive Call
  | init
  | transfer (s t : Acct) (n : Int)
  | lock (c : Caller) (a : Acct) (n : Int) (τ : Option LockType)
  | unlock (c : Caller) (a : Acct) (n : Int) (τ : Option LockType)
  | propose (a : Acct) (pct stop trig : Int) (ok : Bool)
  | vote (a : Acct) (pid : Nat) (n : Int)
  | thaw (a : Acct) (pid : Nat)
  | timer (h : Int)
  /-- `CheckVoteResult` / `Trigger` reached by a caller `c` -/
  | checkVote (c : Caller) (pid : Nat)
  | trigger (c : Caller) (pid : Nat)
  /-- a new block on the ledger -/
  | newBlock
  /-- the `$tdpos` kernel methods: initiator `i`, candidate `c`, block height `h` named by the caller -/
  | nominate (i c : Acct) (n : Int) (auth : Bool) (h : Int)
  | revokeNominate (i c : Acct) (h : Int)
  | tdVote (i c : Acct) (n : Int) (h : Int)
  | tdRevokeVote (i c : Acct) (n : Int) (h : Int)
  deriving DecidableEq, Repr

/-- one top-level call; `none` = rejected (nothing committed) -/
def step? (w : World) : Call → Option World
  | .init => (init w.pre w.gov).map fun g => { w with gov := g }
  | .transfer s t n => (transfer w.gov s t n).map fun g => { w with gov := g }
  | .lock c a n τ => (lock w.gov c a n τ).map fun g => { w with gov := g }
  | .unlock c a n τ => (unlock w.gov c a n τ).map fun g => { w with gov := g }
  | .propose a pct stop trig ok => (propose w a pct stop trig ok).map (·.1)
  | .vote a pid n => vote w a pid n
  | .thaw a pid => thaw w a pid
  | .timer h => some (timerDo w h)
  | .checkVote c pid => if c = .timer then some (checkVote w pid) else none
  | .trigger c pid => if c = .timer then some (trigger w pid) else none
  | .newBlock => some (sealBlock w)
  | .nominate i c n auth h => nominate w i c n auth h
  | .revokeNominate i c h => revokeNominate w i c h
  | .tdVote i c n h => tdVote w i c n h
  | .tdRevokeVote i c n h => tdRevokeVote w i c n h

def step (w : World) (c : Call) : World := (step? w c).getD w

def run (w : World) (cs : List Call) : World := cs.foldl step w

/-! ## pre-executed transactions on a node (op kinds `pre` / `ver` / `sub` / `dotx` / `pack` / `qbal`)

A client pre-executes a call on the node's live state and submits the transaction assembled from the read / write set
later; other transactions may have been accepted in between. `xmodel.DoTx` (and `PrepareEnv` inside `VerifyTx`) accept
the transaction only if every key it READ still carries the version it read - a key that did not exist must still not
exist. The sandbox reads every key before it writes it, and the successful paths of Transfer / Propose / Vote write every
key they read: read set = write set = the footprint below. -/

inductive Key
  /-- `balanceOf_<account>` of the governToken bucket (and the proposal lock records of that account) -/
  | bal (a : Acct)
  /-- key `id` of the proposal bucket and the timer task counter -/
  | pidCounter
  /-- the record of proposal `p` -/
  | prop (p : Nat)
  /-- everything (Init) -/
  | all
  deriving DecidableEq, Repr

def footprint : Call → List Key
  | .transfer s t _ => [.bal s, .bal t]
  | .propose a _ _ _ _ => [.bal a, .pidCounter]
  | .vote a pid _ => [.bal a, .prop pid]
  | _ => [.all]

def Key.clash : Key → Key → Bool
  | .all, _ => true
  | _, .all => true
  | a, b => a == b

/-- some transaction accepted after the pre-execution wrote a key the held transaction read -/
def conflicts (fp : List Key) (later : List (List Key)) : Bool :=
  later.any fun e => e.any fun k => fp.any (Key.clash k)

/-- a held transaction: the call, how many transactions had been accepted when it was pre-executed, whether the
pre-execution succeeded, whether `VerifyTx` has accepted it -/
structure Held where
  call : Call
  seen : Nat
  ok : Bool
  verified : Bool := false
  deriving Repr

/-- a node: live state (confirmed + pending), the state of the tip block, the footprints of the accepted transactions
(oldest first), the held transactions by tag -/
structure Node where
  live : World
  conf : World
  log : List (List Key) := []
  held : List (String × Held) := []

/-- `State.DoTx` of a held transaction: `none` = refused (stale read), otherwise the call takes effect on the CURRENT
live state - the answer of the same call made now -/
def Node.accept (n : Node) (h : Held) : Option Node :=
  if conflicts (footprint h.call) (n.log.drop h.seen) then none
  else (step? n.live h.call).map fun w => { n with live := w, log := n.log ++ [footprint h.call] }

/-- a block of the miner with everything pending: the tip state becomes the live state -/
def Node.pack (n : Node) : Node :=
  let w := sealBlock n.live
  { n with live := w, conf := w }

/-- `QueryAccountGovernTokenBalance`: the balance in the state of the tip block -/
def Node.queryBalance (n : Node) (a : Acct) : Option Int := (aget n.conf.gov.bal a).map (·.total)

/-! ## observables -/

def sumTot : List (Acct × Bal) → Int
  | [] => 0
  | (_, b) :: r => b.total + sumTot r

def totalOf (g : Gov) (a : Acct) : Int := ((aget g.bal a).getD Bal.zero).total

def lockedOf (g : Gov) (a : Acct) (τ : LockType) : Int := ((aget g.bal a).getD Bal.zero).locked τ

/-! ### open stakes: what the contracts' own books say an account has staked -/

/-- a proposal still holds its stakes: voting, or passed and not yet executed by its trigger -/
def Status.isOpen : Status → Bool
  | .voting => true
  | .passed => true
  | _ => false

def propOpen (props : List (Nat × Proposal)) (pid : Nat) : Bool :=
  match aget props pid with
  | some p => p.status.isOpen
  | none => false

/-- sum of the `lock_<pid>_<a>` records of account `a` over the proposals that are still open -/
def stakeOrd (props : List (Nat × Proposal)) : List ((Nat × Acct) × Int) → Acct → Int
  | [], _ => 0
  | ((p, x), amt) :: r, a => (if x = a ∧ propOpen props p = true then amt else 0) + stakeOrd props r a

/-- deposits of the nominations made by `a` -/
def nomStake : List (Acct × (Acct × Int)) → Acct → Int
  | [], _ => 0
  | (_, (i, n)) :: r, a => (if i = a then n else 0) + nomStake r a

def mapStake : List (Acct × Int) → Acct → Int
  | [], _ => 0
  | (v, n) :: r, a => (if v = a then n else 0) + mapStake r a

/-- ballots `a` has cast, over all candidates -/
def voteStake : List (Acct × List (Acct × Int)) → Acct → Int
  | [], _ => 0
  | (_, vm) :: r, a => mapStake vm a + voteStake r a

/-- what `a` has staked in the TDPoS election: its nomination deposits and its ballots -/
def stakeTd (td : TdBucket) (a : Acct) : Int := nomStake td.nom a + voteStake td.votes a

end XV.GovToken
