/-!
# Model of the governance-token kernel contract and of the proposal contract that locks tokens

Mirrors, call by call and in the code's READ-THEN-WRITE ORDER,
`kernel/contract/proposal/govern_token/govern_token_contract.go` (Init, Transfer, Lock, UnLock) and
`kernel/contract/proposal/propose/propose_contract.go` (Propose, Vote, Thaw, CheckVoteResult, Trigger)
together with the part of `kernel/contract/proposal/timer/timer_task_contract.go` (Add, Do) they use.

A contract bucket is a finite map `key ⇀ value`, represented as an association list with
`aget` = first match and `aput` = replace the first match or append (what `ctx.Get` / `ctx.Put` of the
sandbox do for one key).  Amounts are `Int` (`big.Int`).  Accounts are abstract numbers; the only
property of an account NAME the code depends on is whether `lock_<pid>_<name>` falls into the scan range
of `unlockGovernTokensForProposal` (first byte below 0x60) — `lockScanCovers`.

A rejected call is `none`: the transaction fails and none of its writes are committed.
-/
namespace XV.GovToken

abbrev Acct := Nat

/-! ## buckets -/

def aget {κ ν : Type} [DecidableEq κ] : List (κ × ν) → κ → Option ν
  | [], _ => none
  | (k, v) :: r, a => if k = a then some v else aget r a

def aput {κ ν : Type} [DecidableEq κ] : List (κ × ν) → κ → ν → List (κ × ν)
  | [], a, b => [(a, b)]
  | (k, v) :: r, a, b => if k = a then (a, b) :: r else (k, v) :: aput r a b

/-! ## the governToken bucket -/

inductive LockType
  | ordinary
  | tdpos
  deriving DecidableEq, Repr

/-- who reaches a restricted method: `ctx.Caller()` is the name of the calling contract -/
inductive Caller
  | proposal
  | tdpos
  | xpos
  | timer
  | other
  deriving DecidableEq, Repr

/-- `Caller() == $proposal || $tdpos || $xpos` -/
def Caller.mayLock : Caller → Bool
  | .proposal => true
  | .tdpos => true
  | .xpos => true
  | _ => false

/-- value under `balanceOf_<account>`: `GovernTokenBalance{TotalBalance, LockedBalance{ordinary,tdpos}}` -/
structure Bal where
  total : Int
  ord : Int
  tdp : Int
  deriving DecidableEq, Repr

/-- `utils.NewGovernTokenBalance()` -/
def Bal.zero : Bal := ⟨0, 0, 0⟩

def Bal.locked (b : Bal) : LockType → Int
  | .ordinary => b.ord
  | .tdpos => b.tdp

def Bal.addLocked (b : Bal) : LockType → Int → Bal
  | .ordinary, d => { b with ord := b.ord + d }
  | .tdpos, d => { b with tdp := b.tdp + d }

structure Gov where
  bal : List (Acct × Bal) := []
  /-- key `totalSupply` -/
  supply : Option Int := none
  /-- key `distributed` == "true" -/
  distributed : Bool := false
  deriving DecidableEq, Repr

/-- the loop of `InitGovernTokens`: every quota is added to the record already written for the address,
the running total counts every quota; a negative quota aborts -/
def initLoop (bal : List (Acct × Bal)) (sup : Int) : List (Acct × Int) → Option (List (Acct × Bal) × Int)
  | [] => some (bal, sup)
  | (a, q) :: r =>
    if q < 0 then none
    else
      let b := (aget bal a).getD Bal.zero
      initLoop (aput bal a { b with total := b.total + q }) (sup + q) r

/-- `InitGovernTokens` -/
def init (pre : List (Acct × Int)) (g : Gov) : Option Gov :=
  if g.distributed then none
  else
    match initLoop g.bal 0 pre with
    | none => none
    | some (bal, sup) => some { bal := bal, supply := some sup, distributed := true }

/-- `TransferGovernTokens`: amount check, read sender, lock checks, debit and WRITE sender,
then READ receiver (through the context: sees the write), credit, write receiver -/
def transfer (g : Gov) (s t : Acct) (n : Int) : Option Gov :=
  if n < 0 then none
  else
    match aget g.bal s with
    | none => none
    | some sb =>
      if sb.total - sb.ord < n ∨ sb.total - sb.tdp < n then none
      else
        let bal1 := aput g.bal s { sb with total := sb.total - n }
        let rb := (aget bal1 t).getD Bal.zero
        some { g with bal := aput bal1 t { rb with total := rb.total + n } }

/-- `LockGovernTokens`; `τ = none` is an invalid `lock_type` -/
def lock (g : Gov) (c : Caller) (a : Acct) (n : Int) (τ : Option LockType) : Option Gov :=
  if !c.mayLock then none
  else
    match τ with
    | none => none
    | some τ =>
      match aget g.bal a with
      | none => none
      | some b =>
        if n < 0 then none
        else if b.total - b.locked τ < n then none
        else some { g with bal := aput g.bal a (b.addLocked τ n) }

/-- `UnLockGovernTokens` -/
def unlock (g : Gov) (c : Caller) (a : Acct) (n : Int) (τ : Option LockType) : Option Gov :=
  if !c.mayLock then none
  else
    match aget g.bal a with
    | none => none
    | some b =>
      if n < 0 then none
      else
        match τ with
        | none => none
        | some τ =>
          if b.locked τ < n then none
          else some { g with bal := aput g.bal a (b.addLocked τ (-n)) }

/-! ## the proposal and timer buckets -/

inductive Status
  | voting
  | cancelled
  | rejected
  | passed
  | failed
  | succeeded
  deriving DecidableEq, Repr

structure Proposal where
  status : Status
  votes : Int
  proposer : Acct
  /-- `min_vote_percent` -/
  pct : Int
  /-- `trigger.height` -/
  trigHeight : Int
  /-- whether the call of the trigger target succeeds (abstracted) -/
  trigOk : Bool
  deriving DecidableEq, Repr

inductive TaskKind
  | check
  | trigger
  deriving DecidableEq, Repr

/-- timer bucket entry `<height>_<taskid>` → callback into `$proposal` -/
structure Task where
  height : Int
  kind : TaskKind
  pid : Nat
  deriving DecidableEq, Repr

structure World where
  /-- genesis predistribution the contract instance was built with -/
  pre : List (Acct × Int)
  gov : Gov := {}
  /-- proposal bucket key `id` (0 = absent) -/
  lastPid : Nat := 0
  props : List (Nat × Proposal) := []
  /-- proposal bucket keys `lock_<pid>_<account>` -/
  locks : List ((Nat × Acct) × Int) := []
  /-- timer tasks in task-id order -/
  tasks : List Task := []
  deriving DecidableEq, Repr

/-- `Propose`: args check, timer task for CheckVoteResult, Lock 1000 ordinary on the initiator, records -/
def propose (w : World) (a : Acct) (pct stop trig : Int) (trigOk : Bool) : Option (World × Nat) :=
  let pid := w.lastPid + 1
  if pct < 51 ∨ pct > 100 then none
  else if trig ≠ 0 ∧ trig ≤ stop then none
  else
    match lock w.gov .proposal a 1000 (some .ordinary) with
    | none => none
    | some g =>
      some ({ w with
                gov := g
                lastPid := pid
                locks := aput w.locks (pid, a) 1000
                props := aput w.props pid ⟨.voting, 0, a, pct, trig, trigOk⟩
                tasks := w.tasks ++ [⟨stop, .check, pid⟩] }, pid)

/-- `Vote` -/
def vote (w : World) (a : Acct) (pid : Nat) (n : Int) : Option World :=
  if n < 0 then none
  else
    match aget w.props pid with
    | none => none
    | some p =>
      if p.status ≠ .voting then none
      else
        match lock w.gov .proposal a n (some .ordinary) with
        | none => none
        | some g =>
          let old := (aget w.locks (pid, a)).getD 0
          some { w with
                   gov := g
                   locks := aput w.locks (pid, a) (n + old)
                   props := aput w.props pid { p with votes := p.votes + n } }

/-- `Thaw` -/
def thaw (w : World) (a : Acct) (pid : Nat) : Option World :=
  match aget w.props pid with
  | none => none
  | some p =>
    if p.proposer ≠ a then none
    else if p.votes > 0 then none
    else if p.status ≠ .voting then none
    else
      match aget w.locks (pid, a) with
      | none => none
      | some amt =>
        match unlock w.gov .proposal a amt (some .ordinary) with
        | none => none
        | some g => some { w with gov := g, props := aput w.props pid { p with status := .cancelled } }

/-- the key range `[lock_<pid>_, PrefixRange(lock_<pid>__))` scanned by `unlockGovernTokensForProposal`
contains `lock_<pid>_<name>` iff the first byte of `<name>` is below 0x60; the harness gives accounts
≥ 50 a name starting with a lower-case letter -/
def lockScanCovers (a : Acct) : Bool := a < 50

/-- `unlockGovernTokensForProposal`: UnLock every scanned lock record of the proposal, errors ignored -/
def unlockAll (g : Gov) (pid : Nat) : List ((Nat × Acct) × Int) → Gov
  | [] => g
  | ((p, a), amt) :: r =>
    if p = pid ∧ lockScanCovers a = true then
      unlockAll ((unlock g .proposal a amt (some .ordinary)).getD g) pid r
    else unlockAll g pid r

/-- body of `CheckVoteResult` once the caller check passed; an error leaves everything unchanged
(the timer ignores it and the callee wrote nothing before failing) -/
def checkVote (w : World) (pid : Nat) : World :=
  match aget w.props pid with
  | none => w
  | some p =>
    if p.status ≠ .voting then w
    else
      match w.gov.supply with
      | none => w
      | some sup =>
        if p.votes < sup * p.pct / 100 then
          { w with gov := unlockAll w.gov pid w.locks, props := aput w.props pid { p with status := .rejected } }
        else
          { w with props := aput w.props pid { p with status := .passed }
                   tasks := w.tasks ++ [⟨p.trigHeight, .trigger, pid⟩] }

/-- body of `Trigger` once the caller check passed -/
def trigger (w : World) (pid : Nat) : World :=
  match aget w.props pid with
  | none => w
  | some p =>
    if p.status ≠ .passed then w
    else
      { w with gov := unlockAll w.gov pid w.locks
               props := aput w.props pid { p with status := if p.trigOk then .succeeded else .failed } }

def runTask (w : World) (t : Task) : World :=
  match t.kind with
  | .check => checkVote w t.pid
  | .trigger => trigger w t.pid

/-- `$timer_task.Do(height)`: call back every task registered for that height (snapshot of the range) -/
def timerDo (w : World) (h : Int) : World :=
  (w.tasks.filter (fun t => t.height = h)).foldl runTask w

/-! ## calls and histories -/

inductive Call
  | init
  | transfer (s t : Acct) (n : Int)
  | lock (c : Caller) (a : Acct) (n : Int) (τ : Option LockType)
  | unlock (c : Caller) (a : Acct) (n : Int) (τ : Option LockType)
  | propose (a : Acct) (pct stop trig : Int) (ok : Bool)
  | vote (a : Acct) (pid : Nat) (n : Int)
  | thaw (a : Acct) (pid : Nat)
  | timer (h : Int)
  /-- `CheckVoteResult` / `Trigger` reached by a caller `c` -/
  | checkVote (c : Caller) (pid : Nat)
  | trigger (c : Caller) (pid : Nat)
  deriving DecidableEq, Repr

/-- one top-level call; `none` = rejected (nothing committed) -/
def step? (w : World) : Call → Option World
  | .init => (init w.pre w.gov).map fun g => { w with gov := g }
  | .transfer s t n => (transfer w.gov s t n).map fun g => { w with gov := g }
  | .lock c a n τ => (lock w.gov c a n τ).map fun g => { w with gov := g }
  | .unlock c a n τ => (unlock w.gov c a n τ).map fun g => { w with gov := g }
  | .propose a pct stop trig ok => (propose w a pct stop trig ok).map (·.1)
  | .vote a pid n => vote w a pid n
  | .thaw a pid => thaw w a pid
  | .timer h => some (timerDo w h)
  | .checkVote c pid => if c = .timer then some (checkVote w pid) else none
  | .trigger c pid => if c = .timer then some (trigger w pid) else none

def step (w : World) (c : Call) : World := (step? w c).getD w

def run (w : World) (cs : List Call) : World := cs.foldl step w

/-! ## observables -/

def sumTot : List (Acct × Bal) → Int
  | [] => 0
  | (_, b) :: r => b.total + sumTot r

def totalOf (g : Gov) (a : Acct) : Int := ((aget g.bal a).getD Bal.zero).total

def lockedOf (g : Gov) (a : Acct) (τ : LockType) : Int := ((aget g.bal a).getD Bal.zero).locked τ

end XV.GovToken
