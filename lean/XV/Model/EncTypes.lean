/-!
Types of the encoder schemas that `go/extract/reg_enc.go` regenerates from the Go
source on every run (`XV/Gen/BlockId.lean`, `XV/Gen/TxDigest.lean`).  Core Lean only.

A schema is the *sequence of write calls* an encoder function performs, flattened:
every item names the field path it writes (relative to the message), how it is
written, the conditions guarding the write and the loops it sits in.
-/
namespace XV.Enc

abbrev Bytes := List UInt8

/-- how one field is written into a pre-image -/
inductive Kind where
  /- `binary.Write(buf, LittleEndian, x)` of the block-id encoder -/
  | le32            -- int32, 4 bytes little endian
  | le64            -- int64, 8 bytes little endian
  | raw             -- byte string, no delimiter
  | mapValsSorted   -- the values of a map, raw, in ascending key order (keys themselves not written)
  | mapValsUnsorted -- the values of a map in Go map iteration order (not deterministic)
  | mapKeysSorted
  /- `encoder.Encode(x)` of the v3 transaction digest (txhash/encode.go): every value is framed -/
  | i64             -- 8 bytes big endian (bool, int, int32, int64)
  | lenBytes        -- 8-byte big-endian length, then the bytes (string, []byte)
  | count           -- 8-byte big-endian number of elements of the loop that follows
  | lenMap          -- EncodeMap: count, then (lenBytes key, lenBytes value) in ascending key order
  /- `json.Encoder.Encode(x)` of the v1/v2 digest: a JSON token followed by '\n' -/
  | json
deriving DecidableEq, Repr

structure Item where
  path  : String        -- e.g. "Version", "Justify.SignInfos.QCSignInfos[].Address"
  kind  : Kind
  conds : List String   -- guards, outermost first, e.g. ["Justify!=nil", "Justify.SignInfos!=nil"]
  loops : List String   -- enclosing loops, outermost first, e.g. ["Justify.SignInfos.QCSignInfos"]
deriving DecidableEq, Repr

/-- field paths written by a schema -/
def paths (s : List Item) : List String := s.map (·.path)

/-- `covers s fs`: every path of `fs` is written by `s` -/
def covers (s : List Item) (fs : List String) : Bool := fs.all (fun f => (paths s).contains f)

/-- the paths of `fs` that `s` writes without any guard -/
def unguarded (s : List Item) : List String := (s.filter (fun i => i.conds.isEmpty)).map (·.path)

end XV.Enc
