/-!
Decision logic of the signature / ownership part of transaction verification (C07):
`verifySignatures`, `verifyXuperSign`, `verifyUTXOPermission` of
bcs/ledger/xledger/state/tx_verification.go and `IdentifyAK` / `VerifySign` of
kernel/permission/acl/utils/utils.go, over abstract cryptography.  Core Lean only.

A name is an address (AK), an account, or invalid (`IsAccount` = 0 / 1 / -1).  A signature
entry is abstracted to what the real checks compute from it: the address its public key
hashes to (`none`: the key does not parse) and whether ECDSA verifies the entry's
signature over *this transaction's digest* under that key.  Account rules are abstract:
`acctOk a uris` is `IdentifyAccount(aclMgr, a, uris)` (C11 decides it).
-/
namespace XV.SigLogic

abbrev Addr := Nat

inductive Name where
  | ak (a : Addr)
  | account (n : Nat)
  | invalid
deriving DecidableEq, Repr

structure Sig where
  keyAddr : Option Addr   -- address of the entry's public key
  sigOk : Bool            -- VerifyECDSA(key, entry.Sign, digest)
deriving DecidableEq, Repr

/-- an `AuthRequire` entry "account/address" or "address": only the last component is used for
the signature check; the whole entry is handed to the ACL evaluation -/
structure AuthReq where
  prefixAcct : Option Nat
  addr : Addr
deriving DecidableEq, Repr

structure Input where
  owner : Name
  byContract : Bool       -- listed among the contract-justified inputs (checked by RWSet re-execution)
deriving DecidableEq, Repr

structure XSign where
  keyAddrs : List (Option Addr)   -- address of each listed public key (`none`: does not parse)
  sigOk : Bool                    -- VerifyXuperSignature(keys, signature, digest)
deriving DecidableEq, Repr

structure Tx where
  txidOk : Bool                   -- Txid = hash of the id pre-image (recomputed)
  initiator : Name
  initiatorSigns : List Sig
  authRequire : List AuthReq
  authRequireSigns : List Sig
  xuper : Option XSign
  inputs : List Input
deriving DecidableEq, Repr

structure Env where
  acctOk : Nat → List AuthReq → Bool      -- IdentifyAccount(account, AuthRequire-style uris)
  acctExists : Nat → Bool                 -- queryAccountACL finds an ACL

/-- `IdentifyAK` / `VerifySign`: key hashes to the address and the signature verifies -/
def identifyAK (a : Addr) (s : Sig) : Bool := s.keyAddr == some a && s.sigOk

/-- the loop over `AuthRequire`: entries whose address is already verified are skipped -/
def authLoop : List (AuthReq × Sig) → List Name → Option (List Name)
  | [], v => some v
  | (r, s) :: rest, v =>
    if v.contains (.ak r.addr) then authLoop rest v
    else if identifyAK r.addr s then authLoop rest (.ak r.addr :: v) else none

/-- account initiator: every initiator signature must verify under its own key -/
def initAcctLoop : List Sig → List Name → List AuthReq → Nat → Option (List Name × List AuthReq)
  | [], v, uris, _ => some (v, uris)
  | s :: rest, v, uris, acct =>
    match s.keyAddr with
    | none => none
    | some a => if s.sigOk then initAcctLoop rest (.ak a :: v) (uris ++ [⟨some acct, a⟩]) acct else none

def verifyXuperSign (t : Tx) (x : XSign) : Option (List Name) :=
  -- initiator first, then the distinct last components of AuthRequire
  let addrs : List Name := t.authRequire.foldl (fun acc r => if acc.contains (.ak r.addr) then acc else acc ++ [.ak r.addr]) [t.initiator]
  if addrs.length != x.keyAddrs.length then none
  else if x.keyAddrs.any (·.isNone) then none
  else if (addrs.zip x.keyAddrs).all (fun p => match p.1, p.2 with
      | .ak a, some k => a == k
      | _, _ => false) then
    (if x.sigOk then some addrs else none)
  else none

/-- `verifySignatures`: the verified ids, or `none` = reject -/
def verifySignatures (e : Env) (t : Tx) : Option (List Name) :=
  match t.xuper with
  | some x => verifyXuperSign t x
  | none =>
    if t.initiatorSigns.length < 1 || t.authRequire.length != t.authRequireSigns.length then none else
    let start : Option (List Name) :=
      match t.initiator with
      | .ak a => match t.initiatorSigns with
        | s :: _ => if identifyAK a s then some [.ak a] else none
        | [] => none
      | .account n => match initAcctLoop t.initiatorSigns [] [] n with
        | none => none
        | some (v, uris) => if e.acctOk n uris then some v else none
      | .invalid => none
    match start with
    | none => none
    | some v => authLoop (t.authRequire.zip t.authRequireSigns) v

/-- `verifyUTXOPermission` -/
def utxoLoop (e : Env) (auth : List AuthReq) : List Input → List Name → Bool
  | [], _ => true
  | i :: rest, v =>
    if i.byContract then utxoLoop e auth rest v
    else if v.contains i.owner then utxoLoop e auth rest v
    else match i.owner with
      | .account n => if e.acctExists n && e.acctOk n auth then utxoLoop e auth rest (i.owner :: v) else false
      | .ak _ => false
      | .invalid => false

/-- the part of `ImmediateVerifyTx` this property is about (version > 0, not autogen) -/
def verifyTx (e : Env) (t : Tx) : Bool :=
  t.txidOk &&
  match verifySignatures e t with
  | none => false
  | some v => utxoLoop e t.authRequire t.inputs v

/-- specification side: address `a` has, in this transaction, an entry whose key hashes to `a`
and whose signature over the digest verifies -/
def signedBy (t : Tx) (a : Addr) : Prop :=
  (∃ s ∈ t.initiatorSigns ++ t.authRequireSigns, s.keyAddr = some a ∧ s.sigOk = true) ∨
  (∃ x, t.xuper = some x ∧ x.sigOk = true ∧ some a ∈ x.keyAddrs)

end XV.SigLogic
