/-!
Decision logic of the signature / ownership part of transaction verification (C07):
`verifySignatures`, `verifyXuperSign`, `verifyUTXOPermission`, and the token side of
`verifyTxRWSets` / `isContractUtxoEffective` (contract-justified inputs) of
bcs/ledger/xledger/state/tx_verification.go, `UTXOReader.SelectUtxo` / `UTXOSandbox.Transfer`, and `IdentifyAK` / `VerifySign` of
kernel/permission/acl/utils/utils.go, over abstract cryptography.  Core Lean only.

A name is an address (AK), an account, or invalid (`IsAccount` = 0 / 1 / -1).  A signature
entry is abstracted to what the real checks compute from it: the address its public key
hashes to (`none`: the key does not parse) and whether ECDSA verifies the entry's
signature over *this transaction's digest* under that key.  Account rules are abstract:
`acctOk a uris` is `IdentifyAccount(aclMgr, a, uris)` (C11 decides it).
-/
namespace XV.SigLogic

abbrev Addr := Nat

inductive Name where
  | ak (a : Addr)
  | account (n : Nat)
  | invalid
deriving DecidableEq, Repr

structure Sig where
  keyAddr : Option Addr   -- address of the entry's public key
  sigOk : Bool            -- VerifyECDSA(key, entry.Sign, digest)
deriving DecidableEq, Repr

/-- an `AuthRequire` entry "account/address" or "address": only the last component is used for
the signature check; the whole entry is handed to the ACL evaluation -/
structure AuthReq where
  prefixAcct : Option Nat
  addr : Addr
deriving DecidableEq, Repr

/-- a spent output: its owner (`FromAddr`), the output it refers to (`RefTxid` as an abstract id,
`RefOffset`) and the amount -/
structure Input where
  owner : Name
  txid : Nat := 0
  offset : Int := 0
  amount : Nat := 0
deriving DecidableEq, Repr

structure Output where
  amount : Nat
  to : Name
deriving DecidableEq, Repr

/-- The aggregated form.  The slot takes a "unified" signature whose own type field selects the
scheme `VerifyXuperSignature` checks it with: only a multi-signature (`multi`) is made by all the
listed keys together; a plain ECDSA / Schnorr / threshold signature is checked against the FIRST key
only, a ring signature shows that some one member signed.  `sigOk` is the answer of the check. -/
structure XSign where
  keyAddrs : List (Option Addr)   -- address of each listed public key (`none`: does not parse)
  sigOk : Bool                    -- VerifyXuperSignature(keys, signature, digest)
  multi : Bool := true            -- the signature declares itself a multi-signature
deriving DecidableEq, Repr

/-- a write of the transaction's write set into one of the access-control tables, by the account
whose rule decides over it (`verifyRWSetPermission`): `XCAccount/<account>`, `XCContract2Account`
(value = the account), `XCContract/<contract>.<method>` (the account the confirmed owner table gives
for the contract; `none`: no confirmed owner entry) -/
inductive AclWrite where
  | account (n : Nat)
  | method (owner : Option Nat)
deriving DecidableEq, Repr

structure Tx where
  txidOk : Bool                   -- Txid = hash of the id pre-image (recomputed)
  initiator : Name
  initiatorSigns : List Sig
  authRequire : List AuthReq
  authRequireSigns : List Sig
  xuper : Option XSign
  inputs : List Input
  outputs : List Output := []
  /-- `$transient/ContractUtxo.Inputs` / `.Outputs` of TxOutputsExt: what the pre-execution of the
  carried contract requests is said to have spent and paid -/
  contractInputs : List Input := []
  contractOutputs : List Output := []
  /-- the transaction carries contract requests (`verifyRWSetPermission` passes directly otherwise) -/
  hasRequests : Bool := false
  /-- the methods (abstract ids) the carried requests call, in order -/
  calls : List Nat := []
  /-- the writes of `TxOutputsExt` into the access-control tables, in order -/
  aclWrites : List AclWrite := []
deriving DecidableEq, Repr

structure Env where
  acctOk : Nat → List AuthReq → Bool      -- IdentifyAccount(account, AuthRequire-style uris)
  acctExists : Nat → Bool                 -- queryAccountACL finds an ACL
  /-- CheckContractMethodPerm(users, contract, method) for the method with this id (no stored rule: open) -/
  methodOk : Nat → List AuthReq → Bool := fun _ _ => true

/-- `IdentifyAK` / `VerifySign`: key hashes to the address and the signature verifies -/
def identifyAK (a : Addr) (s : Sig) : Bool := s.keyAddr == some a && s.sigOk

/-- the loop over `AuthRequire`: entries whose address is already verified are skipped -/
def authLoop : List (AuthReq × Sig) → List Name → Option (List Name)
  | [], v => some v
  | (r, s) :: rest, v =>
    if v.contains (.ak r.addr) then authLoop rest v
    else if identifyAK r.addr s then authLoop rest (.ak r.addr :: v) else none

/-- account initiator: every initiator signature must verify under its own key -/
def initAcctLoop : List Sig → List Name → List AuthReq → Nat → Option (List Name × List AuthReq)
  | [], v, uris, _ => some (v, uris)
  | s :: rest, v, uris, acct =>
    match s.keyAddr with
    | none => none
    | some a => if s.sigOk then initAcctLoop rest (.ak a :: v) (uris ++ [⟨some acct, a⟩]) acct else none

/-- the addresses the aggregated form has to answer for: initiator first, then the distinct last
components of AuthRequire -/
def xuperAddrs (t : Tx) : List Name :=
  t.authRequire.foldl (fun acc r => if acc.contains (.ak r.addr) then acc else acc ++ [.ak r.addr]) [t.initiator]

/-- `verifyXuperSign`; `needMulti`: several addresses demand a multi-signature (the repaired code;
`false` = the code as found, which took any scheme) -/
def verifyXuperSignWith (needMulti : Bool) (t : Tx) (x : XSign) : Option (List Name) :=
  let addrs : List Name := xuperAddrs t
  if addrs.length != x.keyAddrs.length then none
  else if x.keyAddrs.any (·.isNone) then none
  else if (addrs.zip x.keyAddrs).all (fun p => match p.1, p.2 with
      | .ak a, some k => a == k
      | _, _ => false) then
    (if needMulti && decide (1 < x.keyAddrs.length) && !x.multi then none
     else if x.sigOk then some addrs else none)
  else none

def verifyXuperSign (t : Tx) (x : XSign) : Option (List Name) := verifyXuperSignWith true t x

/-- `verifySignatures`: the verified ids, or `none` = reject -/
def verifySignatures (e : Env) (t : Tx) : Option (List Name) :=
  match t.xuper with
  | some x => verifyXuperSign t x
  | none =>
    if t.initiatorSigns.length < 1 || t.authRequire.length != t.authRequireSigns.length then none else
    let start : Option (List Name) :=
      match t.initiator with
      | .ak a => match t.initiatorSigns with
        | s :: _ => if identifyAK a s then some [.ak a] else none
        | [] => none
      | .account n => match initAcctLoop t.initiatorSigns [] [] n with
        | none => none
        | some (v, uris) => if e.acctOk n uris then some v else none
      | .invalid => none
    match start with
    | none => none
    | some v => authLoop (t.authRequire.zip t.authRequireSigns) v

/-- the key of `conUtxoInputsMap`, `GenUtxoKey(FromAddr, RefTxid, RefOffset)`: the declared contract
input and the transaction input name the same output **of the same owner** -/
def sameUtxo (c i : Input) : Bool := c.owner == i.owner && c.txid == i.txid && c.offset == i.offset

/-- the input is listed among the contract-justified inputs (its spend is checked by re-execution) -/
def byContract (cins : List Input) (i : Input) : Bool := cins.any (sameUtxo · i)

/-- `verifyUTXOPermission`; `exempt` says which inputs are left to the re-execution check -/
def utxoLoop (e : Env) (auth : List AuthReq) (exempt : Input → Bool) : List Input → List Name → Bool
  | [], _ => true
  | i :: rest, v =>
    if exempt i then utxoLoop e auth exempt rest v
    else if v.contains i.owner then utxoLoop e auth exempt rest v
    else match i.owner with
      | .account n => if e.acctExists n && e.acctOk n auth then utxoLoop e auth exempt rest (i.owner :: v) else false
      | .ak _ => false
      | .invalid => false

/-- signature and ownership stages with a given exemption rule -/
def verifyTxWith (exempt : Tx → Input → Bool) (e : Env) (t : Tx) : Bool :=
  t.txidOk &&
  match verifySignatures e t with
  | none => false
  | some v => utxoLoop e t.authRequire (exempt t) t.inputs v

/-- the part of `ImmediateVerifyTx` up to `verifyUTXOPermission` (version > 0, not autogen) -/
def verifyTx (e : Env) (t : Tx) : Bool := verifyTxWith (fun t => byContract t.contractInputs) e t

/-! ### outputs spent by the contract code the transaction carries (`verifyTxRWSets`, token side)

The carried requests are re-executed in a sandbox whose UTXO reader serves **only the declared
inputs** (`sandbox.NewUTXOReaderFromInput`).  The token side of the code is abstracted to the list
of `Transfer(payer, to, amount)` calls it makes. -/

structure Transfer where
  payer : Name
  to : Name
  amount : Int
deriving DecidableEq, Repr

/-- `UTXOReader.SelectUtxo(payer, amount)` over the declared inputs not yet taken: inputs are taken
in order until the amount is covered, each must belong to the payer ("from address mismatch in
utxo cache"); `sum` is what has been taken so far (`sum < amount` on entry).
Result: (taken, total, left). -/
def selectUtxo (payer : Name) (amount : Nat) : List Input → Nat → Option (List Input × Nat × List Input)
  | [], _ => none
  | i :: rest, sum =>
    if i.owner != payer then none
    else if amount ≤ sum + i.amount then some ([i], sum + i.amount, rest)
    else match selectUtxo payer amount rest (sum + i.amount) with
      | none => none
      | some (taken, total, left) => some (i :: taken, total, left)

/-- `UTXOSandbox.Transfer` for every call in order (a non-positive amount is refused, the excess of
the taken inputs goes back to the payer).  Result: everything spent, everything paid. -/
def runTransfers : List Transfer → List Input → Option (List Input × List Output)
  | [], _ => some ([], [])
  | tr :: trs, avail =>
    if tr.amount ≤ 0 then none else
    match selectUtxo tr.payer tr.amount.toNat avail 0 with
    | none => none
    | some (taken, total, left) =>
      match runTransfers trs left with
      | none => none
      | some (ins, outs) =>
        some (taken ++ ins,
          (⟨tr.amount.toNat, tr.to⟩ :: (if tr.amount.toNat < total then [⟨total - tr.amount.toNat, tr.payer⟩] else [])) ++ outs)

/-- `isSubOutputs`: every declared payment is matched by an output of the transaction of its own -/
def subOutputs : List Output → List Output → Bool
  | [], _ => true
  | c :: cs, outs => outs.contains c && subOutputs cs (outs.erase c)

/-- `isContractUtxoEffective`: what the execution is said to have spent and paid is part of the
transaction (inputs are compared by the output they refer to) -/
def effective (t : Tx) : Bool :=
  decide (t.contractInputs.length ≤ t.inputs.length) && decide (t.contractOutputs.length ≤ t.outputs.length) &&
  t.contractInputs.all (fun c => t.inputs.any (fun i => i.txid == c.txid && i.offset == c.offset)) &&
  subOutputs t.contractOutputs t.outputs

/-- token side of `verifyTxRWSets` for a transaction that carries requests: the declared inputs and
payments are in the transaction, and re-executing the code over the declared inputs spends and pays
exactly what was declared (the two `$transient` entries are part of the compared write set) -/
def verifyContract (code : List Transfer) (t : Tx) : Bool :=
  effective t &&
  match runTransfers code t.contractInputs with
  | none => false
  | some (ins, outs) => ins == t.contractInputs && outs == t.contractOutputs

/-- `ImmediateVerifyTx` of a transaction that carries no contract request: it must carry no
contract read / write set either (`ErrInvalidTxExt`), in particular no declared contract inputs -/
def verifyTxNoCode (exempt : Tx → Input → Bool) (e : Env) (t : Tx) : Bool :=
  verifyTxWith exempt e t && t.contractInputs.isEmpty && t.contractOutputs.isEmpty

/-- `ImmediateVerifyTx` of a transaction carrying contract requests whose token side is `code` -/
def verifyTxC (exempt : Tx → Input → Bool) (e : Env) (code : List Transfer) (t : Tx) : Bool :=
  verifyTxWith exempt e t && verifyContract code t

/-- specification side: address `a` has, in this transaction, an entry whose key hashes to `a`
and whose signature over the digest verifies; in the aggregated form: the signature verifies and `a`'s
key took part in it — any listed key of a multi-signature, the first key of every other scheme -/
def signedBy (t : Tx) (a : Addr) : Prop :=
  (∃ s ∈ t.initiatorSigns ++ t.authRequireSigns, s.keyAddr = some a ∧ s.sigOk = true) ∨
  (∃ x, t.xuper = some x ∧ x.sigOk = true ∧
    ((x.multi = true ∧ some a ∈ x.keyAddrs) ∨ (x.multi = false ∧ x.keyAddrs = [some a])))

/-! ### the remaining access-control stage, the two results of the verification, `Chain.SubmitTx` -/

/-- `verifyUTXOPermission` handing on the verified ids it extends (`verifiedID` is shared with
`verifyRWSetPermission`) -/
def utxoLoopV (e : Env) (auth : List AuthReq) (exempt : Input → Bool) : List Input → List Name → Option (List Name)
  | [], v => some v
  | i :: rest, v =>
    if exempt i then utxoLoopV e auth exempt rest v
    else if v.contains i.owner then utxoLoopV e auth exempt rest v
    else match i.owner with
      | .account n => if e.acctExists n && e.acctOk n auth then utxoLoopV e auth exempt rest (i.owner :: v) else none
      | .ak _ => none
      | .invalid => none

/-- `verifyRWSetPermission`: every write into an access-control table needs the account that decides
over it — already verified, or its rule satisfied by AuthRequire; a method rule of a contract
without confirmed owner entry is refused -/
def rwPermLoop (e : Env) (auth : List AuthReq) : List AclWrite → List Name → Bool
  | [], _ => true
  | w :: rest, v =>
    match w with
    | .method none => false
    | .account n | .method (some n) =>
      if v.contains (.account n) then rwPermLoop e auth rest v
      else if e.acctOk n auth then rwPermLoop e auth rest (.account n :: v) else false

/-- `removeDuplicateUser`: an address initiator and the AuthRequire entries, each once -/
def users (t : Tx) : List AuthReq :=
  ((match t.initiator with
    | .ak a => [(⟨none, a⟩ : AuthReq)]
    | _ => []) ++ t.authRequire).eraseDups

/-- `verifyContractPermission`: the rule of every called method is satisfied by the users -/
def methodPerm (e : Env) (t : Tx) : Bool := t.calls.all (fun m => e.methodOk m (users t))

/-- the stages of `ImmediateVerifyTx` that decide on signatures and access control -/
inductive Stage where
  | txid | sigs | utxo | method | rwperm
deriving DecidableEq, Repr

/-- the first stage that refuses (`none`: all pass); the stages this model does not cover (amounts,
re-execution) are taken to pass -/
def firstRefusal (e : Env) (t : Tx) : Option Stage :=
  if !t.txidOk then some .txid else
  match verifySignatures e t with
  | none => some .sigs
  | some v =>
    match utxoLoopV e t.authRequire (byContract t.contractInputs) t.inputs v with
    | none => some .utxo
    | some v' =>
      if !methodPerm e t then some .method
      else if !t.hasRequests || rwPermLoop e t.authRequire t.aclWrites v' then none else some .rwperm

/-- the two results `(ok, err ≠ nil)` of `ImmediateVerifyTx` / `State.VerifyTx` -/
structure Verdict where
  ok : Bool
  err : Bool
deriving DecidableEq, Repr

/-- `ImmediateVerifyTx` as composed in the code: `if !ok { return ok, ErrX }`.  `handsOn s`: the
stage's OWN error value is returned instead of the fixed one (no stage does in the code as it is);
`own s`: that own value is non-nil (a stage that refuses because a rule is not satisfied has none) -/
def immediateVerifyWith (handsOn own : Stage → Bool) (e : Env) (t : Tx) : Verdict :=
  match firstRefusal e t with
  | none => ⟨true, false⟩
  | some s => ⟨false, if handsOn s then own s else true⟩

def immediateVerify (e : Env) (t : Tx) : Verdict := immediateVerifyWith (fun _ => false) (fun _ => false) e t

/-- `State.VerifyTx`: a transaction that fails and spends an output of a transaction the operator
has marked (`relies`) gets the answer of `verifyMarked` — at submission a refusal; `markedErr`: that
refusal carries an error (the repaired code; `false` = the code as found) -/
def stateVerifyTxWith (markedErr : Bool) (relies : Bool) (v : Verdict) : Verdict :=
  if v.ok && !v.err then v else if relies then ⟨false, markedErr⟩ else v

def stateVerifyTx (relies : Bool) (e : Env) (t : Tx) : Verdict := stateVerifyTxWith true relies (immediateVerify e t)

/-- `Chain.SubmitTx`: `_, err := VerifyTx(tx); if err != nil { refuse }`, then `DoTx` (which checks
no signature; `spendable`: the token side is in order, `DoTx` succeeds) -/
def submitOf (v : Verdict) (spendable : Bool) : Bool := !v.err && spendable

def submitTx (relies : Bool) (e : Env) (t : Tx) (spendable : Bool) : Bool := submitOf (stateVerifyTx relies e t) spendable

end XV.SigLogic
