/-!
Model of the proof-of-work plugin (`bcs/consensus/pow/common.go`, `pow.go`):
compact difficulty encoding (`GetCompact` / `SetCompact`), `IsProofed`, the
retarget rule `refreshDifficulty`, and the decision of `CheckMinerMatch`.

Numbers are `Nat` (the Go code uses `uint32` for compact values and `big.Int`
for targets; every `uint32` truncation the code performs is written out as
`% 2^32`).  Bit tests of the Go code (`& 0x00800000`, `& 0xFF800000`, `|`,
`<<`, `>>`) are written arithmetically (`/ 2^23 % 2`, `/ 2^23`, `+`, `*`, `/`);
the correspondence run compares the result with the real functions.

Modelled as the code is, including:
* `SetCompact` aliases `u` and `nWord`, so the negative / overflow flags are
  computed on the *shifted* value (stricter than Bitcoin's: any non-zero value
  with size > 32 overflows);
* `GetCompact` lets `nSize = 256` through and then loses it in `uint32(nSize) << 24`;
* `refreshDifficulty` reads the target bits of the *grand-parent* of the block
  being checked (`preBlock` of the block named by `tipHash`);
* `big.Int.Div` by zero panics (`expectedTimeSpan = 0` when `adjustHeightGap = 1`).
Out of the model: `int32` wrap-around of the time spans.
-/
namespace XV.Pow

/-- `big.Int.BitLen` -/
def bitLen (n : Nat) : Nat := if n = 0 then 0 else Nat.log2 n + 1

/-- `(number.BitLen() + 7) / 8` -/
def byteLen (n : Nat) : Nat := (bitLen n + 7) / 8

/-- `GetCompact(number)` → `(nCompact, ok)` -/
def getCompact (n : Nat) : Nat × Bool :=
  let nSize := byteLen n
  let low64 := n % 2 ^ 64
  let c0 :=
    if nSize ≤ 3 then (low64 * 2 ^ (8 * (3 - nSize))) % 2 ^ 64 % 2 ^ 32
    else (n / 2 ^ (8 * (nSize - 3))) % 2 ^ 64 % 2 ^ 32
  let sign := c0 / 2 ^ 23 % 2 = 1
  let c1 := if sign then c0 / 2 ^ 8 else c0
  let nSize1 := if sign then nSize + 1 else nSize
  if c1 / 2 ^ 23 ≠ 0 ∨ nSize1 > 256 then (0, false)
  else (c1 + (nSize1 * 2 ^ 24) % 2 ^ 32, true)

/-- `SetCompact(nCompact)` → `(value, negative, overflow)`; `c < 2^32`. -/
def setCompact (c : Nat) : Nat × Bool × Bool :=
  let nSize := c / 2 ^ 24
  let m := c % 2 ^ 23
  let u := if nSize ≤ 3 then m / 2 ^ (8 * (3 - nSize)) else m * 2 ^ (8 * (nSize - 3))
  let neg := decide (u ≠ 0) && decide (c / 2 ^ 23 % 2 = 1)
  let ovf := decide (u ≠ 0) &&
    (decide (nSize > 34) || (decide (u > 0xff) && decide (nSize > 33)) || (decide (u > 0xffff) && decide (nSize > 32)))
  (u, neg, ovf)

/-- the value denoted by a compact encoding -/
def target (c : Nat) : Nat := (setCompact c).1

/-- `IsProofed(blockID, targetBits)`; `bitcoin` = `pow.bitcoinFlag`, `maxDiff` = `pow.maxDifficulty`,
`hash` = the block id read as a big-endian number.  Legacy branch requires `bits ≤ 256`. -/
def isProofed (bitcoin : Bool) (maxDiff hash bits : Nat) : Bool :=
  if bitcoin then
    let (d, neg, ovf) := setCompact bits
    if neg || ovf || decide (d < maxDiff) then false
    else if hash > d then false else true
  else
    if hash > 2 ^ (256 - bits) then false else true

structure Cfg where
  defaultTarget : Nat
  gap : Int            -- AdjustHeightGap
  expectedPeriod : Int -- ExpectedPeriodMilSec
  maxTarget : Nat
deriving Repr

def Cfg.bitcoin (c : Cfg) : Bool := decide (c.defaultTarget > 256)

/-- `pow.maxDifficulty` as set by `NewPoWConsensus` -/
def Cfg.maxDiff (c : Cfg) : Nat := if c.bitcoin then target c.maxTarget else c.maxTarget

/-- a stored block as the plugin sees it: parsed `targetBits` (`none` = storage does not parse), timestamp (ns) -/
structure Blk where
  bits : Option Nat
  ts : Int
deriving Repr

inductive Res (α : Type) where
  | ok (a : α) | err | panic
deriving Repr, DecidableEq

/-- the clamp of `refreshDifficulty`: `actual` limited to `[expected/4, expected*4]` (Go int division) -/
def clampSpan (expected actual : Int) : Int :=
  let a := if actual < Int.tdiv expected 4 then Int.tdiv expected 4 else actual
  if a > expected * 4 then expected * 4 else a

/-- the arithmetic of the bitcoin branch on the decoded target: `old * span / expected` (`big.Int.Div`, Euclidean) -/
def scaleTarget (old : Nat) (span expected : Int) : Int := ((old : Int) * span) / expected

/-- walk `k` parents up from index `i` of a chain stored oldest-first (parent of `i` is `i-1`) -/
def walkBack (i k : Nat) : Option Nat := if k ≤ i then some (i - k) else none

/-- `refreshDifficulty(tipHash, nextHeight)`.  `chain` is the ledger (oldest first, block `i+1` has
pre-hash = id of block `i`, block 0 has an unknown pre-hash); `tip` = index of the block named by
`tipHash` (`none`: unknown hash). -/
def refreshDifficulty (c : Cfg) (chain : Array Blk) (tip : Option Nat) (nextHeight : Int) : Res Nat :=
  if c.gap = 0 then .panic else   -- `nextHeight % 0`
  if nextHeight ≤ c.gap then .ok c.defaultTarget else
  match tip.bind (fun i => chain[i]?.map (fun _ => i)) with
  | none => .ok c.defaultTarget
  | some ti =>
    match walkBack ti 1 with
    | none => .ok c.defaultTarget
    | some pi =>
      match chain[pi]? with
      | none => .ok c.defaultTarget
      | some pre =>
        match pre.bits with
        | none => .err
        | some prevBits =>
          if Int.tmod nextHeight c.gap ≠ 0 then .ok prevBits else
          match walkBack pi (c.gap - 1).toNat with
          | none => .ok c.defaultTarget
          | some fi =>
            match chain[fi]? with
            | none => .ok c.defaultTarget
            | some far =>
              let expected := c.expectedPeriod * (c.gap - 1)
              let actual := clampSpan expected (Int.tdiv (pre.ts - far.ts) 1000000000)
              if c.bitcoin then
                if expected = 0 then .panic else
                let d := scaleTarget (target prevBits) actual expected
                if d < (c.maxDiff : Int) then .ok c.maxTarget else
                match getCompact d.toNat with
                | (_, false) => .ok prevBits
                | (nb, true) => .ok nb
              else
                if actual = 0 then .panic else
                let d := ((2 ^ prevBits : Nat) : Int) * expected / actual
                -- uint32(difficulty.BitLen() - 1)
                let nb : Int := (bitLen d.natAbs : Int) - 1
                let nb := (nb % 4294967296).toNat
                .ok (if nb > c.maxTarget then c.maxTarget else nb)

inductive Verdict where
  | accept | reject | panic
deriving Repr, DecidableEq

/-- a candidate block as `CheckMinerMatch` sees it -/
structure Cand where
  height : Int
  parent : Option Nat   -- index of the block named by PreHash, if the ledger has it
  bits : Option Nat     -- parsed consensus storage
  ts : Int
  hash : Nat            -- block id as a number
  idOk : Bool           -- MakeBlockId() == GetBlockid()
  keyOk : Bool          -- public key parses and hashes to the proposer address
  sigOk : Bool          -- ECDSA verifies over the block id
deriving Repr

/-- `PoWConsensus.CheckMinerMatch` -/
def checkMinerMatch (c : Cfg) (chain : Array Blk) (b : Cand) : Verdict :=
  match b.bits with
  | none => .reject
  | some bits =>
    if !isProofed c.bitcoin c.maxDiff b.hash bits then .reject else
    if !b.idOk then .reject else
    match refreshDifficulty c chain b.parent b.height with
    | .panic => .panic
    | .err => .reject
    | .ok tb =>
      if tb ≠ bits then .reject else
      match b.parent.bind (fun i => chain[i]?) with
      | none => .reject
      | some pre =>
        if b.ts < pre.ts then .reject else
        if !isProofed c.bitcoin c.maxDiff b.hash tb then .reject else
        if !b.keyOk then .reject else
        if b.sigOk then .accept else .reject

/-! ### ledgers with side branches

The ledger is a block *tree*: every stored block names its parent by hash.  `refreshDifficulty` and
`CheckMinerMatch` reach the ancestors of a candidate with `QueryBlock(GetPreHash())` only, never by
height, so the model walks parent pointers and has no notion of "main chain" at all. -/

/-- a stored block of a ledger with branches: `par` = index of the block its pre-hash names (`none`: the
ledger does not have it).  Blocks are listed parents first, a pointer that does not point backwards is
treated as unknown. -/
structure TBlk where
  bits : Option Nat
  ts : Int
  par : Option Nat
deriving Repr

def TBlk.blk (b : TBlk) : Blk := ⟨b.bits, b.ts⟩

/-- `Ledger.QueryBlock(block.GetPreHash())` as an index -/
def parentOf (t : Array TBlk) (i : Nat) : Option Nat :=
  match t[i]? with
  | none => none
  | some b =>
    match b.par with
    | none => none
    | some p => if p < i then some p else none

/-- `k` times `QueryBlock(GetPreHash())` starting from block `i` -/
def walkUp (t : Array TBlk) : Nat → Nat → Option Nat
  | i, 0 => some i
  | i, k + 1 => (parentOf t i).bind (fun p => walkUp t p k)

/-- the arithmetic of the retarget step once `preBlock` (target bits `prevBits`) and `farBlock` are found -/
def retarget (c : Cfg) (prevBits : Nat) (pre far : Blk) : Res Nat :=
  let expected := c.expectedPeriod * (c.gap - 1)
  let actual := clampSpan expected (Int.tdiv (pre.ts - far.ts) 1000000000)
  if c.bitcoin then
    if expected = 0 then .panic else
    let d := scaleTarget (target prevBits) actual expected
    if d < (c.maxDiff : Int) then .ok c.maxTarget else
    match getCompact d.toNat with
    | (_, false) => .ok prevBits
    | (nb, true) => .ok nb
  else
    if actual = 0 then .panic else
    let d := ((2 ^ prevBits : Nat) : Int) * expected / actual
    let nb : Int := (bitLen d.natAbs : Int) - 1
    let nb := (nb % 4294967296).toNat
    .ok (if nb > c.maxTarget then c.maxTarget else nb)

/-- `refreshDifficulty` given what the two look-ups found: `pre` = the block before the one named by
`tipHash` (`none`: one of the two `QueryBlock`s failed), `far` = the block `gap - 1` parents further up. -/
def refreshWith (c : Cfg) (nextHeight : Int) (pre far : Option Blk) : Res Nat :=
  if c.gap = 0 then .panic else
  if nextHeight ≤ c.gap then .ok c.defaultTarget else
  match pre with
  | none => .ok c.defaultTarget
  | some pre =>
    match pre.bits with
    | none => .err
    | some prevBits =>
      if Int.tmod nextHeight c.gap ≠ 0 then .ok prevBits else
      match far with
      | none => .ok c.defaultTarget
      | some far => retarget c prevBits pre far

/-- block `k` parents above block `i` of the tree -/
def blockUp (t : Array TBlk) (i k : Nat) : Option Blk :=
  (walkUp t i k).bind (fun j => t[j]?.map TBlk.blk)

/-- `refreshDifficulty(tipHash, nextHeight)` on a ledger with branches (`tip` = index of the block named
by `tipHash`) -/
def refreshDifficultyT (c : Cfg) (t : Array TBlk) (tip : Option Nat) (nextHeight : Int) : Res Nat :=
  match tip.bind (fun i => t[i]?.map (fun _ => i)) with
  | none => refreshWith c nextHeight none none
  | some ti => refreshWith c nextHeight (blockUp t ti 1) (blockUp t ti (1 + (c.gap - 1).toNat))

/-- `PoWConsensus.CheckMinerMatch` on a ledger with branches -/
def checkMinerMatchT (c : Cfg) (t : Array TBlk) (b : Cand) : Verdict :=
  match b.bits with
  | none => .reject
  | some bits =>
    if !isProofed c.bitcoin c.maxDiff b.hash bits then .reject else
    if !b.idOk then .reject else
    match refreshDifficultyT c t b.parent b.height with
    | .panic => .panic
    | .err => .reject
    | .ok tb =>
      if tb ≠ bits then .reject else
      match b.parent.bind (fun i => t[i]?) with
      | none => .reject
      | some pre =>
        if b.ts < pre.ts then .reject else
        if !isProofed c.bitcoin c.maxDiff b.hash tb then .reject else
        if !b.keyOk then .reject else
        if b.sigOk then .accept else .reject

end XV.Pow
