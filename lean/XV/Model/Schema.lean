import XV.Gen.TxDigest
/-!
Generic model of the framed (v3) transaction digest encoder of
bcs/ledger/xledger/state/utxo/txhash/encode.go and of the v1/v2 JSON-stream encoder
of txhash.go (C07).  Core Lean only.

`Codec α` is an encoder together with a prefix decoder that undoes it
(`dec (enc a ++ rest) = some (a, rest)`); the framing primitives of `encoder.Encode`
(8-byte big-endian integers, length-prefixed byte strings, counted loops, counted sorted
maps) are codecs and codecs compose, so *every* encoder assembled from them is injective
(`Codec.inj`).  `txV3 signs` is the encoder assembled in the order of the write calls of
`txDigestHashV2(tx, includeSigns)`; `modelV3` is that order in the vocabulary of the
extractor and must be equal to the regenerated `XV.Gen.txDigestV3`.
-/
namespace XV.Schema
open XV.Enc

/-! ### codecs -/

structure Codec (α : Type) where
  enc : α → Bytes
  dec : Bytes → Option (α × Bytes)
  valid : α → Prop
  ok : ∀ a rest, valid a → dec (enc a ++ rest) = some (a, rest)

/-- every codec is injective on its valid values -/
theorem Codec.inj {α : Type} (c : Codec α) (a b : α) (ha : c.valid a) (hb : c.valid b) (h : c.enc a = c.enc b) : a = b := by
  have h1 := c.ok a [] ha
  have h2 := c.ok b [] hb
  rw [h] at h1
  rw [h1] at h2
  cases h2
  rfl

/-- …and prefix-free: one encoding followed by anything decodes to one value only -/
theorem Codec.prefix_inj {α : Type} (c : Codec α) (a b : α) (r s : Bytes) (ha : c.valid a) (hb : c.valid b)
    (h : c.enc a ++ r = c.enc b ++ s) : a = b ∧ r = s := by
  have h1 := c.ok a r ha
  have h2 := c.ok b s hb
  rw [h] at h1
  rw [h1] at h2
  cases h2
  exact ⟨rfl, rfl⟩

def leNat : Nat → Nat → Bytes
  | 0, _ => []
  | w + 1, n => UInt8.ofNat (n % 256) :: leNat w (n / 256)

def leVal : Bytes → Nat
  | [] => 0
  | b :: r => b.toNat + 256 * leVal r

theorem leNat_length (w n : Nat) : (leNat w n).length = w := by
  induction w generalizing n with
  | zero => rfl
  | succ w ih => simp [leNat, ih]

theorem leVal_leNat (w n : Nat) (h : n < 256 ^ w) : leVal (leNat w n) = n := by
  induction w generalizing n with
  | zero => simp at h; simp [leNat, leVal, h]
  | succ w ih =>
    simp only [leNat, leVal]
    rw [ih (n / 256) (by rw [Nat.pow_succ] at h; omega)]
    simp
    omega

/-- `EncodeInt64` of a non-negative number: 8 bytes big endian -/
def be8 (n : Nat) : Bytes := (leNat 8 n).reverse

def be8Val (b : Bytes) : Nat := leVal b.reverse

theorem be8_length (n : Nat) : (be8 n).length = 8 := by simp [be8, leNat_length]

theorem be8Val_be8 (n : Nat) (h : n < 2 ^ 64) : be8Val (be8 n) = n := by
  simp only [be8, be8Val, List.reverse_reverse]
  exact leVal_leNat 8 n (by simpa using h)

/-- an 8-byte word: the image of an int64 / int32 / int / bool under `EncodeInt64` -/
abbrev W8 := { l : Bytes // l.length = 8 }

def word : Codec W8 where
  enc := fun w => w.val
  dec := fun b => if h : 8 ≤ b.length then some (⟨b.take 8, by simp [List.length_take]; omega⟩, b.drop 8) else none
  valid := fun _ => True
  ok := by
    intro a rest _
    have h : 8 ≤ (a.val ++ rest).length := by simp [a.property]
    simp only [h, dite_true]
    congr 1
    apply Prod.ext
    · apply Subtype.ext; simp [List.take_left' a.property]
    · simp [List.drop_left' a.property]

/-- `EncodeBytes` / `EncodeString`: length as 8 bytes big endian, then the bytes -/
def lenBytes : Codec Bytes where
  enc := fun b => be8 b.length ++ b
  dec := fun b =>
    if 8 ≤ b.length then
      let n := be8Val (b.take 8)
      let r := b.drop 8
      if n ≤ r.length then some (r.take n, r.drop n) else none
    else none
  valid := fun b => b.length < 2 ^ 64
  ok := by
    intro a rest hv
    have h : 8 ≤ (be8 a.length ++ a ++ rest).length := by simp [be8_length]
    simp only [h, if_true]
    have e1 : (be8 a.length ++ a ++ rest).take 8 = be8 a.length := by
      rw [List.append_assoc, List.take_left' (be8_length _)]
    have e2 : (be8 a.length ++ a ++ rest).drop 8 = a ++ rest := by
      rw [List.append_assoc, List.drop_left' (be8_length _)]
    rw [e1, e2, be8Val_be8 _ hv]
    simp

def pair {α β : Type} (c : Codec α) (d : Codec β) : Codec (α × β) where
  enc := fun p => c.enc p.1 ++ d.enc p.2
  dec := fun b => match c.dec b with
    | none => none
    | some (a, r) => match d.dec r with
      | none => none
      | some (x, r') => some ((a, x), r')
  valid := fun p => c.valid p.1 ∧ d.valid p.2
  ok := by
    intro p rest hv
    simp only [List.append_assoc]
    rw [c.ok p.1 _ hv.1]
    simp only
    rw [d.ok p.2 _ hv.2]

/-- decode `n` consecutive elements -/
def decN {α : Type} (c : Codec α) : Nat → Bytes → Option (List α × Bytes)
  | 0, b => some ([], b)
  | n + 1, b => match c.dec b with
    | none => none
    | some (a, r) => match decN c n r with
      | none => none
      | some (as, r') => some (a :: as, r')

theorem decN_ok {α : Type} (c : Codec α) (l : List α) (rest : Bytes) (hv : ∀ x ∈ l, c.valid x) :
    decN c l.length (l.flatMap c.enc ++ rest) = some (l, rest) := by
  induction l with
  | nil => simp [decN]
  | cons a l ih =>
    simp only [List.length_cons, List.flatMap_cons, List.append_assoc, decN]
    rw [c.ok a _ (hv a (by simp))]
    simp only
    rw [ih (fun x hx => hv x (by simp [hx]))]

/-- a counted loop: `enc.Encode(len(xs)); for _, x := range xs { … }` -/
def counted {α : Type} (c : Codec α) : Codec (List α) where
  enc := fun l => be8 l.length ++ l.flatMap c.enc
  dec := fun b => if 8 ≤ b.length then decN c (be8Val (b.take 8)) (b.drop 8) else none
  valid := fun l => l.length < 2 ^ 64 ∧ ∀ x ∈ l, c.valid x
  ok := by
    intro l rest hv
    have h : 8 ≤ (be8 l.length ++ l.flatMap c.enc ++ rest).length := by simp [be8_length]
    simp only [h, if_true]
    have e1 : (be8 l.length ++ l.flatMap c.enc ++ rest).take 8 = be8 l.length := by
      rw [List.append_assoc, List.take_left' (be8_length _)]
    have e2 : (be8 l.length ++ l.flatMap c.enc ++ rest).drop 8 = l.flatMap c.enc ++ rest := by
      rw [List.append_assoc, List.drop_left' (be8_length _)]
    rw [e1, e2, be8Val_be8 _ hv.1]
    exact decN_ok c l rest hv.2

/-- change of representation -/
def iso {α β : Type} (c : Codec α) (f : α → β) (g : β → α) (fg : ∀ b, f (g b) = b) : Codec β where
  enc := fun b => c.enc (g b)
  dec := fun x => (c.dec x).map fun p => (f p.1, p.2)
  valid := fun b => c.valid (g b)
  ok := by
    intro b rest hv
    rw [c.ok (g b) rest hv]
    simp [fg]

/-- `EncodeMap`: counted list of (key, value) in ascending key order (the order is the canonical
form of the Go map: the model value *is* the sorted association list) -/
def lenMap : Codec (List (Bytes × Bytes)) := counted (pair lenBytes lenBytes)

/-! ### the transaction, as far as the digest reads it -/

structure TxInput where
  refTxid : Bytes
  refOffset : W8
  fromAddr : Bytes
  amount : Bytes
  frozenHeight : W8

structure TxOutput where
  amount : Bytes
  toAddr : Bytes
  frozenHeight : W8

structure TxInputExt where
  bucket : Bytes
  key : Bytes
  refTxid : Bytes
  refOffset : W8

structure TxOutputExt where
  bucket : Bytes
  key : Bytes
  value : Bytes

structure Limit where
  type : W8
  limit : W8

structure Request where
  moduleName : Bytes
  contractName : Bytes
  methodName : Bytes
  args : List (Bytes × Bytes)
  limits : List Limit
  amount : Bytes

structure SigInfo where
  publicKey : Bytes
  sign : Bytes

/-- the fields the signing digest covers -/
structure Core where
  inputs : List TxInput
  outputs : List TxOutput
  desc : Bytes
  coinbase : W8
  nonce : Bytes
  timestamp : W8
  version : W8
  autogen : W8
  inputsExt : List TxInputExt
  outputsExt : List TxOutputExt
  requests : List Request
  initiator : Bytes
  authRequire : List Bytes
  hdPublicKey : Bytes
  hdOriginalHash : Bytes

/-- the signature fields: in the id, not in the digest -/
structure Signs where
  initiatorSigns : List SigInfo
  authRequireSigns : List SigInfo
  xuperPublicKeys : List Bytes
  xuperSignature : Bytes

structure Tx where
  core : Core
  signs : Signs

def cInput : Codec TxInput :=
  iso (pair lenBytes (pair word (pair lenBytes (pair lenBytes word))))
    (fun p => ⟨p.1, p.2.1, p.2.2.1, p.2.2.2.1, p.2.2.2.2⟩)
    (fun i => (i.refTxid, i.refOffset, i.fromAddr, i.amount, i.frozenHeight)) (fun _ => rfl)

def cOutput : Codec TxOutput :=
  iso (pair lenBytes (pair lenBytes word)) (fun p => ⟨p.1, p.2.1, p.2.2⟩)
    (fun o => (o.amount, o.toAddr, o.frozenHeight)) (fun _ => rfl)

def cInputExt : Codec TxInputExt :=
  iso (pair lenBytes (pair lenBytes (pair lenBytes word))) (fun p => ⟨p.1, p.2.1, p.2.2.1, p.2.2.2⟩)
    (fun i => (i.bucket, i.key, i.refTxid, i.refOffset)) (fun _ => rfl)

def cOutputExt : Codec TxOutputExt :=
  iso (pair lenBytes (pair lenBytes lenBytes)) (fun p => ⟨p.1, p.2.1, p.2.2⟩)
    (fun o => (o.bucket, o.key, o.value)) (fun _ => rfl)

def cLimit : Codec Limit :=
  iso (pair word word) (fun p => ⟨p.1, p.2⟩) (fun l => (l.type, l.limit)) (fun _ => rfl)

def cRequest : Codec Request :=
  iso (pair lenBytes (pair lenBytes (pair lenBytes (pair lenMap (pair (counted cLimit) lenBytes)))))
    (fun p => ⟨p.1, p.2.1, p.2.2.1, p.2.2.2.1, p.2.2.2.2.1, p.2.2.2.2.2⟩)
    (fun r => (r.moduleName, r.contractName, r.methodName, r.args, r.limits, r.amount)) (fun _ => rfl)

def cSig : Codec SigInfo :=
  iso (pair lenBytes lenBytes) (fun p => ⟨p.1, p.2⟩) (fun s => (s.publicKey, s.sign)) (fun _ => rfl)

/-- the part written before the signatures -/
def cHead : Codec (List TxInput × List TxOutput × Bytes × W8 × Bytes × W8 × W8 × W8 × List TxInputExt ×
    List TxOutputExt × List Request × Bytes × List Bytes) :=
  pair (counted cInput) (pair (counted cOutput) (pair lenBytes (pair word (pair lenBytes (pair word (pair word (pair word
    (pair (counted cInputExt) (pair (counted cOutputExt) (pair (counted cRequest) (pair lenBytes (counted lenBytes))))))))))))

def cSigns : Codec Signs :=
  iso (pair (counted cSig) (pair (counted cSig) (pair (counted lenBytes) lenBytes)))
    (fun p => ⟨p.1, p.2.1, p.2.2.1, p.2.2.2⟩)
    (fun s => (s.initiatorSigns, s.authRequireSigns, s.xuperPublicKeys, s.xuperSignature)) (fun _ => rfl)

def cTail : Codec (Bytes × Bytes) := pair lenBytes lenBytes

def headOf (c : Core) := (c.inputs, c.outputs, c.desc, c.coinbase, c.nonce, c.timestamp, c.version, c.autogen, c.inputsExt,
  c.outputsExt, c.requests, c.initiator, c.authRequire)

/-- `txDigestHashV2(tx, false)`: the signing digest pre-image -/
def cDigest : Codec Core :=
  iso (pair cHead cTail)
    (fun p => ⟨p.1.1, p.1.2.1, p.1.2.2.1, p.1.2.2.2.1, p.1.2.2.2.2.1, p.1.2.2.2.2.2.1, p.1.2.2.2.2.2.2.1, p.1.2.2.2.2.2.2.2.1,
      p.1.2.2.2.2.2.2.2.2.1, p.1.2.2.2.2.2.2.2.2.2.1, p.1.2.2.2.2.2.2.2.2.2.2.1, p.1.2.2.2.2.2.2.2.2.2.2.2.1,
      p.1.2.2.2.2.2.2.2.2.2.2.2.2, p.2.1, p.2.2⟩)
    (fun c => (headOf c, (c.hdPublicKey, c.hdOriginalHash))) (fun _ => rfl)

/-- `txDigestHashV2(tx, true)`: the transaction id pre-image (signatures between head and HD info) -/
def cId : Codec Tx :=
  iso (pair cHead (pair cSigns cTail))
    (fun p => ⟨⟨p.1.1, p.1.2.1, p.1.2.2.1, p.1.2.2.2.1, p.1.2.2.2.2.1, p.1.2.2.2.2.2.1, p.1.2.2.2.2.2.2.1, p.1.2.2.2.2.2.2.2.1,
      p.1.2.2.2.2.2.2.2.2.1, p.1.2.2.2.2.2.2.2.2.2.1, p.1.2.2.2.2.2.2.2.2.2.2.1, p.1.2.2.2.2.2.2.2.2.2.2.2.1,
      p.1.2.2.2.2.2.2.2.2.2.2.2.2, p.2.2.1, p.2.2.2⟩, p.2.1⟩)
    (fun t => (headOf t.core, t.signs, (t.core.hdPublicKey, t.core.hdOriginalHash))) (fun _ => rfl)

def digestPre (t : Tx) : Bytes := cDigest.enc t.core
def idPre (t : Tx) : Bytes := cId.enc t

/-- the order of write calls `cDigest` / `cId` implement, in the vocabulary of the extractor -/
def modelV3 : List Item := [
  ⟨"TxInputs", .count, [], []⟩,
  ⟨"TxInputs[].RefTxid", .lenBytes, [], ["TxInputs"]⟩,
  ⟨"TxInputs[].RefOffset", .i64, [], ["TxInputs"]⟩,
  ⟨"TxInputs[].FromAddr", .lenBytes, [], ["TxInputs"]⟩,
  ⟨"TxInputs[].Amount", .lenBytes, [], ["TxInputs"]⟩,
  ⟨"TxInputs[].FrozenHeight", .i64, [], ["TxInputs"]⟩,
  ⟨"TxOutputs", .count, [], []⟩,
  ⟨"TxOutputs[].Amount", .lenBytes, [], ["TxOutputs"]⟩,
  ⟨"TxOutputs[].ToAddr", .lenBytes, [], ["TxOutputs"]⟩,
  ⟨"TxOutputs[].FrozenHeight", .i64, [], ["TxOutputs"]⟩,
  ⟨"Desc", .lenBytes, [], []⟩,
  ⟨"Coinbase", .i64, [], []⟩,
  ⟨"Nonce", .lenBytes, [], []⟩,
  ⟨"Timestamp", .i64, [], []⟩,
  ⟨"Version", .i64, [], []⟩,
  ⟨"Autogen", .i64, [], []⟩,
  ⟨"TxInputsExt", .count, [], []⟩,
  ⟨"TxInputsExt[].Bucket", .lenBytes, [], ["TxInputsExt"]⟩,
  ⟨"TxInputsExt[].Key", .lenBytes, [], ["TxInputsExt"]⟩,
  ⟨"TxInputsExt[].RefTxid", .lenBytes, [], ["TxInputsExt"]⟩,
  ⟨"TxInputsExt[].RefOffset", .i64, [], ["TxInputsExt"]⟩,
  ⟨"TxOutputsExt", .count, [], []⟩,
  ⟨"TxOutputsExt[].Bucket", .lenBytes, [], ["TxOutputsExt"]⟩,
  ⟨"TxOutputsExt[].Key", .lenBytes, [], ["TxOutputsExt"]⟩,
  ⟨"TxOutputsExt[].Value", .lenBytes, [], ["TxOutputsExt"]⟩,
  ⟨"ContractRequests", .count, [], []⟩,
  ⟨"ContractRequests[].ModuleName", .lenBytes, [], ["ContractRequests"]⟩,
  ⟨"ContractRequests[].ContractName", .lenBytes, [], ["ContractRequests"]⟩,
  ⟨"ContractRequests[].MethodName", .lenBytes, [], ["ContractRequests"]⟩,
  ⟨"ContractRequests[].Args", .lenMap, [], ["ContractRequests"]⟩,
  ⟨"ContractRequests[].ResourceLimits", .count, [], ["ContractRequests"]⟩,
  ⟨"ContractRequests[].ResourceLimits[].Type", .i64, [], ["ContractRequests", "ContractRequests[].ResourceLimits"]⟩,
  ⟨"ContractRequests[].ResourceLimits[].Limit", .i64, [], ["ContractRequests", "ContractRequests[].ResourceLimits"]⟩,
  ⟨"ContractRequests[].Amount", .lenBytes, [], ["ContractRequests"]⟩,
  ⟨"Initiator", .lenBytes, [], []⟩,
  ⟨"AuthRequire", .count, [], []⟩,
  ⟨"AuthRequire[]", .lenBytes, [], ["AuthRequire"]⟩,
  ⟨"InitiatorSigns", .count, ["includeSigns"], []⟩,
  ⟨"InitiatorSigns[].PublicKey", .lenBytes, ["includeSigns"], ["InitiatorSigns"]⟩,
  ⟨"InitiatorSigns[].Sign", .lenBytes, ["includeSigns"], ["InitiatorSigns"]⟩,
  ⟨"AuthRequireSigns", .count, ["includeSigns"], []⟩,
  ⟨"AuthRequireSigns[].PublicKey", .lenBytes, ["includeSigns"], ["AuthRequireSigns"]⟩,
  ⟨"AuthRequireSigns[].Sign", .lenBytes, ["includeSigns"], ["AuthRequireSigns"]⟩,
  ⟨"XuperSign.PublicKeys", .count, ["includeSigns"], []⟩,
  ⟨"XuperSign.PublicKeys[]", .lenBytes, ["includeSigns"], ["XuperSign.PublicKeys"]⟩,
  ⟨"XuperSign.Signature", .lenBytes, ["includeSigns"], []⟩,
  ⟨"HDInfo.HdPublicKey", .lenBytes, [], []⟩,
  ⟨"HDInfo.OriginalHash", .lenBytes, [], []⟩
]

/-! ### decidable well-delimitedness of an extracted schema -/

def framedKind : Kind → Bool
  | .i64 | .lenBytes | .count | .lenMap => true
  | _ => false

/-- every loop that occurs as the innermost loop of an item is opened by a `count` item of that
path standing before the loop's first item, with the same guards -/
def loopsCounted (s : List Item) : Bool :=
  let rec go (seen : List (String × List String)) : List Item → Bool
    | [] => true
    | it :: rest =>
      let okLoop := match it.loops.getLast? with
        | none => true
        | some l => seen.contains (l, it.conds)
      let seen' := if it.kind == Kind.count then
          -- a count item names the container; nested containers are spelled "<outer>[].<field>"
          (it.path, it.conds) :: seen else seen
      okLoop && go seen' rest
  go [] s

/-- `WellDelimited`: every value is framed (fixed width or length prefixed), every loop is
counted, and the only guard is the `includeSigns` flag (no value-dependent omission) -/
def wellDelimited (s : List Item) : Bool :=
  s.all (fun i => framedKind i.kind && i.conds.all (· == "includeSigns")) && loopsCounted s

/-- the items written for the signing digest (`includeSigns = false`) -/
def digestItems (s : List Item) : List Item := s.filter (fun i => !i.conds.contains "includeSigns")

/-- message fields deliberately outside the signing digest -/
def excludedFromDigest : List String :=
  ["Txid", "Blockid", "InitiatorSigns[].PublicKey", "InitiatorSigns[].Sign", "AuthRequireSigns[].PublicKey",
   "AuthRequireSigns[].Sign", "XuperSign.PublicKeys[]", "XuperSign.Signature", "ReceivedTimestamp",
   "ModifyBlock.EffectiveTxid", "ModifyBlock.Marked", "ModifyBlock.EffectiveHeight", "ModifyBlock.PublicKey", "ModifyBlock.Sign"]

/-- …and outside the id (the id additionally covers the signatures) -/
def excludedFromId : List String :=
  ["Txid", "Blockid", "ReceivedTimestamp",
   "ModifyBlock.EffectiveTxid", "ModifyBlock.Marked", "ModifyBlock.EffectiveHeight", "ModifyBlock.PublicKey", "ModifyBlock.Sign"]

def semanticFields (all excluded : List String) : List String := all.filter (fun f => !excluded.contains f)

/-! ### the v1/v2 JSON stream, abstractly -/

/-- one `json.Encoder.Encode` call writes one self-delimiting token; which *field* a token
belongs to is not written -/
inductive Tok where
  | bytes (b : Bytes)      -- a []byte (base64 string token)
  | num (n : Int)          -- an integer field
  | str (s : Bytes)        -- a string field
  | val (tag : Nat) (v : Bytes)  -- any other JSON value (arrays / objects / bools), opaque
deriving DecidableEq, Repr

structure In1 where
  refTxid : Bytes
  refOffset : Int
  fromAddr : Bytes
  amount : Bytes
  frozenHeight : Int
deriving DecidableEq, Repr

/-- `encodeTxData` over the inputs: empty byte fields are skipped without a placeholder -/
def in1Toks (i : In1) : List Tok :=
  (if i.refTxid.isEmpty then [] else [Tok.bytes i.refTxid]) ++ [Tok.num i.refOffset] ++
  (if i.fromAddr.isEmpty then [] else [Tok.bytes i.fromAddr]) ++
  (if i.amount.isEmpty then [] else [Tok.bytes i.amount]) ++ [Tok.num i.frozenHeight]

/-- the stream for a transaction with the given inputs; `rest` are the tokens of all other fields -/
def v1Stream (inputs : List In1) (rest : List Tok) : List Tok := inputs.flatMap in1Toks ++ rest

end XV.Schema
