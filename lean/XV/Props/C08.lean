import XV.Model.Merkle
/-!
C08 — block integrity: id, merkle root and proposer signature bind header and body.

Cryptographic idealisations enter only as hypotheses:
* "no collision among the inputs hashed here" (`NoCollisionOn H S`) — never global injectivity
  of a fixed-width hash, which no function satisfies;
* `(H x).length = w` for the leaves' width `w` (SHA-256: 32);
* the address binds one key (`addrOk a k → addrOk a k' → k = k'`); signatures made with another
  key do not verify (`verify k (signWith k' m) m = false` for `k ≠ k'`).
-/
namespace XV.C08
open XV.Enc XV.Merkle

/-! ## the regenerated schema -/

/-- The sequence of write calls extracted from today's `MakeBlockID` (with `encodeFailedTxs`,
`encodeJustify`) is exactly the one `Merkle.segments` implements: dropping, reordering,
re-typing or un-guarding a field in the Go source changes `Gen.blockIdSchema` and breaks this. -/
theorem gen_schema_is_model : XV.Gen.blockIdSchema = modelSchema := by decide

/-- Every header field the property names is written into the id pre-image. -/
theorem blockid_covers : covers XV.Gen.blockIdSchema requiredFields = true := by decide

/-- …and every field of the `InternalBlock` message is either hashed or on the explicit list of
fields outside the id (so a field added to the message must be classified). -/
theorem blockid_fields_classified :
    XV.Gen.blockFields.all (fun f => (paths XV.Gen.blockIdSchema).contains f || unhashedFields.contains f
      || f == "Justify.SignInfos") = true := by decide

/-- The id is the double SHA-256 of the pre-image. -/
theorem blockid_hash_fn : XV.Gen.blockIdHash = "hash.DoubleSha256" := by decide

/-! ## leaf padding -/

private theorem nextPow2Aux_spec (f p n : Nat) (hp : ∃ k, p = 2 ^ k) (hlt : p < 2 * n)
    (hfuel : n ≤ p * 2 ^ f) :
    (∃ k, nextPow2Aux f p n = 2 ^ k) ∧ n ≤ nextPow2Aux f p n ∧ nextPow2Aux f p n < 2 * n := by
  induction f generalizing p with
  | zero => simp at hfuel; simp [nextPow2Aux]; exact ⟨hp, hfuel, hlt⟩
  | succ f ih =>
    unfold nextPow2Aux
    by_cases h : n ≤ p
    · simp [h]; exact ⟨hp, hlt⟩
    · simp [h]
      obtain ⟨k, hk⟩ := hp
      apply ih
      · exact ⟨k + 1, by rw [hk, Nat.pow_succ]; omega⟩
      · omega
      · rw [Nat.pow_succ] at hfuel
        calc n ≤ p * (2 ^ f * 2) := hfuel
          _ = 2 * p * 2 ^ f := by rw [Nat.mul_comm (2 ^ f) 2, ← Nat.mul_assoc, Nat.mul_comm p 2]

/-- `getLeafSize` (modelled on `Nat` instead of `math.Log2` on floats): for every `n ≥ 1` the
number of leaves is a power of two, at least `n` and less than `2n` — the next power of two. -/
theorem merkle_leafsize (n : Nat) (hn : 1 ≤ n) :
    (∃ k, leafSize n = 2 ^ k) ∧ n ≤ leafSize n ∧ leafSize n < 2 * n := by
  unfold leafSize
  have h0 : ¬ n = 0 := by omega
  simp only [h0, if_false]
  apply nextPow2Aux_spec
  · exact ⟨0, rfl⟩
  · omega
  · have := @Nat.lt_two_pow_self n
    omega

/-- the next power of two is unique, so `merkle_leafsize` determines `leafSize` -/
theorem leafsize_unique (n a b j k : Nat) (ha : a = 2 ^ j) (hb : b = 2 ^ k)
    (h1 : n ≤ a) (h2 : a < 2 * n) (h3 : n ≤ b) (h4 : b < 2 * n) : a = b := by
  subst ha hb
  rcases Nat.lt_trichotomy j k with h | h | h
  · have : 2 ^ (j + 1) ≤ 2 ^ k := Nat.pow_le_pow_right (by omega) h
    rw [Nat.pow_succ] at this; omega
  · rw [h]
  · have : 2 ^ (k + 1) ≤ 2 ^ j := Nat.pow_le_pow_right (by omega) h
    rw [Nat.pow_succ] at this; omega

/-! ## the merkle root binds the ordered list -/

/-- no two different inputs of `S` have the same hash -/
def NoCollisionOn (H : Bytes → Bytes) (S : List Bytes) : Prop :=
  ∀ x ∈ S, ∀ y ∈ S, H x = H y → x = y

instance (H : Bytes → Bytes) (S : List Bytes) : Decidable (NoCollisionOn H S) := by
  unfold NoCollisionOn; infer_instance

private theorem pairInputs_length (xs : List Bytes) : (pairInputs xs).length = (xs.length + 1) / 2 := by
  induction xs using pairInputs.induct with
  | case1 => rfl
  | case2 x => simp [pairInputs]
  | case3 x y rest ih => simp [pairInputs, ih]; omega

private theorem pairInputs_inj (w : Nat) (xs ys : List Bytes) (hlen : xs.length = ys.length)
    (hx : ∀ x ∈ xs, x.length = w) (hy : ∀ y ∈ ys, y.length = w)
    (h : pairInputs xs = pairInputs ys) : xs = ys := by
  induction xs using pairInputs.induct generalizing ys with
  | case1 => cases ys with
    | nil => rfl
    | cons y ys => simp at hlen
  | case2 x =>
    match ys, hlen with
    | [y], _ =>
      simp [pairInputs] at h
      have hl : x.length = y.length := by rw [hx x (by simp), hy y (by simp)]
      have := (List.append_inj h hl).1
      rw [this]
  | case3 x x' rest ih =>
    match ys, hlen with
    | y :: y' :: rest', hlen =>
      simp [pairInputs] at h
      have hl : x.length = y.length := by rw [hx x (by simp), hy y (by simp)]
      obtain ⟨e1, e2⟩ := List.append_inj h.1 hl
      have hr : rest = rest' := by
        apply ih rest' (by simpa using hlen)
        · intro z hz; exact hx z (by simp [hz])
        · intro z hz; exact hy z (by simp [hz])
        · exact h.2
      rw [e1, e2, hr]

private theorem map_inj_on (H : Bytes → Bytes) (as bs : List Bytes) (S : List Bytes) (hnc : NoCollisionOn H S)
    (ha : ∀ a ∈ as, a ∈ S) (hb : ∀ b ∈ bs, b ∈ S) (h : as.map H = bs.map H) : as = bs := by
  induction as generalizing bs with
  | nil => cases bs with
    | nil => rfl
    | cons b bs => simp at h
  | cons a as ih =>
    cases bs with
    | nil => simp at h
    | cons b bs =>
      simp at h
      have e : a = b := hnc a (ha a (by simp)) b (hb b (by simp)) h.1
      have r : as = bs := ih bs (fun x hx => ha x (by simp [hx])) (fun x hx => hb x (by simp [hx])) h.2
      rw [e, r]

private theorem pairUp_width (H : Bytes → Bytes) (w : Nat) (hH : ∀ x, (H x).length = w) (xs : List Bytes) :
    ∀ z ∈ pairUp H xs, z.length = w := by
  intro z hz
  unfold pairUp at hz
  obtain ⟨a, _, rfl⟩ := List.mem_map.mp hz
  exact hH a

private theorem pairUp_length (H : Bytes → Bytes) (xs : List Bytes) : (pairUp H xs).length = (xs.length + 1) / 2 := by
  simp [pairUp, pairInputs_length]

private theorem rootAux_binds (H : Bytes → Bytes) (w : Nat) (hH : ∀ x, (H x).length = w) (f : Nat) :
    ∀ (xs ys : List Bytes), xs.length = ys.length → (∀ x ∈ xs, x.length = w) → (∀ y ∈ ys, y.length = w) →
      NoCollisionOn H (hashedAux H f xs ++ hashedAux H f ys) →
      xs.length ≤ f + 1 →
      rootAux H f xs = rootAux H f ys → xs = ys := by
  induction f with
  | zero =>
    intro xs ys hlen _ _ _ hf h
    simp [rootAux] at h
    match xs, ys, hlen, hf with
    | [], [], _, _ => rfl
    | [x], [y], _, _ => simp at h; rw [h]
  | succ f ih =>
    intro xs ys hlen hx hy hnc hf h
    unfold rootAux at h
    by_cases h1 : xs.length ≤ 1
    · have h1' : ys.length ≤ 1 := by omega
      simp [h1, h1'] at h
      match xs, ys, hlen, h1 with
      | [], [], _, _ => rfl
      | [x], [y], _, _ => simp at h; rw [h]
    · have h1' : ¬ ys.length ≤ 1 := by omega
      simp only [h1, h1', if_false] at h
      unfold hashedAux at hnc
      simp only [h1, h1', if_false] at hnc
      have hup : pairUp H xs = pairUp H ys := by
        apply ih
        · simp [pairUp_length, hlen]
        · exact pairUp_width H w hH xs
        · exact pairUp_width H w hH ys
        · intro a ha b hb hab
          apply hnc a _ b _ hab
          · simp only [List.mem_append] at ha ⊢; rcases ha with ha | ha
            · exact Or.inl (Or.inr ha)
            · exact Or.inr (Or.inr ha)
          · simp only [List.mem_append] at hb ⊢; rcases hb with hb | hb
            · exact Or.inl (Or.inr hb)
            · exact Or.inr (Or.inr hb)
        · rw [pairUp_length]; omega
        · exact h
      have hin : pairInputs xs = pairInputs ys := by
        apply map_inj_on H _ _ _ hnc
        · intro a ha; simp only [List.mem_append]; exact Or.inl (Or.inl ha)
        · intro a ha; simp only [List.mem_append]; exact Or.inr (Or.inl ha)
        · exact hup
      exact pairInputs_inj w xs ys hlen hx hy hin

/-- **The merkle root binds the ordered transaction list.**  Two lists of the same length, of
leaves of the width of a hash, with the same root are equal — unless the two tree computations
contain a hash collision.  (Equal length cannot be dropped: `[a,b,c]` and `[a,b,c,c]` have the
same root, see `merkle_needs_equal_length`; `verifyBlock` gets it from `TxCount`, which is
hashed into the id.) -/
theorem merkle_binds (H : Bytes → Bytes) (w : Nat) (hH : ∀ x, (H x).length = w) (xs ys : List Bytes)
    (hlen : xs.length = ys.length) (hx : ∀ x ∈ xs, x.length = w) (hy : ∀ y ∈ ys, y.length = w)
    (hnc : NoCollisionOn H (hashed H xs ++ hashed H ys))
    (h : merkleRoot H xs = merkleRoot H ys) : xs = ys := by
  unfold merkleRoot at h
  unfold hashed at hnc
  rw [← hlen] at h hnc
  exact rootAux_binds H w hH xs.length xs ys hlen hx hy hnc (by omega) h

/-- Without the length the root does not bind the list (the odd last node is paired with
itself): for every hash function, `[a,b,c]` and `[a,b,c,c]` have the same root. -/
theorem merkle_needs_equal_length (H : Bytes → Bytes) (a b c : Bytes) :
    merkleRoot H [a, b, c] = merkleRoot H [a, b, c, c] := by
  simp [merkleRoot, rootAux, pairUp, pairInputs]

/-- Without the width the root does not bind the list either (nodes hash the plain concatenation
of their children): moving bytes across a leaf boundary keeps the root. -/
theorem merkle_needs_equal_width (H : Bytes → Bytes) (x y z : Bytes) :
    merkleRoot H [x ++ y, z] = merkleRoot H [x, y ++ z] := by
  simp [merkleRoot, rootAux, pairUp, pairInputs]

/-! ## the id pre-image -/

private theorem leNat_length (w n : Nat) : (leNat w n).length = w := by
  induction w generalizing n with
  | zero => rfl
  | succ w ih => simp [leNat, ih]

theorem le_length (w : Nat) (i : Int) : (le w i).length = w := leNat_length _ _

private theorem leNat_inj (w a b : Nat) (ha : a < 256 ^ w) (hb : b < 256 ^ w) (h : leNat w a = leNat w b) : a = b := by
  induction w generalizing a b with
  | zero => simp at ha hb; omega
  | succ w ih =>
    simp only [leNat, List.cons.injEq] at h
    have h1 : a % 256 = b % 256 := by
      have := congrArg UInt8.toNat h.1
      simp at this
      omega
    have h2 : a / 256 = b / 256 := by
      apply ih _ _ _ _ h.2
      · rw [Nat.pow_succ] at ha; omega
      · rw [Nat.pow_succ] at hb; omega
    omega

/-- fixed-width little-endian two's complement is injective on the range of the Go type -/
theorem le32_inj (a b : Int) (ha : -2147483648 ≤ a ∧ a < 2147483648) (hb : -2147483648 ≤ b ∧ b < 2147483648)
    (h : le 4 a = le 4 b) : a = b := by
  unfold le at h
  have e : (256 : Int) ^ 4 = 4294967296 := by decide
  have e' : (256 : Nat) ^ 4 = 4294967296 := by decide
  rw [e] at h
  have := leNat_inj 4 _ _ (by rw [e']; omega) (by rw [e']; omega) h
  omega

theorem le64_inj (a b : Int) (ha : -9223372036854775808 ≤ a ∧ a < 9223372036854775808)
    (hb : -9223372036854775808 ≤ b ∧ b < 9223372036854775808) (h : le 8 a = le 8 b) : a = b := by
  unfold le at h
  have e : (256 : Int) ^ 8 = 18446744073709551616 := by decide
  have e' : (256 : Nat) ^ 8 = 18446744073709551616 := by decide
  rw [e] at h
  have := leNat_inj 8 _ _ (by rw [e']; omega) (by rw [e']; omega) h
  omega

private theorem flatten_set_ne (l : List Bytes) (i : Nat) (hi : i < l.length) (v : Bytes) (hv : v ≠ l[i]) :
    (l.set i v).flatten ≠ l.flatten := by
  induction l generalizing i with
  | nil => simp at hi
  | cons a l ih =>
    cases i with
    | zero =>
      simp only [List.set_cons_zero, List.flatten_cons]
      intro h
      exact hv (List.append_cancel_right h)
    | succ i =>
      simp only [List.set_cons_succ, List.flatten_cons]
      intro h
      exact ih i (by simpa using hi) (by simpa using hv) (List.append_cancel_left h)

/-- **Any single hashed write that changes, changes the pre-image** — although the concatenation
is not length-prefixed.  `segments b` lists the byte strings written by the successive write
calls; if `b'` differs from `b` in exactly one of them, the pre-images differ.  (Changes of two
neighbouring variable-length fields at once can cancel: `two_field_shift_collides`.) -/
theorem single_field_mutation_changes_preimage (b b' : Block) (i : Nat) (hi : i < (segments b).length)
    (v : Bytes) (hseg : segments b' = (segments b).set i v) (hv : v ≠ (segments b)[i]) :
    preimage b' ≠ preimage b := by
  unfold preimage
  rw [hseg]
  exact flatten_set_ne _ i hi v hv

/-- instances for the named scalar header fields: a different in-range value of the field, all
else equal, gives a different pre-image -/
theorem header_int_fields_bound (b : Block) :
    (∀ v, -2147483648 ≤ v ∧ v < 2147483648 → -2147483648 ≤ b.version ∧ b.version < 2147483648 → v ≠ b.version →
        preimage { b with version := v } ≠ preimage b) ∧
    (∀ v, -2147483648 ≤ v ∧ v < 2147483648 → -2147483648 ≤ b.nonce ∧ b.nonce < 2147483648 → v ≠ b.nonce →
        preimage { b with nonce := v } ≠ preimage b) ∧
    (∀ v, -2147483648 ≤ v ∧ v < 2147483648 → -2147483648 ≤ b.txCount ∧ b.txCount < 2147483648 → v ≠ b.txCount →
        preimage { b with txCount := v } ≠ preimage b) ∧
    (∀ v, -9223372036854775808 ≤ v ∧ v < 9223372036854775808 →
        -9223372036854775808 ≤ b.timestamp ∧ b.timestamp < 9223372036854775808 → v ≠ b.timestamp →
        preimage { b with timestamp := v } ≠ preimage b) := by
  refine ⟨?_, ?_, ?_, ?_⟩
  · intro v hv hb hne
    apply single_field_mutation_changes_preimage b _ 0 (by simp [segments]) (le 4 v) (by simp [segments])
    simp [segments]; exact fun h => hne (le32_inj _ _ hv hb h)
  · intro v hv hb hne
    apply single_field_mutation_changes_preimage b _ 1 (by simp [segments]) (le 4 v) (by simp [segments])
    simp [segments]; exact fun h => hne (le32_inj _ _ hv hb h)
  · intro v hv hb hne
    apply single_field_mutation_changes_preimage b _ 2 (by simp [segments]) (le 4 v) (by simp [segments])
    simp [segments]; exact fun h => hne (le32_inj _ _ hv hb h)
  · intro v hv hb hne
    apply single_field_mutation_changes_preimage b _ 4 (by simp [segments]) (le 8 v) (by simp [segments])
    simp [segments]; exact fun h => hne (le64_inj _ _ hv hb h)

theorem header_bytes_fields_bound (b : Block) :
    (∀ v, v ≠ b.proposer → preimage { b with proposer := v } ≠ preimage b) ∧
    (∀ v, v ≠ b.pubkey → preimage { b with pubkey := v } ≠ preimage b) ∧
    (∀ v, v ≠ b.preHash → preimage { b with preHash := v } ≠ preimage b) ∧
    (∀ v, v ≠ b.merkleRoot → preimage { b with merkleRoot := v } ≠ preimage b) := by
  refine ⟨?_, ?_, ?_, ?_⟩
  · intro v hne
    apply single_field_mutation_changes_preimage b _ 3 (by simp [segments]) v (by simp [segments])
    simpa [segments] using hne
  · intro v hne
    apply single_field_mutation_changes_preimage b _ 5 (by simp [segments]) v (by simp [segments])
    simpa [segments] using hne
  · intro v hne
    apply single_field_mutation_changes_preimage b _ 6 (by simp [segments]) v (by simp [segments])
    simpa [segments] using hne
  · intro v hne
    apply single_field_mutation_changes_preimage b _ 7 (by simp [segments]) v (by simp [segments])
    simpa [segments] using hne

/-- the full-strength reading "the pre-image determines every hashed field" is false: the
concatenation is not delimited, so bytes can move between neighbouring variable-length fields
(here `Justify.ProposalId` / `ProposalMsg`; likewise `Proposer`/…/`MerkleRoot`, failed-tx messages) -/
def preimage_injective_statement : Prop :=
  ∀ b b' : Block, preimage b = preimage b' → segments b = segments b'

theorem two_field_shift_collides : ¬ preimage_injective_statement := by
  intro h
  let j1 : Justify := ⟨[1, 2], [3], 0, 0, []⟩
  let j2 : Justify := ⟨[1], [2, 3], 0, 0, []⟩
  let b1 : Block := ⟨0, 0, 0, [], 0, [], [], [], [], 0, 0, 0, some j1, [], [], 0, [], []⟩
  let b2 : Block := { b1 with justify := some j2 }
  have := h b1 b2 (by decide)
  revert this
  decide

/-- fields outside the id: changing them leaves the pre-image unchanged (`Height`, keys of
`FailedTxs`, `TargetBits ≤ 0`, the signature, the body) -/
theorem unhashed_fields (b : Block) (h : Int) (s : Bytes) (txs : List Bytes) (t : Int) (ht : t ≤ 0) (hb : b.targetBits ≤ 0)
    (ks : List Bytes) (hks : ks.length = b.failedTxs.length) :
    preimage { b with height := h } = preimage b ∧ preimage { b with sign := s } = preimage b ∧
    preimage { b with txids := txs } = preimage b ∧ preimage { b with targetBits := t } = preimage b ∧
    preimage { b with failedTxs := ks.zip (b.failedTxs.map (·.2)) } = preimage b := by
  refine ⟨rfl, rfl, rfl, ?_, ?_⟩
  · have h1 : ¬ (0 < t) := by omega
    have h2 : ¬ (0 < b.targetBits) := by omega
    simp [preimage, segments, h1, h2]
  · have : (ks.zip (b.failedTxs.map (·.2))).map (·.2) = b.failedTxs.map (·.2) := by
      rw [List.map_snd_zip]; simp [hks]
    simp [preimage, segments, this]

/-! ## VerifyBlock -/

/-- acceptance unfolds into the five checks -/
theorem verify_iff (c : Crypto) (b : Block) :
    verifyBlock c b = true ↔
      c.H (preimage b) = b.blockid ∧ b.txCount = (b.txids.length : Int) ∧ (∀ t ∈ b.txids, t.length = hashWidth) ∧
      merkleRoot c.H b.txids = some b.merkleRoot ∧
      (∃ k, c.keyOf b.pubkey = some k ∧ c.addrOk b.proposer k = true ∧ c.verify k b.sign b.blockid = true) ∧
      sameNodes b.carried (merkleTree c.H b.txids) = true := by
  unfold verifyBlock verifyMerkle verifySig
  cases merkleRoot c.H b.txids <;> cases c.keyOf b.pubkey <;> simp [and_assoc]
  intro _ _ _ _
  constructor
  · intro ⟨h1, h2, h3⟩; exact ⟨h2, h3, h1⟩
  · intro ⟨h2, h3, h1⟩; exact ⟨h1, h2, h3⟩

/-- **A block passes only if** its id is the hash of its header fields, its root is the root of
exactly its transaction list (whose length is the hashed count), and its signature verifies under
a key that hashes to the stated proposer. -/
theorem accept_implies_bound (c : Crypto) (b : Block) (h : verifyBlock c b = true) :
    b.blockid = c.H (preimage b) ∧ merkleRoot c.H b.txids = some b.merkleRoot ∧ (b.txids.length : Int) = b.txCount ∧
    (∃ k, c.keyOf b.pubkey = some k ∧ c.addrOk b.proposer k = true ∧ c.verify k b.sign b.blockid = true) ∧
    sameNodes b.carried (merkleTree c.H b.txids) = true := by
  obtain ⟨h1, h2, _, h4, h5, h6⟩ := (verify_iff c b).mp h
  exact ⟨h1.symm, h4, h2.symm, h5, h6⟩

/-- **Adding, dropping, reordering or altering any transaction is rejected.**  If a block
verifies and its body is replaced by any other list of txids (header untouched), it no longer
verifies — unless the two merkle computations exhibit a hash collision. -/
theorem verify_binds_body (c : Crypto) (hH : ∀ x, (c.H x).length = hashWidth) (b : Block) (txs' : List Bytes)
    (hv : verifyBlock c b = true) (hne : txs' ≠ b.txids)
    (hnc : NoCollisionOn c.H (hashed c.H txs' ++ hashed c.H b.txids)) :
    verifyBlock c { b with txids := txs' } = false := by
  apply Bool.eq_false_iff.mpr
  intro hv'
  obtain ⟨_, h2, h3, h4, _⟩ := (verify_iff c b).mp hv
  obtain ⟨_, h2', h3', h4', _⟩ := (verify_iff c _).mp hv'
  simp only at h2' h3' h4'
  apply hne
  apply merkle_binds c.H hashWidth hH txs' b.txids (by omega) h3' h3 hnc
  rw [h4, h4']

/-- The merkle tree carried in the message is outside the id (and so outside the signature):
anyone can rewrite it. -/
theorem carried_tree_unhashed (b : Block) (t : List (Option Bytes)) :
    preimage { b with carried := t } = preimage b := rfl

/-- **The carried tree is bound to the body** (since the repair): a block passes only if the
array it carries is the merkle tree of its transaction list (nil and empty nodes identified). -/
theorem carried_tree_bound (c : Crypto) (b : Block) (h : verifyBlock c b = true) :
    sameNodes b.carried (merkleTree c.H b.txids) = true :=
  (accept_implies_bound c b h).2.2.2.2

/-- … so a block whose carried tree was rewritten in any way (leaves swapped, altered, doubled,
tree removed) — body, header and signature intact — is rejected. -/
theorem carried_tree_tamper_rejected (c : Crypto) (b : Block) (t : List (Option Bytes))
    (ht : sameNodes t (merkleTree c.H b.txids) = false) : verifyBlock c { b with carried := t } = false := by
  apply Bool.eq_false_iff.mpr
  intro hv
  have := carried_tree_bound c _ hv
  simp only at this
  rw [ht] at this
  cases this

private theorem levels_head (H : Bytes → Bytes) (f : Nat) (xs : List Bytes) : ∃ rest, levels H f xs = xs :: rest := by
  cases f with
  | zero => exact ⟨[], rfl⟩
  | succ f =>
    unfold levels
    by_cases h : xs.length ≤ 1
    · exact ⟨[], by simp [h]⟩
    · exact ⟨levels H f (pairUp H xs), by simp [h]⟩

/-- the first `n` nodes of the tree of `n` transactions are their txids, in order -/
theorem merkleTree_leaves (H : Bytes → Bytes) (xs : List Bytes) :
    (merkleTree H xs).take xs.length = xs.map some := by
  unfold merkleTree
  cases xs with
  | nil => rfl
  | cons x xs =>
    obtain ⟨rest, hr⟩ := levels_head H (x :: xs).length (x :: xs)
    simp only [List.isEmpty_cons, Bool.false_eq_true, if_false, hr, padLevels, List.append_assoc]
    exact List.take_left' (by simp)

/-- **What the ledger serves is what was verified.**  `queryBlock` lists the body of a stored
block from the leaves of the tree stored with its header; for a block that passed verification
this is exactly its ordered transaction list. -/
theorem stored_body_is_verified_body (c : Crypto) (b : Block) (h : verifyBlock c b = true) :
    storedBody b = b.txids := by
  obtain ⟨_, h2, _, _, _, h6⟩ := (verify_iff c b).mp h
  unfold storedBody
  unfold sameNodes at h6
  have h6' := beq_iff_eq.mp h6
  rw [h2, Int.toNat_natCast, List.map_take, h6', ← List.map_take, merkleTree_leaves]
  simp only [List.map_map]
  have : ((fun x : Option Bytes => x.getD []) ∘ some) = id := by funext x; rfl
  rw [this, List.map_id]

/-- the same statement about the code as found -/
def stored_body_is_verified_body_as_found_statement : Prop :=
  ∀ (c : Crypto) (b : Block), verifyBlockAsFound c b = true → storedBody b = b.txids

/-- the code as found never consulted the carried tree … -/
theorem carried_tree_ignored_as_found (c : Crypto) (b : Block) (t : List (Option Bytes)) :
    verifyBlockAsFound c { b with carried := t } = verifyBlockAsFound c b := rfl

/-- **Coordinated tamper.**  Replacing the body *and* rewriting the carried tree to go with it
(leaves set to the new txids, inner nodes recomputed or kept, the signed root left on top — any
array at all) is rejected like the body change alone. -/
theorem verify_binds_body_whatever_tree (c : Crypto) (hH : ∀ x, (c.H x).length = hashWidth) (b : Block)
    (txs' : List Bytes) (t' : List (Option Bytes))
    (hv : verifyBlock c b = true) (hne : txs' ≠ b.txids)
    (hnc : NoCollisionOn c.H (hashed c.H txs' ++ hashed c.H b.txids)) :
    verifyBlock c { b with txids := txs', carried := t' } = false := by
  apply Bool.eq_false_iff.mpr
  intro hv'
  obtain ⟨_, h2, h3, h4, _⟩ := (verify_iff c b).mp hv
  obtain ⟨_, h2', h3', h4', _⟩ := (verify_iff c _).mp hv'
  simp only at h2' h3' h4'
  apply hne
  apply merkle_binds c.H hashWidth hH txs' b.txids (by omega) h3' h3 hnc
  rw [h4, h4']

/-- the node itself carries the tree of its body -/
theorem formatted_carries_its_tree (c : Crypto) (txids : List Bytes) (proposer : Bytes) (key : Nat)
    (ts term num : Int) (preHash : Bytes) (tb : Int) (qc : Option Justify) (failed : List (Bytes × Bytes)) (height : Int) :
    (formatBlock c txids proposer key ts term num preHash tb qc failed height).carried = merkleTree c.H txids := rfl

/-- The same for a forger who rewrites the whole header but must keep the id (the signed
message): two verifying blocks with the same id and the same root carry the same transaction
list, because the count sits in the first fixed-width fields of the hashed pre-image. -/
theorem same_id_same_body (c : Crypto) (hH : ∀ x, (c.H x).length = hashWidth) (b b' : Block)
    (hv : verifyBlock c b = true) (hv' : verifyBlock c b' = true) (hid : b'.blockid = b.blockid)
    (hroot : b'.merkleRoot = b.merkleRoot)
    (hr : -2147483648 ≤ b.txCount ∧ b.txCount < 2147483648) (hr' : -2147483648 ≤ b'.txCount ∧ b'.txCount < 2147483648)
    (hnc : NoCollisionOn c.H ([preimage b', preimage b] ++ (hashed c.H b'.txids ++ hashed c.H b.txids))) :
    b'.txids = b.txids := by
  obtain ⟨h1, h2, h3, h4, _, _⟩ := (verify_iff c b).mp hv
  obtain ⟨h1', h2', h3', h4', _, _⟩ := (verify_iff c b').mp hv'
  have hpre : preimage b' = preimage b := by
    apply hnc _ (by simp) _ (by simp)
    rw [h1, h1', hid]
  -- the count is bytes 8..12 of the pre-image
  have hcnt : b'.txCount = b.txCount := by
    have h12 : ((preimage b').drop 8).take 4 = ((preimage b).drop 8).take 4 := by rw [hpre]
    have e : ∀ x : Block, ((preimage x).drop 8).take 4 = le 4 x.txCount := by
      intro x
      have l1 := le_length 4 x.version
      have l2 := le_length 4 x.nonce
      have l3 := le_length 4 x.txCount
      simp only [preimage, segments, List.cons_append, List.flatten_cons, List.append_assoc]
      rw [← List.append_assoc (le 4 x.version), List.drop_left' (by simp [l1, l2])]
      rw [List.take_left' l3]
    rw [e, e] at h12
    exact le32_inj _ _ hr' hr h12
  apply merkle_binds c.H hashWidth hH b'.txids b.txids (by omega) h3' h3
  · intro x hx y hy; exact hnc x (by simp only [List.mem_append] at hx ⊢; exact Or.inr hx) y (by simp only [List.mem_append] at hy ⊢; exact Or.inr hy)
  · rw [h4, h4', hroot]

/-- **Altering a hashed header field is rejected**: a verified block whose pre-image changed
(see `single_field_mutation_changes_preimage`) while the id was kept is rejected, unless the two
pre-images collide under the hash. -/
theorem header_mutation_rejected (c : Crypto) (b b' : Block) (hv : verifyBlock c b = true)
    (hid : b'.blockid = b.blockid) (hpre : preimage b' ≠ preimage b)
    (hnc : NoCollisionOn c.H [preimage b', preimage b]) : verifyBlock c b' = false := by
  apply Bool.eq_false_iff.mpr
  intro hv'
  obtain ⟨h1, _⟩ := (verify_iff c b).mp hv
  obtain ⟨h1', _⟩ := (verify_iff c b').mp hv'
  exact hpre (hnc _ (by simp) _ (by simp) (by rw [h1, h1', hid]))

/-- …and if the forger recomputes the id, the old signature is over another message: rejected
unless the proposer's key verifies it for the new id (a forgery). -/
theorem reid_rejected (c : Crypto) (b' : Block) (k : Nat) (hk : c.keyOf b'.pubkey = some k)
    (hforge : c.verify k b'.sign b'.blockid = false) : verifyBlock c b' = false := by
  apply Bool.eq_false_iff.mpr
  intro hv'
  obtain ⟨_, _, _, _, ⟨k', hk', _, hs⟩, _⟩ := (verify_iff c b').mp hv'
  rw [hk] at hk'; cases hk'
  rw [hforge] at hs; cases hs

/-- **Re-signing with another key is rejected.**  A block that states the proposer of a verified
block but carries (and is signed under) a different public key is rejected: the address binds one
key.  (Keeping the key and replacing only the signature: `reid_rejected`.) -/
theorem resign_rejected (c : Crypto) (hbind : ∀ a k k', c.addrOk a k = true → c.addrOk a k' = true → k = k')
    (b b' : Block) (hv : verifyBlock c b = true) (hp : b'.proposer = b.proposer)
    (hkey : c.keyOf b'.pubkey ≠ c.keyOf b.pubkey) : verifyBlock c b' = false := by
  apply Bool.eq_false_iff.mpr
  intro hv'
  obtain ⟨_, _, _, _, ⟨k, hk, ha, _⟩, _⟩ := (verify_iff c b).mp hv
  obtain ⟨_, _, _, _, ⟨k', hk', ha', _⟩, _⟩ := (verify_iff c b').mp hv'
  rw [hp] at ha'
  have := hbind _ _ _ ha ha'
  rw [hk, hk', this] at hkey
  exact hkey rfl

/-- **A block formatted by the node verifies** (`FormatBlock`/`FormatMinerBlock`): at least one
transaction, txids of hash width, a parent (`preHash` not empty — otherwise `formatBlock` does not
sign), the key parses back from its JSON form, hashes to the stated proposer and verifies its own
signatures. -/
theorem formatted_verifies (c : Crypto) (txids : List Bytes) (proposer : Bytes) (key : Nat)
    (ts term num : Int) (preHash : Bytes) (tb : Int) (qc : Option Justify) (failed : List (Bytes × Bytes)) (height : Int)
    (hn : 1 ≤ txids.length) (hw : ∀ t ∈ txids, t.length = hashWidth) (hpre : preHash ≠ [])
    (hkey : c.keyOf (c.pubJson key) = some key) (haddr : c.addrOk proposer key = true)
    (hsign : ∀ m, c.verify key (c.signWith key m) m = true) :
    verifyBlock c (formatBlock c txids proposer key ts term num preHash tb qc failed height) = true := by
  rw [verify_iff]
  have hroot : ∃ r, merkleRoot c.H txids = some r := by
    unfold merkleRoot
    have : ∀ f (xs : List Bytes), 1 ≤ xs.length → xs.length ≤ f + 1 → ∃ r, rootAux c.H f xs = some r := by
      intro f
      induction f with
      | zero => intro xs h1 h2; match xs, h1, h2 with
        | [x], _, _ => exact ⟨x, rfl⟩
      | succ f ih =>
        intro xs h1 h2
        unfold rootAux
        by_cases h : xs.length ≤ 1
        · match xs, h1, h with
          | [x], _, _ => exact ⟨x, by simp⟩
        · simp only [h, if_false]
          apply ih
          · rw [pairUp_length]; omega
          · rw [pairUp_length]; omega
    exact this _ _ hn (by omega)
  obtain ⟨r, hr⟩ := hroot
  have hne : preHash.isEmpty = false := by cases preHash <;> simp_all
  refine ⟨?_, ?_, ?_, ?_, ⟨key, ?_, ?_, ?_⟩, ?_⟩ <;> simp [formatBlock, hr, hne, hkey, haddr, hsign, preimage, segments, sameNodes]
  exact hw

/-! ## non-vacuity -/

/-- a hash without collisions on the inputs used, of fixed width 1 on them, and a crypto whose
hypotheses hold: the theorems above are about a non-empty class of blocks -/
private def toyH (x : Bytes) : Bytes := [UInt8.ofNat (x.foldl (fun a y => a * 2 + y.toNat) 0)]

example : merkleRoot toyH [[1], [2], [3]] = some (toyH (toyH [1, 2] ++ toyH [3, 3])) := by decide
example : NoCollisionOn toyH (hashed toyH [[1], [2], [3]] ++ hashed toyH [[1], [3], [2]]) := by decide
example : merkleRoot toyH [[1], [2], [3]] ≠ merkleRoot toyH [[1], [3], [2]] := by decide
example : leafSize 5 = 8 ∧ leafSize 8 = 8 ∧ leafSize 9 = 16 ∧ leafSize 1 = 1 := by decide

private def toyC : Crypto where
  H := fun x => (toyH x).head! :: List.replicate 31 0
  keyOf := fun b => match b with
    | [k] => some k.toNat
    | _ => none
  addrOk := fun a k => a == [UInt8.ofNat k, 7]
  verify := fun k s m => s == UInt8.ofNat k :: m
  pubJson := fun k => [UInt8.ofNat k]
  signWith := fun k m => UInt8.ofNat k :: m

set_option maxRecDepth 8000 in
example : verifyBlock toyC (formatBlock toyC [List.replicate 32 1, List.replicate 32 2, List.replicate 32 3]
    [5, 7] 5 10 1 2 [9] 0 none [([1], [2])] 4) = true := by decide

/-- non-vacuity of `verify_binds_body_whatever_tree`: a formatted block verifies, and with two
transactions swapped and the carried leaves swapped to match (inner nodes and root kept) it does not -/
private def toyC3 : Crypto := { toyC with
  H := fun x =>
    let h := x.foldl (fun a y => (a * 31 + y.toNat + 1) % 65521) 7
    UInt8.ofNat (h / 256) :: UInt8.ofNat (h % 256) :: List.replicate 30 0 }

private def toyB : Block := formatBlock toyC3 [List.replicate 32 1, List.replicate 32 2, List.replicate 32 3]
    [5, 7] 5 10 1 2 [9] 0 none [] 4

set_option maxRecDepth 8000 in
example : verifyBlock toyC3 toyB = true ∧ toyB.carried.length = 7 ∧
    verifyBlock toyC3 { toyB with
      txids := [List.replicate 32 2, List.replicate 32 1, List.replicate 32 3],
      carried := [some (List.replicate 32 2), some (List.replicate 32 1), some (List.replicate 32 3)] ++ toyB.carried.drop 3 } = false := by
  decide

/-- the block as a relaying peer can re-send it: body, header, signature intact, the first two
leaves of the carried tree swapped -/
private def toyBswapped : Block :=
  { toyB with carried := [some (List.replicate 32 2), some (List.replicate 32 1)] ++ toyB.carried.drop 2 }

set_option maxRecDepth 8000 in
/-- **As found, the ledger could be made to serve another body than the verified one**: the block
with two carried leaves swapped passed the verification as found, and the body listed from its
stored tree is the reordered one (reproduced on the real code: corpus
`verified-block-stored-with-other-body.ops`; repaired by the `fix:` commit of VerifyMerkle). -/
theorem stored_body_is_verified_body_as_found_counterexample :
    ¬ stored_body_is_verified_body_as_found_statement := by
  intro h
  have := h toyC3 toyBswapped (by decide)
  revert this
  decide

set_option maxRecDepth 8000 in
/-- the repaired verification rejects it (non-vacuity of `carried_tree_tamper_rejected`) -/
example : verifyBlock toyC3 toyBswapped = false ∧ verifyBlock toyC3 { toyB with carried := [] } = false := by decide

/-! ### Crypto faults (wave 6, seed C08-15)

`formatBlock` and `VerifyBlock` reach key handling and ECDSA through a crypto client whose requests can fail.
"A block formatted by the node itself always verifies" then reads: a format call either reports the failure and hands
out no block, or the block it hands out verifies — for EVERY position of the failing request. -/

/-- a format call under any crypto fault hands out nothing or a block that verifies -/
theorem formatted_under_fault_refused_or_verifies (c : Crypto) (txids : List Bytes) (proposer : Bytes) (key : Nat)
    (ts term num : Int) (preHash : Bytes) (tb : Int) (qc : Option Justify) (failed : List (Bytes × Bytes)) (height : Int)
    (fail : Nat)
    (hn : 1 ≤ txids.length) (hw : ∀ t ∈ txids, t.length = hashWidth) (hpre : preHash ≠ [])
    (hkey : c.keyOf (c.pubJson key) = some key) (haddr : c.addrOk proposer key = true)
    (hsign : ∀ m, c.verify key (c.signWith key m) m = true) :
    formatBlockF c txids proposer key ts term num preHash tb qc failed height fail = none ∨
    ∃ b, formatBlockF c txids proposer key ts term num preHash tb qc failed height fail = some b ∧
      verifyBlock c b = true := by
  unfold formatBlockF
  by_cases h1 : (fail == 1) = true
  · simp [h1]
  · by_cases h2 : (fail == 2 && !preHash.isEmpty) = true
    · simp [h1, h2]
    · right
      refine ⟨formatBlock c txids proposer key ts term num preHash tb qc failed height, ?_, ?_⟩
      · rw [if_neg h1, if_neg h2]
      exact formatted_verifies c txids proposer key ts term num preHash tb qc failed height hn hw hpre hkey haddr hsign

/-- a request that fails ends the call: the key request always, the signature request whenever a signature is due -/
theorem format_fault_hit_refuses (c : Crypto) (txids : List Bytes) (proposer : Bytes) (key : Nat)
    (ts term num : Int) (preHash : Bytes) (tb : Int) (qc : Option Justify) (failed : List (Bytes × Bytes)) (height : Int)
    (fail : Nat) (hpre : preHash ≠ []) (hf : fail = 1 ∨ fail = 2) :
    formatBlockF c txids proposer key ts term num preHash tb qc failed height fail = none := by
  unfold formatBlockF
  have : preHash.isEmpty = false := by cases preHash with
    | nil => exact absurd rfl hpre
    | cons _ _ => rfl
  rcases hf with h | h <;> subst h <;> simp [this]

/-- with no request failing the fault model is `formatBlock` -/
theorem format_no_fault (c : Crypto) (txids : List Bytes) (proposer : Bytes) (key : Nat)
    (ts term num : Int) (preHash : Bytes) (tb : Int) (qc : Option Justify) (failed : List (Bytes × Bytes)) (height : Int) :
    formatBlockF c txids proposer key ts term num preHash tb qc failed height 0 =
      some (formatBlock c txids proposer key ts term num preHash tb qc failed height) := by
  simp [formatBlockF]

/-- What the shadowed error of seed C08-15 hands out: the formatted block without its signature.  It does not verify
as soon as the empty string is no signature of the id (the oracle `formatted-under-crypto-fault-unverifiable` is not
vacuous). -/
theorem unsigned_formatted_rejected (c : Crypto) (txids : List Bytes) (proposer : Bytes) (key : Nat)
    (ts term num : Int) (preHash : Bytes) (tb : Int) (qc : Option Justify) (failed : List (Bytes × Bytes)) (height : Int)
    (hempty : ∀ k m, c.verify k [] m = false) :
    verifyBlock c { formatBlock c txids proposer key ts term num preHash tb qc failed height with sign := [] } = false := by
  unfold verifyBlock verifySig
  simp only [Bool.and_eq_false_iff]
  right
  cases c.keyOf (formatBlock c txids proposer key ts term num preHash tb qc failed height).pubkey with
  | none => rfl
  | some k => simp [hempty]

/-- a failing request never makes a block pass: whatever `VerifyBlock` accepts under a fault it accepts without -/
theorem verify_fault_never_accepts_more (c : Crypto) (b : Block) (fail : Nat)
    (h : verifyBlockF c b fail = true) : verifyBlock c b = true := by
  unfold verifyBlockF at h
  unfold verifyBlock
  simp only [Bool.and_eq_true] at h ⊢
  refine ⟨h.1, ?_⟩
  have hs := h.2
  unfold verifySigF at hs
  unfold verifySig
  by_cases h1 : (fail == 1) = true
  · simp [h1] at hs
  · rw [if_neg h1] at hs
    cases hk : c.keyOf b.pubkey with
    | none => simp [hk] at hs
    | some k =>
      simp only [hk, Bool.and_eq_true] at hs ⊢
      exact ⟨hs.1.2, hs.2.2⟩

/-- a block whose key, address or signature request failed is refused -/
theorem verify_fault_hit_rejects (c : Crypto) (b : Block) (fail : Nat) (h1 : 1 ≤ fail) (h3 : fail ≤ 3) :
    verifySigF c b fail = false := by
  unfold verifySigF
  have : fail = 1 ∨ fail = 2 ∨ fail = 3 := by omega
  rcases this with h | h | h <;> subst h
  · simp
  · cases c.keyOf b.pubkey <;> simp
  · cases c.keyOf b.pubkey <;> simp

/-- with no request failing the fault model is `verifyBlock` -/
theorem verify_no_fault (c : Crypto) (b : Block) : verifyBlockF c b 0 = verifyBlock c b := by
  unfold verifyBlockF verifyBlock verifySigF verifySig
  cases c.keyOf b.pubkey <;> simp

/-- hence every rejection theorem above holds under every fault: a mutant that `verifyBlock` refuses is refused -/
theorem rejected_stays_rejected_under_fault (c : Crypto) (b : Block) (fail : Nat)
    (h : verifyBlock c b = false) : verifyBlockF c b fail = false := by
  cases hf : verifyBlockF c b fail with
  | false => rfl
  | true => rw [verify_fault_never_accepts_more c b fail hf] at h; exact absurd h (by decide)

end XV.C08
