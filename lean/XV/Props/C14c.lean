import XV.Model.Collect
import XV.Props.C14
/-!
C14, collection side — a node declares a quorum for a proposal (moves HighQC to it, advances its view,
hands out the collected votes as the justify certificate of its next proposal) only when valid votes
for that proposal id have ARRIVED from at least `n - ⌊(n-1)/3⌋ - 1` distinct members, besides the
collector, of the validator set in force for the proposal's own view.  Votes of non-members, invalid
signatures, votes naming another id, votes declaring another view, the collector's own vote, extra
signatures riding on a vote message and repeated votes of one member never help.

All theorems quantify over every validator-set function `vals`, every collector address and every
history of proposal and vote messages (`run … (init self) evs`).  The section on restarts does the same for
a collector rebuilt from a ledger (`run … (restart self start tip just) evs`, for every StartHeight, tip and
clean certificates in the last blocks): there the vote log has a second writer, the constructor, which
re-loads the ledger's certificates; each is held for the block it certifies and the tip block has none.
-/
namespace XV.C14c
open XV.Safety XV.Collect

/-! ### the vote log -/

private theorem find_filter_other (log : List (Nat × List Entry)) (id id' : Nat) (h : id' ≠ id) :
    (log.filter (fun p => !(p.1 == id))).find? (fun p => p.1 == id') = log.find? (fun p => p.1 == id') := by
  induction log with
  | nil => rfl
  | cons p ps ih =>
    simp only [List.filter_cons]
    cases h1 : (p.1 == id) with
    | true =>
      have h2 : (p.1 == id') = false := by
        have : p.1 = id := by simpa using h1
        simp only [beq_eq_false_iff_ne, ne_eq, this]; exact fun x => h x.symm
      simp only [Bool.not_true, Bool.false_eq_true, ↓reduceIte, List.find?_cons, h2]; exact ih
    | false =>
      simp only [Bool.not_false, ↓reduceIte, List.find?_cons]
      cases (p.1 == id') <;> simp [ih]

theorem logOf_setLog_same (log : List (Nat × List Entry)) (id : Nat) (es : List Entry) :
    logOf (setLog log id es) id = some es := by
  simp [logOf, setLog]

theorem logOf_setLog_other (log : List (Nat × List Entry)) (id id' : Nat) (es : List Entry) (h : id' ≠ id) :
    logOf (setLog log id es) id' = logOf log id' := by
  have h' : (id == id') = false := by
    simp only [beq_eq_false_iff_ne, ne_eq]; exact fun x => h x.symm
  simp only [logOf, setLog, List.find?_cons, h', find_filter_other log id id' h]

/-! ### what one vote message can do -/

/-- `declare` touches neither the vote log nor the tree nor the collector's address. -/
theorem declare_frame (s : State) (nd : Node) (v : Int) :
    (declare s nd v).log = s.log ∧ (declare s nd v).nodes = s.nodes ∧ (declare s nd v).self = s.self ∧
    (declare s nd v).known = s.known := by
  simp [declare]

/-- The storing half, a vote of a member that is already in the log: the log stays as it is. -/
theorem collectVote_log_repeat (n : Nat) (s : State) (id : Nat) (dview : Int) (e : Entry) (nd : Node)
    (h : ((logOf s.log id).getD []).any (fun x => x.addr == e.addr) = true) :
    (collectVote n s id dview e nd).1.log = s.log := by
  simp only [collectVote]
  rw [if_pos h]
  split <;> simp [declare]

/-- The storing half, a vote of a member that is not yet in the log: it is appended. -/
theorem collectVote_log_new (n : Nat) (s : State) (id : Nat) (dview : Int) (e : Entry) (nd : Node)
    (h : ((logOf s.log id).getD []).any (fun x => x.addr == e.addr) = false) :
    (collectVote n s id dview e nd).1.log = setLog s.log id ((logOf s.log id).getD [] ++ [e]) := by
  simp only [collectVote]
  rw [if_neg (by rw [h]; simp)]
  split <;> simp [declare]

theorem collectVote_frame (n : Nat) (s : State) (id : Nat) (dview : Int) (e : Entry) (nd : Node) :
    (collectVote n s id dview e nd).1.nodes = s.nodes ∧ (collectVote n s id dview e nd).1.self = s.self ∧
    (collectVote n s id dview e nd).1.known = s.known := by
  simp only [collectVote]
  split <;> split <;> simp [declare]

/-- When the storing half declares the quorum, the log of the voted id afterwards passes the threshold. -/
theorem collectVote_declared (n : Nat) (s : State) (id : Nat) (dview : Int) (e : Entry) (nd : Node)
    (h : (collectVote n s id dview e nd).2 = true) :
    ∃ es, logOf (collectVote n s id dview e nd).1.log id = some es ∧ es ≠ [] ∧
      XV.Gen.calVotesThreshold (es.length : Int) (n : Int) = true := by
  cases hany : ((logOf s.log id).getD []).any (fun x => x.addr == e.addr) with
  | true =>
    have hlog := collectVote_log_repeat n s id dview e nd hany
    simp only [collectVote] at h
    rw [if_pos hany] at h
    cases hl : logOf s.log id with
    | none => simp [hl] at hany
    | some es =>
      refine ⟨es, by rw [hlog, hl], ?_, ?_⟩
      · intro hnil; subst hnil; simp [hl] at hany
      · split at h
        · rename_i ht; simpa [hl] using ht
        · simp at h
  | false =>
    have hlog := collectVote_log_new n s id dview e nd hany
    simp only [collectVote] at h
    rw [if_neg (by rw [hany]; simp)] at h
    refine ⟨(logOf s.log id).getD [] ++ [e], by rw [hlog, logOf_setLog_same], by simp, ?_⟩
    split at h
    · rename_i ht; exact ht
    · simp at h

/-- What a vote message can do: either it leaves the collector's state alone and declares nothing, or
its FIRST signature is a verified vote of a member of the set in force for the view of the local proposal
it names, not the collector's own, and exactly that signature is handed to the storing half. -/
theorem handleVote_cases (vals : Int → List Nat) (s : State) (m : VoteMsg) :
    ((handleVote vals s m).1 = s ∧ (handleVote vals s m).2.2 = false) ∨
    ∃ e rest nd, m.sigs = e :: rest ∧ e.addr ∈ vals m.view ∧ e.valid = true ∧ m.id ∈ s.known ∧
      lookup s m.id = some nd ∧ nd.view = m.view ∧ e.addr ≠ s.self ∧
      (handleVote vals s m).1 = (collectVote (vals m.view).length s m.id m.view e nd).1 ∧
      (handleVote vals s m).2.2 = (collectVote (vals m.view).length s m.id m.view e nd).2 := by
  unfold handleVote
  split
  · exact Or.inl ⟨rfl, rfl⟩
  · rename_i e rest hs
    split
    · exact Or.inl ⟨rfl, rfl⟩
    · rename_i hmem
      split
      · exact Or.inl ⟨rfl, rfl⟩
      · rename_i hval
        split
        · exact Or.inl ⟨rfl, rfl⟩
        · split
          · exact Or.inl ⟨rfl, rfl⟩
          · rename_i hknown
            split
            · exact Or.inl ⟨rfl, rfl⟩
            · rename_i nd hnd
              split
              · exact Or.inl ⟨rfl, rfl⟩
              · rename_i hview
                split
                · exact Or.inl ⟨rfl, rfl⟩
                · rename_i hself
                  refine Or.inr ⟨e, rest, nd, hs, by simpa using hmem, by simpa using hval, by simpa using hknown,
                    hnd, by simpa using hview, by simpa using hself, rfl, rfl⟩

theorem lookup_findNode (s : State) (id : Nat) (nd : Node) (h : lookup s id = some nd) :
    findNode s.nodes id = some nd := by
  unfold lookup at h
  split at h
  · exact h
  · simp at h

theorem findNode_id (nodes : List Node) (id : Nat) (nd : Node) (h : findNode nodes id = some nd) : nd.id = id := by
  have := List.find?_some h
  simpa using this

theorem findNode_append (nodes l : List Node) (id : Nat) (nd : Node) (h : findNode nodes id = some nd) :
    findNode (nodes ++ l) id = some nd := by
  unfold findNode at *
  rw [List.find?_append, h]; rfl

theorem insertNode_frame (s : State) (p : PropMsg) :
    (insertNode s p).log = s.log ∧ (insertNode s p).self = s.self ∧
    ∃ l, (insertNode s p).nodes = s.nodes ++ l := by
  unfold insertNode
  split
  · exact ⟨rfl, rfl, [], by simp⟩
  · simp only []
    split
    · exact ⟨rfl, rfl, _, rfl⟩
    · split
      · exact ⟨rfl, rfl, _, rfl⟩
      · exact ⟨rfl, rfl, _, rfl⟩

theorem acceptProp_frame (s : State) (p : PropMsg) :
    (acceptProp s p).log = s.log ∧ (acceptProp s p).self = s.self ∧
    ∃ l, (acceptProp s p).nodes = s.nodes ++ l := by
  unfold acceptProp
  split
  · exact ⟨rfl, rfl, [], by simp⟩
  · simp only []
    split
    · exact ⟨rfl, rfl, [], by simp⟩
    · split
      · exact ⟨rfl, rfl, [], by simp⟩
      · split
        · exact ⟨rfl, rfl, [], by simp⟩
        · exact insertNode_frame _ p

/-- A proposal message never touches the vote log or the collector's address; the nodes handed to the
tree only grow. -/
theorem handleProp_frame (vals : Int → List Nat) (s : State) (p : PropMsg) :
    (handleProp vals s p).log = s.log ∧ (handleProp vals s p).self = s.self ∧
    ∃ l, (handleProp vals s p).nodes = s.nodes ++ l := by
  unfold handleProp
  split
  · exact ⟨rfl, rfl, [], by simp⟩
  · simp only []
    split
    · exact acceptProp_frame _ p
    · exact ⟨rfl, rfl, [], by simp⟩

/-- The id of the instance's genesis never changes. -/
theorem insertNode_genesis (s : State) (p : PropMsg) : (insertNode s p).genesis = s.genesis := by
  unfold insertNode
  split
  · rfl
  · simp only []
    split
    · rfl
    · split <;> rfl

theorem acceptProp_genesis (s : State) (p : PropMsg) : (acceptProp s p).genesis = s.genesis := by
  unfold acceptProp
  split
  · rfl
  · simp only []
    split
    · rfl
    · split
      · rfl
      · split
        · rfl
        · exact insertNode_genesis _ p

theorem handleProp_genesis (vals : Int → List Nat) (s : State) (p : PropMsg) :
    (handleProp vals s p).genesis = s.genesis := by
  unfold handleProp
  split
  · rfl
  · simp only []
    split
    · exact acceptProp_genesis _ p
    · rfl

theorem handleVote_genesis (vals : Int → List Nat) (s : State) (m : VoteMsg) :
    (handleVote vals s m).1.genesis = s.genesis := by
  rcases handleVote_cases vals s m with ⟨hs, _⟩ | ⟨e, rest, nd, _, _, _, _, _, _, _, hst, _⟩
  · rw [hs]
  · rw [hst]
    simp only [collectVote]
    split <;> split <;> simp [declare]

theorem run_genesis (vals : Int → List Nat) (evs : List Ev) (s : State) : (run vals s evs).genesis = s.genesis := by
  induction evs generalizing s with
  | nil => rfl
  | cons ev evs ih =>
    cases ev with
    | vote m =>
      have := ih (handleVote vals s m).1
      simp only [run, List.foldl_cons, step] at this ⊢
      rw [this, handleVote_genesis]
    | prop p =>
      have := ih (handleProp vals s p)
      simp only [run, List.foldl_cons, step] at this ⊢
      rw [this, handleProp_genesis]

/-! ### the invariant of the vote log, over all histories -/

theorem firstSigs_append (id : Nat) (vs ws : List VoteMsg) :
    firstSigs id (vs ++ ws) = firstSigs id vs ++ firstSigs id ws := by
  induction vs with
  | nil => rfl
  | cons m ms ih =>
    simp only [List.cons_append, firstSigs]
    split
    · split <;> simp [ih]
    · exact ih

theorem mem_firstSigs_last (vs : List VoteMsg) (m : VoteMsg) (e : Entry) (rest : List Entry)
    (h : m.sigs = e :: rest) : e ∈ firstSigs m.id (vs ++ [m]) := by
  rw [firstSigs_append]
  apply List.mem_append_right
  simp [firstSigs, h]

/-- Every vote stored for a proposal id arrived as the FIRST signature of a vote message naming that id - or
is one of the entries `base id` the node held for that very id before the history began (nothing after
`init`; the certificate the ledger carries for the block after a restart) -, verifies for it, is not the
collector's own, comes from a member of the validator set in force for the view of the local proposal,
and no member is stored twice. -/
def LogOk (base : Nat → List Entry) (vals : Int → List Nat) (votes : List VoteMsg) (s : State) : Prop :=
  ∀ id es, logOf s.log id = some es →
    ∃ nd, findNode s.nodes id = some nd ∧ (es.map (·.addr)).Nodup ∧
      ∀ e ∈ es, e.valid = true ∧ e.addr ≠ s.self ∧ e.addr ∈ vals nd.view ∧ e ∈ base id ++ firstSigs id votes

theorem logOk_init (vals : Int → List Nat) (self : Nat) : LogOk (fun _ => []) vals [] (init self) := by
  intro id es h
  simp [init, logOf] at h

theorem logOk_prop (base : Nat → List Entry) (vals : Int → List Nat) (votes : List VoteMsg) (s : State) (p : PropMsg)
    (h : LogOk base vals votes s) : LogOk base vals votes (handleProp vals s p) := by
  obtain ⟨hlog, hself, l, hnodes⟩ := handleProp_frame vals s p
  intro id es hes
  rw [hlog] at hes
  obtain ⟨nd, hnd, hnodup, hall⟩ := h id es hes
  refine ⟨nd, by rw [hnodes]; exact findNode_append _ _ _ _ hnd, hnodup, ?_⟩
  intro e he
  rw [hself]
  exact hall e he

theorem logOk_vote (base : Nat → List Entry) (vals : Int → List Nat) (votes : List VoteMsg) (s : State) (m : VoteMsg)
    (h : LogOk base vals votes s) : LogOk base vals (votes ++ [m]) (handleVote vals s m).1 := by
  have hmono : ∀ id e, e ∈ base id ++ firstSigs id votes → e ∈ base id ++ firstSigs id (votes ++ [m]) := by
    intro id e he; rw [firstSigs_append, ← List.append_assoc]; exact List.mem_append_left _ he
  have hold : LogOk base vals (votes ++ [m]) s := by
    intro id es hes
    obtain ⟨nd, hnd, hnodup, hall⟩ := h id es hes
    exact ⟨nd, hnd, hnodup, fun e he => ⟨(hall e he).1, (hall e he).2.1, (hall e he).2.2.1, hmono id e (hall e he).2.2.2⟩⟩
  rcases handleVote_cases vals s m with ⟨hs, _⟩ | ⟨e, rest, nd, hsigs, hmem, hval, _, hnd, hview, hself, hst, _⟩
  · rw [hs]; exact hold
  · rw [hst]
    obtain ⟨hnodes, hself', _⟩ := collectVote_frame (vals m.view).length s m.id m.view e nd
    cases hany : ((logOf s.log m.id).getD []).any (fun x => x.addr == e.addr) with
    | true =>
      have hlog := collectVote_log_repeat (vals m.view).length s m.id m.view e nd hany
      intro id es hes
      rw [hlog] at hes
      rw [hnodes, hself']
      exact hold id es hes
    | false =>
      have hlog := collectVote_log_new (vals m.view).length s m.id m.view e nd hany
      intro id es hes
      rw [hlog] at hes
      rw [hnodes, hself']
      by_cases hid : id = m.id
      · subst hid
        rw [logOf_setLog_same] at hes
        have hes' : es = (logOf s.log m.id).getD [] ++ [e] := by simpa using hes.symm
        have hfn := lookup_findNode s m.id nd hnd
        refine ⟨nd, hfn, ?_, ?_⟩
        · -- no member twice
          subst hes'
          rw [List.map_append, List.nodup_append]
          refine ⟨?_, by simp, ?_⟩
          · cases hl : logOf s.log m.id with
            | none => simp
            | some old =>
              obtain ⟨_, _, hnd', _⟩ := hold m.id old hl
              simpa using hnd'
          · intro a ha b hb
            simp only [List.map_cons, List.map_nil, List.mem_singleton] at hb
            subst hb
            intro hab
            subst hab
            obtain ⟨x, hx, hxa⟩ := List.mem_map.mp ha
            have : ((logOf s.log m.id).getD []).any (fun x => x.addr == e.addr) = true := by
              rw [List.any_eq_true]; exact ⟨x, hx, by simp [hxa]⟩
            rw [hany] at this; exact absurd this (by simp)
        · intro x hx
          subst hes'
          rcases List.mem_append.mp hx with hx | hx
          · cases hl : logOf s.log m.id with
            | none => simp [hl] at hx
            | some old =>
              obtain ⟨nd', hnd', _, hall⟩ := hold m.id old hl
              have : nd' = nd := by rw [hfn] at hnd'; exact (Option.some.inj hnd').symm
              subst this
              exact hall x (by simpa [hl] using hx)
          · simp only [List.mem_singleton] at hx
            subst hx
            exact ⟨hval, hself, by rw [hview]; exact hmem, List.mem_append_right _ (mem_firstSigs_last votes m x rest hsigs)⟩
      · rw [logOf_setLog_other _ _ _ _ hid] at hes
        exact hold id es hes

/-- The invariant holds after every history of proposal and vote messages. -/
theorem logOk_run (base : Nat → List Entry) (vals : Int → List Nat) (evs : List Ev) (votes : List VoteMsg) (s : State)
    (h : LogOk base vals votes s) : LogOk base vals (votes ++ votesOf evs) (run vals s evs) := by
  induction evs generalizing votes s with
  | nil => simpa [run, votesOf] using h
  | cons ev evs ih =>
    cases ev with
    | vote m =>
      have := ih (votes ++ [m]) (handleVote vals s m).1 (logOk_vote base vals votes s m h)
      simpa [run, votesOf, step, List.append_assoc] using this
    | prop p =>
      have := ih votes (handleProp vals s p) (logOk_prop base vals votes s p h)
      simpa [run, votesOf, step] using this

theorem run_self (vals : Int → List Nat) (evs : List Ev) (s : State) : (run vals s evs).self = s.self := by
  induction evs generalizing s with
  | nil => rfl
  | cons ev evs ih =>
    cases ev with
    | vote m =>
      have h1 : (handleVote vals s m).1.self = s.self := by
        rcases handleVote_cases vals s m with ⟨hs, _⟩ | ⟨e, rest, nd, _, _, _, _, _, _, _, hst, _⟩
        · rw [hs]
        · rw [hst]; exact (collectVote_frame _ s m.id m.view e nd).2.1
      have := ih (handleVote vals s m).1
      simp only [run, List.foldl_cons, step] at this ⊢
      rw [this, h1]
    | prop p =>
      have := ih (handleProp vals s p)
      simp only [run, List.foldl_cons, step] at this ⊢
      rw [this, (handleProp_frame vals s p).2.1]

/-! ### the property on the collection side -/

theorem mem_validMembersBut (c : Nat) (vals : List Nat) (es : List Entry) (e : Entry)
    (he : e ∈ es) (hv : e.valid = true) (hm : e.addr ∈ vals) (hc : e.addr ≠ c) :
    e.addr ∈ validMembersBut c vals es := by
  unfold validMembersBut validMembers
  rw [List.mem_filter, List.mem_eraseDups]
  refine ⟨List.mem_map.mpr ⟨e, List.mem_filter.mpr ⟨he, by simp [hm, hv]⟩, rfl⟩, by simpa using hc⟩

/-- A log that satisfies the invariant has at most as many entries as there are distinct members,
besides the collector, with a valid vote among the arrived votes and the entries held for the id before. -/
theorem log_le_supporters (base : Nat → List Entry) (vals : Int → List Nat) (votes : List VoteMsg) (s : State) (id : Nat)
    (es : List Entry) (nd : Node) (h : LogOk base vals votes s) (hes : logOf s.log id = some es)
    (hnd : findNode s.nodes id = some nd) :
    es.length ≤ (validMembersBut s.self (vals nd.view) (base id ++ firstSigs id votes)).length := by
  obtain ⟨nd', hnd', hnodup, hall⟩ := h id es hes
  have : nd' = nd := by rw [hnd] at hnd'; exact (Option.some.inj hnd').symm
  subst this
  have := List.Nodup.length_le_of_subset hnodup (l₂ := validMembersBut s.self (vals nd'.view) (base id ++ firstSigs id votes)) (by
    intro a ha
    obtain ⟨e, he, hea⟩ := List.mem_map.mp ha
    subst hea
    obtain ⟨h1, h2, h3, h4⟩ := hall e he
    exact mem_validMembersBut _ _ _ e h4 h1 h3 h2)
  simpa using this

/-- **Collection-side C14, from any state whose vote log satisfies the invariant** (the state after `init`,
the state after a restart on a ledger).  After ANY history of proposal and vote messages, a vote message
makes the collector declare a quorum (advance its view / move HighQC) only if the proposal it names is in the
local tree under the view the vote declares and valid signatures over that id - arrived as first signature of
a vote message naming it, or held for that very id before the history began - come from at least
`n - ⌊(n-1)/3⌋ - 1` distinct members, besides the collector, of the validator set in force for the view of that
local proposal. -/
theorem declared_quorum_from (base : Nat → List Entry) (vals : Int → List Nat) (s0 : State)
    (hs0 : LogOk base vals [] s0) (evs : List Ev) (m : VoteMsg)
    (h : (handleVote vals (run vals s0 evs) m).2.2 = true) :
    ∃ nd, lookup (run vals s0 evs) m.id = some nd ∧ nd.view = m.view ∧
      quorum (vals nd.view).length ≤
        (validMembersBut s0.self (vals nd.view) (base m.id ++ firstSigs m.id (votesOf evs ++ [m]))).length := by
  have hinv := logOk_run base vals evs [] s0 hs0
  simp only [List.nil_append] at hinv
  have hinv' := logOk_vote base vals (votesOf evs) _ m hinv
  rcases handleVote_cases vals (run vals s0 evs) m with ⟨_, hf⟩ | ⟨e, rest, nd, _, hmem, _, _, hnd, hview, _, hst, hfl⟩
  · rw [hf] at h; exact absurd h (by simp)
  · refine ⟨nd, hnd, hview, ?_⟩
    rw [hfl] at h
    obtain ⟨es, hes, _, hthr⟩ := collectVote_declared _ _ _ _ _ _ h
    rw [← hst] at hes
    have hfn : findNode (handleVote vals (run vals s0 evs) m).1.nodes m.id = some nd := by
      rw [hst, (collectVote_frame _ _ _ _ _ _).1]; exact lookup_findNode _ _ _ hnd
    have hle := log_le_supporters base vals _ _ m.id es nd hinv' hes hfn
    have hself : (handleVote vals (run vals s0 evs) m).1.self = s0.self := by
      rw [hst, (collectVote_frame _ _ _ _ _ _).2.1, run_self]
    rw [hself] at hle
    have hn : 1 ≤ (vals nd.view).length := by
      rw [hview]; exact List.length_pos_of_mem hmem
    rw [← hview] at hthr
    have := (XV.C14.threshold_value es.length (vals nd.view).length hn).mp hthr
    unfold quorum
    omega

/-- **Collection-side C14.**  After ANY history of proposal and vote messages, a vote message makes the
collector declare a quorum (advance its view / move HighQC) only if the proposal it names is in the local
tree under the view the vote declares and valid votes for that id have arrived — as first signature of a
vote message naming it — from at least `n - ⌊(n-1)/3⌋ - 1` distinct members, besides the collector, of
the validator set in force for the view of that local proposal. -/
theorem declared_quorum_is_genuine (vals : Int → List Nat) (self : Nat) (evs : List Ev) (m : VoteMsg)
    (h : (handleVote vals (run vals (init self) evs) m).2.2 = true) :
    ∃ nd, lookup (run vals (init self) evs) m.id = some nd ∧ nd.view = m.view ∧
      quorum (vals nd.view).length ≤
        (validMembersBut self (vals nd.view) (firstSigs m.id (votesOf evs ++ [m]))).length := by
  simpa [init] using declared_quorum_from (fun _ => []) vals (init self) (logOk_init vals self) evs m h

/-- The storing half moves HighQC and the view exactly when it declares the quorum. -/
theorem collectVote_effect (n : Nat) (s : State) (id : Nat) (dview : Int) (e : Entry) (nd : Node) :
    ((collectVote n s id dview e nd).2 = false →
      (collectVote n s id dview e nd).1.high = s.high ∧ (collectVote n s id dview e nd).1.view = s.view) ∧
    ((collectVote n s id dview e nd).2 = true →
      (collectVote n s id dview e nd).1.high = (if nd.view < s.high.view then s.high else nd) ∧
      (collectVote n s id dview e nd).1.view = max s.view (dview + 1)) := by
  simp only [collectVote]
  cases ((logOf s.log id).getD []).any (fun x => x.addr == e.addr) with
  | true =>
    cases XV.Gen.calVotesThreshold (((logOf s.log id).getD []).length : Int) (n : Int) <;> simp [declare]
  | false =>
    cases XV.Gen.calVotesThreshold (((logOf s.log id).getD [] ++ [e]).length : Int) (n : Int) <;> simp [declare]

/-- A vote message that does not declare a quorum moves neither HighQC nor the view. -/
theorem vote_moves_only_by_quorum (vals : Int → List Nat) (s : State) (m : VoteMsg)
    (h : (handleVote vals s m).2.2 = false) :
    (handleVote vals s m).1.high = s.high ∧ (handleVote vals s m).1.view = s.view := by
  rcases handleVote_cases vals s m with ⟨hs, _⟩ | ⟨e, rest, nd, _, _, _, _, _, _, _, hst, hfl⟩
  · rw [hs]; exact ⟨rfl, rfl⟩
  · rw [hfl] at h
    rw [hst]
    exact (collectVote_effect _ s m.id m.view e nd).1 h

/-- A declared quorum moves HighQC nowhere but to the proposal the vote names (and only if that proposal
is not below the present HighQC), and the view to the view after that proposal's. -/
theorem declared_moves_to_voted_proposal (vals : Int → List Nat) (s : State) (m : VoteMsg)
    (h : (handleVote vals s m).2.2 = true) :
    ∃ nd, lookup s m.id = some nd ∧
      (handleVote vals s m).1.high = (if nd.view < s.high.view then s.high else nd) ∧
      (handleVote vals s m).1.view = max s.view (nd.view + 1) := by
  rcases handleVote_cases vals s m with ⟨_, hf⟩ | ⟨e, rest, nd, _, _, _, _, hnd, hview, _, hst, hfl⟩
  · rw [hf] at h; exact absurd h (by simp)
  · refine ⟨nd, hnd, ?_⟩
    rw [hfl] at h
    rw [hst]
    obtain ⟨h1, h2⟩ := (collectVote_effect _ s m.id m.view e nd).2 h
    exact ⟨h1, by rw [h2, hview]⟩

/-! ### junk never helps -/

/-- Repeated votes: a vote of a member whose vote is already stored for the proposal leaves the vote log
exactly as it is — whatever was stored in between (the arrival order X, Y, X included). -/
theorem repeated_vote_ignored (vals : Int → List Nat) (s : State) (m : VoteMsg) (e : Entry) (rest es : List Entry)
    (hs : m.sigs = e :: rest) (hes : logOf s.log m.id = some es) (hin : e.addr ∈ es.map (·.addr)) :
    (handleVote vals s m).1.log = s.log := by
  rcases handleVote_cases vals s m with ⟨h, _⟩ | ⟨e', rest', nd, hs', _, _, _, _, _, _, hst, _⟩
  · rw [h]
  · rw [hs] at hs'
    have : e = e' := (List.cons.inj hs').1
    subst this
    rw [hst]
    apply collectVote_log_repeat
    rw [hes, Option.getD_some, List.any_eq_true]
    obtain ⟨x, hx, hxa⟩ := List.mem_map.mp hin
    exact ⟨x, hx, by simp [hxa]⟩

/-- Delivering the same vote message twice in a row stores nothing new. -/
theorem redelivery_ignored (vals : Int → List Nat) (s : State) (m : VoteMsg) :
    (handleVote vals (handleVote vals s m).1 m).1.log = (handleVote vals s m).1.log := by
  rcases handleVote_cases vals s m with ⟨h, _⟩ | ⟨e, rest, nd, hs, _, _, _, _, _, _, hst, _⟩
  · rw [h, h]
  · cases hany : ((logOf s.log m.id).getD []).any (fun x => x.addr == e.addr) with
    | true =>
      have hlog := collectVote_log_repeat (vals m.view).length s m.id m.view e nd hany
      cases hl : logOf s.log m.id with
      | none => simp [hl] at hany
      | some es =>
        apply repeated_vote_ignored vals _ m e rest es hs
        · rw [hst, hlog, hl]
        · rw [hl, Option.getD_some, List.any_eq_true] at hany
          obtain ⟨x, hx, hxa⟩ := hany
          exact List.mem_map.mpr ⟨x, hx, by simpa using hxa⟩
    | false =>
      have hlog := collectVote_log_new (vals m.view).length s m.id m.view e nd hany
      apply repeated_vote_ignored vals _ m e rest ((logOf s.log m.id).getD [] ++ [e]) hs
      · rw [hst, hlog, logOf_setLog_same]
      · simp

/-- Invalid signatures and non-members: a vote message whose first signature does not verify for the id it
names (wrong id, corrupted, key / address mismatch) or whose signer is not a member of the validator set
changes nothing. -/
theorem invalid_vote_ignored (vals : Int → List Nat) (s : State) (m : VoteMsg) (e : Entry) (rest : List Entry)
    (hs : m.sigs = e :: rest) (h : e.valid = false ∨ e.addr ∉ vals m.view) :
    handleVote vals s m = (s, .reject, false) := by
  unfold handleVote
  rw [hs]
  simp only []
  rcases h with h | h
  · by_cases hm : (vals m.view).contains e.addr = true
    · rw [if_neg (by rw [hm]; simp), if_pos (by simp [h])]
    · rw [if_pos (by simpa using hm)]
  · rw [if_pos (by simpa using h)]

/-- The collector's own vote changes nothing, also when it is the first vote to arrive. -/
theorem own_vote_ignored (vals : Int → List Nat) (s : State) (m : VoteMsg) (e : Entry) (rest : List Entry)
    (hs : m.sigs = e :: rest) (h : e.addr = s.self) :
    (handleVote vals s m).1 = s ∧ (handleVote vals s m).2.2 = false := by
  rcases handleVote_cases vals s m with h' | ⟨e', rest', nd, hs', _, _, _, _, _, hself, _, _⟩
  · exact h'
  · rw [hs] at hs'
    have : e = e' := (List.cons.inj hs').1
    subst this
    exact absurd h hself

/-- Votes for a proposal the collector does not hold in its tree, and votes that declare another view than
the local proposal's, change nothing. -/
theorem unknown_or_mislabelled_vote_ignored (vals : Int → List Nat) (s : State) (m : VoteMsg)
    (h : lookup s m.id = none ∨ ∃ nd, lookup s m.id = some nd ∧ nd.view ≠ m.view) :
    (handleVote vals s m).1 = s ∧ (handleVote vals s m).2.2 = false := by
  rcases handleVote_cases vals s m with h' | ⟨e', rest', nd, _, _, _, _, hnd, hview, _, _, _⟩
  · exact h'
  · rcases h with h | ⟨nd', hnd', hne⟩
    · rw [h] at hnd; exact absurd hnd (by simp)
    · rw [hnd'] at hnd
      have : nd' = nd := Option.some.inj hnd
      subst this
      exact absurd hview hne

/-- Extra signatures riding on a vote message are never looked at. -/
theorem rider_signatures_ignored (vals : Int → List Nat) (s : State) (id : Nat) (v : Int) (e : Entry)
    (rest : List Entry) : handleVote vals s ⟨id, v, e :: rest⟩ = handleVote vals s ⟨id, v, [e]⟩ := by
  simp [handleVote]

/-- Votes naming another id never touch the log of this id. -/
theorem other_id_vote_irrelevant (vals : Int → List Nat) (s : State) (m : VoteMsg) (id : Nat) (h : id ≠ m.id) :
    logOf (handleVote vals s m).1.log id = logOf s.log id := by
  rcases handleVote_cases vals s m with ⟨h', _⟩ | ⟨e, rest, nd, _, _, _, _, _, _, _, hst, _⟩
  · rw [h']
  · rw [hst]
    cases hany : ((logOf s.log m.id).getD []).any (fun x => x.addr == e.addr) with
    | true => rw [collectVote_log_repeat _ _ _ _ _ _ hany]
    | false => rw [collectVote_log_new _ _ _ _ _ _ hany, logOf_setLog_other _ _ _ _ h]

/-! ### the certificate the collector hands out -/

/-- On a list of valid entries of distinct members the counting loop of `CheckProposal` counts every entry. -/
theorem countLoop_clean (vals : List Nat) (es : List Entry) (seen : List Nat)
    (hall : ∀ e ∈ es, e.addr ∈ vals ∧ e.valid = true) (hnd : (es.map (·.addr)).Nodup)
    (hdis : ∀ e ∈ es, e.addr ∉ seen) :
    ∃ out, countLoop vals es seen = some out ∧ out.length = es.length + seen.length := by
  induction es generalizing seen with
  | nil => exact ⟨seen, rfl, by simp⟩
  | cons e es ih =>
    obtain ⟨hm, hv⟩ := hall e List.mem_cons_self
    have hns : e.addr ∉ seen := hdis e List.mem_cons_self
    rw [List.map_cons, List.nodup_cons] at hnd
    obtain ⟨hne, hnd'⟩ := hnd
    obtain ⟨out, hout, hlen⟩ := ih (e.addr :: seen) (fun x hx => hall x (List.mem_cons_of_mem _ hx)) hnd' (by
      intro x hx hmem
      rcases List.mem_cons.mp hmem with h | h
      · exact hne (List.mem_map.mpr ⟨x, hx, h⟩)
      · exact hdis x (List.mem_cons_of_mem _ hx) h)
    refine ⟨out, ?_, by simp at hlen ⊢; omega⟩
    unfold countLoop
    simp [hm, hv, hns, hout]

/-- After ANY history: when a vote message makes the collector declare a quorum for a proposal, the votes
it has stored for that proposal — the certificate it hands out as justify of its next proposal
(`GetCompleteHighQC`) — are accepted by `CheckProposal` against the validator set of the proposal's view,
carry no entry of the collector, and therefore (C14, full strength) carry valid signatures of a quorum of
distinct members besides the collector. -/
theorem declared_certificate_accepted (vals : Int → List Nat) (self : Nat) (evs : List Ev) (m : VoteMsg)
    (h : (handleVote vals (run vals (init self) evs) m).2.2 = true) :
    ∃ nd es, lookup (run vals (init self) evs) m.id = some nd ∧
      logOf (handleVote vals (run vals (init self) evs) m).1.log m.id = some es ∧
      checkProposal (vals nd.view) es = .accept ∧ (∀ e ∈ es, e.addr ≠ self) ∧
      quorum (vals nd.view).length ≤ (validMembersBut self (vals nd.view) es).length := by
  have hinv := logOk_run (fun _ => []) vals evs [] (init self) (logOk_init vals self)
  simp only [List.nil_append] at hinv
  have hinv' := logOk_vote (fun _ => []) vals (votesOf evs) _ m hinv
  rcases handleVote_cases vals (run vals (init self) evs) m with ⟨_, hf⟩ | ⟨e, rest, nd, _, hmem, _, _, hnd, hview, _, hst, hfl⟩
  · rw [hf] at h; exact absurd h (by simp)
  · rw [hfl] at h
    obtain ⟨es, hes, _, hthr⟩ := collectVote_declared _ _ _ _ _ _ h
    rw [← hst] at hes
    have hfn : findNode (handleVote vals (run vals (init self) evs) m).1.nodes m.id = some nd := by
      rw [hst, (collectVote_frame _ _ _ _ _ _).1]; exact lookup_findNode _ _ _ hnd
    have hself : (handleVote vals (run vals (init self) evs) m).1.self = self := by
      rw [hst, (collectVote_frame _ _ _ _ _ _).2.1, run_self]; rfl
    obtain ⟨nd', hnd', hnodup, hall⟩ := hinv' m.id es hes
    have : nd' = nd := by rw [hfn] at hnd'; exact (Option.some.inj hnd').symm
    subst this
    have hacc : checkProposal (vals nd'.view) es = .accept := by
      obtain ⟨out, hout, hlen⟩ := countLoop_clean (vals nd'.view) es []
        (fun x hx => ⟨(hall x hx).2.2.1, (hall x hx).1⟩) hnodup (by simp)
      unfold checkProposal
      rw [hout]
      simp only [List.length_nil, Nat.add_zero] at hlen
      simp only [hlen, hview, hthr, if_true]
    have hnc : ∀ x ∈ es, x.addr ≠ self := fun x hx => by
      have := (hall x hx).2.1; rw [hself] at this; exact this
    have hn : 1 ≤ (vals nd'.view).length := by
      rw [hview]; exact List.length_pos_of_mem hmem
    exact ⟨nd', es, hnd, hes, hacc, hnc, XV.C14.qc_needs_quorum_no_collector_entry self _ es hn hnc hacc⟩

/-- What the node puts into its next proposal message (`ProcessProposal` → `reloadJustifyQC`) and what
`GetCompleteHighQC` answers are the same votes: the log stored for HighQC. -/
theorem nextJustify_is_cert (s : State) (id : Nat) (es : List Entry) (h : nextJustify s = some (id, es))
    (hid : id ≠ s.genesis) : cert s = (id, es) := by
  unfold nextJustify at h
  split at h
  · rename_i hg
    simp only [Option.some.injEq, Prod.mk.injEq] at h
    have hg' : s.high.id = s.genesis := by simpa using hg
    exact absurd (h.1 ▸ hg') hid
  · cases hl : logOf s.log s.high.id with
    | none => simp [hl] at h
    | some es' =>
      simp only [hl, Option.map_some, Option.some.injEq, Prod.mk.injEq] at h
      obtain ⟨h1, h2⟩ := h
      subst h1 h2
      simp [cert, hl]

/-- After ANY history: when a vote message declares the quorum for proposal `m.id` and HighQC moves there,
the justify of the node's next proposal message names that proposal and carries votes that `CheckProposal`
accepts against the validator set of the proposal's view — valid signatures of a quorum of distinct members
besides the collector. -/
theorem declared_next_proposal_carries_quorum (vals : Int → List Nat) (self : Nat) (evs : List Ev) (m : VoteMsg)
    (h : (handleVote vals (run vals (init self) evs) m).2.2 = true)
    (hmove : (handleVote vals (run vals (init self) evs) m).1.high.id = m.id) (hid : m.id ≠ 0) :
    ∃ nd es, lookup (run vals (init self) evs) m.id = some nd ∧
      nextJustify (handleVote vals (run vals (init self) evs) m).1 = some (m.id, es) ∧
      checkProposal (vals nd.view) es = .accept ∧
      quorum (vals nd.view).length ≤ (validMembersBut self (vals nd.view) es).length := by
  obtain ⟨nd, es, hnd, hes, hacc, _, hq⟩ := declared_certificate_accepted vals self evs m h
  refine ⟨nd, es, hnd, ?_, hacc, hq⟩
  have hg : (handleVote vals (run vals (init self) evs) m).1.genesis = 0 := by
    rw [handleVote_genesis, run_genesis]; rfl
  unfold nextJustify
  rw [hmove, hg]
  have : (m.id == 0) = false := by simpa using hid
  simp [this, hes]

/-! ### the receiving side: a proposal message moves HighQC to the proposal its justify certifies -/

theorem inTree_append (ns l : List Node) (k id : Nat) (h : inTree ns k id = true) :
    inTree (ns ++ l) k id = true := by
  induction k generalizing id with
  | zero => simpa [inTree] using h
  | succ k ih =>
    unfold inTree at h ⊢
    rcases Bool.or_eq_true _ _ |>.mp h with h0 | h1
    · simp [h0]
    · cases hf : findNode ns id with
      | none => simp [hf] at h1
      | some nd =>
        rw [hf] at h1
        rw [findNode_append ns l id nd hf]
        simp only [Bool.or_eq_true]
        exact Or.inr (ih _ h1)

theorem inTree_fuel (ns : List Node) (k id : Nat) (h : inTree ns k id = true) : inTree ns (k + 1) id = true := by
  induction k generalizing id with
  | zero =>
    have : (id == 0) = true := by simpa [inTree] using h
    unfold inTree; simp [this]
  | succ k ih =>
    unfold inTree at h
    rcases Bool.or_eq_true _ _ |>.mp h with h0 | h1
    · unfold inTree; simp [h0]
    · cases hf : findNode ns id with
      | none => simp [hf] at h1
      | some nd =>
        rw [hf] at h1
        have := ih _ h1
        rw [inTree.eq_def]
        simp only [hf, Bool.or_eq_true]
        exact Or.inr this

/-- A proposal that is in the tree stays in the tree, as the same node, when another node is stored. -/
theorem lookup_append (s t : State) (x : Node) (id : Nat) (nd : Node) (ht : t.nodes = s.nodes ++ [x])
    (h : lookup s id = some nd) : lookup t id = some nd := by
  unfold lookup at h ⊢
  split at h
  · rename_i hin
    have h1 := inTree_fuel _ _ _ (inTree_append s.nodes [x] _ _ hin)
    rw [ht, List.length_append, List.length_singleton, if_pos h1]
    exact findNode_append _ _ _ _ h
  · simp at h

theorem lookup_congr (s t : State) (id : Nat) (h : t.nodes = s.nodes) : lookup t id = lookup s id := by
  unfold lookup; rw [h]

theorem insertNode_high (s : State) (p : PropMsg) (nd : Node) (hnd : lookup s p.parent = some nd) :
    (insertNode s p).high = s.high ∨ (insertNode s p).high = nd := by
  unfold insertNode
  split
  · exact Or.inl rfl
  · simp only []
    have := lookup_append s { s with nodes := s.nodes ++ [⟨p.id, p.view, p.parent⟩] } _ p.parent nd rfl hnd
    rw [this]
    simp only []
    split
    · exact Or.inl rfl
    · exact Or.inr rfl

theorem acceptProp_high (s : State) (p : PropMsg) (nd : Node) (hnd : lookup s p.parent = some nd) :
    (acceptProp s p).high = s.high ∨ (acceptProp s p).high = nd := by
  unfold acceptProp
  split
  · exact Or.inl rfl
  · simp only []
    split
    · exact Or.inl rfl
    · split
      · exact Or.inl rfl
      · split
        · exact Or.inl rfl
        · exact insertNode_high _ p nd (by rw [← hnd]; exact lookup_congr _ _ _ rfl)

/-- **Receiving side.**  A proposal message whose justify names a proposal that is in the local tree moves
HighQC nowhere but to that proposal, and only if the justify declares that proposal's own view and is
accepted by `CheckProposal` against the validator set in force for that view (the view of the LOCAL
proposal, not a view the unsigned justify header chooses). -/
theorem justify_checked_against_true_view (vals : Int → List Nat) (s : State) (p : PropMsg) (nd : Node)
    (hp : p.parent ≠ s.genesis) (hnd : lookup s p.parent = some nd) (hmove : (handleProp vals s p).high ≠ s.high) :
    (handleProp vals s p).high = nd ∧ nd.view = p.pview ∧ checkProposal (vals nd.view) p.just = .accept := by
  unfold handleProp at hmove ⊢
  split at hmove
  · exact absurd rfl hmove
  · rename_i hk
    simp only [] at hmove ⊢
    have hnd1 : lookup { s with known := p.id :: s.known } p.parent = some nd := by
      rw [← hnd]; exact lookup_congr _ _ _ rfl
    split at hmove
    · rename_i hj
      rw [if_neg hk, if_pos hj]
      have hj' := hj
      unfold justifyOk at hj'
      have hp' : (p.parent == ({ s with known := p.id :: s.known } : State).genesis) = false := by simpa using hp
      rw [hp', hnd1] at hj'
      simp only [Bool.false_eq_true, ↓reduceIte] at hj'
      split at hj'
      · simp at hj'
      · rename_i hv
        have hview : nd.view = p.pview := by simpa using hv
        split at hj'
        · simp at hj'
        · split at hj'
          · simp at hj'
          · have hacc : checkProposal (vals p.pview) p.just = .accept := by simpa using hj'
            rcases acceptProp_high _ p nd hnd1 with h | h
            · exact absurd h hmove
            · exact ⟨h, hview, by rw [hview]; exact hacc⟩
    · exact absurd rfl hmove

/-- `justify_checked_against_true_view`, stated for the proposal handler as it was found. -/
def justify_checked_against_true_view_as_found_statement : Prop :=
  ∀ (vals : Int → List Nat) (s : State) (p : PropMsg) (nd : Node), p.parent ≠ s.genesis → lookup s p.parent = some nd →
    (handlePropAsFound vals s p).high ≠ s.high → checkProposal (vals nd.view) p.just = .accept

/-! ### the code as found: three defects of the vote handler, refuted statements -/

def stepAsFound (vals : Int → List Nat) (s : State) : Ev → State
  | .vote m => (handleVoteAsFound vals s m).1
  | .prop p => handlePropAsFound vals s p

def runAsFound (vals : Int → List Nat) (s : State) (evs : List Ev) : State := evs.foldl (stepAsFound vals) s

/-- `declared_quorum_is_genuine`, stated for the vote handler as it was found. -/
def declared_quorum_is_genuine_as_found_statement : Prop :=
  ∀ (vals : Int → List Nat) (self : Nat) (evs : List Ev) (m : VoteMsg),
    (handleVoteAsFound vals (runAsFound vals (init self) evs) m).2.2 = true →
    ∃ nd, lookup (runAsFound vals (init self) evs) m.id = some nd ∧
      quorum (vals nd.view).length ≤
        (validMembersBut self (vals nd.view) (firstSigs m.id (votesOf evs ++ [m]))).length

private def five : Int → List Nat := fun _ => [0, 1, 2, 3, 4]
private def twoSets : Int → List Nat := fun v => if 2 ≤ v then [4, 5, 6, 7] else [0, 1, 2, 3]
private def prop1 : Ev := .prop ⟨1, 1, 0, 0, []⟩

/-- As found (repaired by the `fix:` commit "the vote collector stores only the verified first signature"): the whole signature list of the first vote message was stored
although only its first signature is verified.  n = 5, collector 0: member 1 votes with two non-member
signatures riding along, then member 2 votes — quorum declared with 2 voters of the 3 required. -/
theorem rider_signatures_counted_as_found_counterexample : ¬ declared_quorum_is_genuine_as_found_statement := by
  intro h
  obtain ⟨nd, hnd, hq⟩ := h five 0 [prop1, .vote ⟨1, 1, [⟨1, true⟩, ⟨5, true⟩, ⟨6, true⟩]⟩] ⟨1, 1, [⟨2, true⟩]⟩ (by decide)
  have : lookup (runAsFound five (init 0) [prop1, .vote ⟨1, 1, [⟨1, true⟩, ⟨5, true⟩, ⟨6, true⟩]⟩]) 1 = some ⟨1, 1, 0⟩ := by decide
  rw [this] at hnd
  cases hnd
  revert hq
  decide

/-- As found (repaired by the `fix:` commit "the vote collector ignores its own vote also when it is the first to arrive"): the collector's own vote was ignored only when another vote
was already stored; arriving first it was stored and counted on top of the implicit +1 of the threshold.
n = 5, collector 0: own vote, then members 1 and 2 — quorum declared with 2 other voters of the 3 required. -/
theorem own_vote_first_counted_as_found_counterexample : ¬ declared_quorum_is_genuine_as_found_statement := by
  intro h
  obtain ⟨nd, hnd, hq⟩ := h five 0 [prop1, .vote ⟨1, 1, [⟨0, true⟩]⟩, .vote ⟨1, 1, [⟨1, true⟩]⟩] ⟨1, 1, [⟨2, true⟩]⟩ (by decide)
  have : lookup (runAsFound five (init 0) [prop1, .vote ⟨1, 1, [⟨0, true⟩]⟩, .vote ⟨1, 1, [⟨1, true⟩]⟩]) 1 = some ⟨1, 1, 0⟩ := by decide
  rw [this] at hnd
  cases hnd
  revert hq
  decide

/-- As found (repaired by the `fix:` commit "the vote collector drops a vote whose declared view differs"): the view a vote DECLARES (not covered by its signature) selected
the validator set and the threshold.  Sets {0,1,2,3} for view 1 and {4,5,6,7} from view 2 on, collector 0,
proposal 1 of view 1: members 4 and 5 of the later set vote "for view 2" — quorum declared with no voter
of the proposal's own set. -/
theorem declared_view_selects_set_as_found_counterexample : ¬ declared_quorum_is_genuine_as_found_statement := by
  intro h
  obtain ⟨nd, hnd, hq⟩ := h twoSets 0 [prop1, .vote ⟨1, 2, [⟨4, true⟩]⟩] ⟨1, 2, [⟨5, true⟩]⟩ (by decide)
  have : lookup (runAsFound twoSets (init 0) [prop1, .vote ⟨1, 2, [⟨4, true⟩]⟩]) 1 = some ⟨1, 1, 0⟩ := by decide
  rw [this] at hnd
  cases hnd
  revert hq
  decide

/-- As found (repaired by the `fix:` commit "a received proposal whose justify declares another view than the
local proposal it certifies is refused"): the justify was checked against the validator set of the view it
DECLARES.  Sets {0,1,2,3} for view 1 and {4,5,6,7} from view 2 on: a justify naming proposal 1 (view 1),
declaring view 2 and signed by 4, 5, 6, 7 moved HighQC to proposal 1. -/
theorem justify_declared_view_as_found_counterexample : ¬ justify_checked_against_true_view_as_found_statement := by
  intro h
  have := h twoSets (run twoSets (init 0) [prop1]) ⟨2, 2, 1, 2, [⟨4, true⟩, ⟨5, true⟩, ⟨6, true⟩, ⟨7, true⟩]⟩ ⟨1, 1, 0⟩
    (by decide) (by decide) (by decide)
  revert this
  decide

/-! ### a collector restarted on a ledger -/

/-- The restart state proper (the root of the rebuilt tree is not the genesis of the instance) needs a tip
above StartHeight and at least three blocks below it; the root is the block `tip - 3`. -/
theorem restarted_spec (start tip : Nat) (h : restarted start tip = true) :
    3 ≤ tip ∧ start < tip ∧ rootHeight start tip = tip - 3 := by
  unfold restarted rootHeight at h
  unfold rootHeight
  by_cases h1 : tip ≤ start
  · simp [h1] at h
  · by_cases h2 : tip < 3
    · simp [h1, h2] at h
      omega
    · simp [h1, h2]
      omega

theorem findNode_range_map (f : Nat → Node) (hf : ∀ i, (f i).id = i) (n k : Nat) (hk : k < n) :
    findNode ((List.range n).map f) k = some (f k) := by
  induction n with
  | zero => omega
  | succ n ih =>
    rw [List.range_succ, List.map_append]
    by_cases hkn : k < n
    · exact findNode_append _ _ _ _ (ih hkn)
    · have hkn' : k = n := by omega
      subst hkn'
      unfold findNode
      rw [List.find?_append]
      have hnone : ((List.range k).map f).find? (fun nd => nd.id == k) = none := by
        rw [List.find?_eq_none]
        intro x hx
        obtain ⟨i, hi, hxi⟩ := List.mem_map.mp hx
        subst hxi
        have : i < k := List.mem_range.mp hi
        simp [hf i]; omega
      rw [hnone]
      simp [hf k]

/-- the entries a restarted collector holds for proposal `id` before any message arrives -/
def loadedFor (self start tip : Nat) (just : Nat → List Entry) (id : Nat) : List Entry :=
  (logOf (restart self start tip just).log id).getD []

theorem mem_loadOne (start : Nat) (just : Nat → List Entry) (b : Nat) (c : Nat × List Entry)
    (h : c ∈ loadOne start just b) : start < b ∧ c = (b - 1, just b) := by
  unfold loadOne at h
  split at h
  · rename_i hb
    simp only [List.mem_singleton] at h
    exact ⟨hb.1, h⟩
  · simp at h

/-- Whatever a restarted collector holds for a proposal id is the justify certificate stored in one of the
last three ledger blocks, and it is held for the PREDECESSOR of the block that stores it - the block the
certificate certifies -, never for another block. -/
theorem restart_log_mem (self start tip : Nat) (just : Nat → List Entry) (id : Nat) (es : List Entry)
    (h : logOf (restart self start tip just).log id = some es) :
    restarted start tip = true ∧ ∃ b, (b = tip ∨ b = tip - 1 ∨ b = tip - 2) ∧ start < b ∧
      id = relId (rootHeight start tip) (b - 1) ∧ es = just b := by
  unfold logOf at h
  obtain ⟨p, hp, hpe⟩ := Option.map_eq_some_iff.mp h
  have hmem := List.mem_of_find?_eq_some hp
  have hid : p.1 = id := by simpa using List.find?_some hp
  simp only [restart] at hmem
  obtain ⟨c, hc, hcp⟩ := List.mem_map.mp hmem
  unfold loadedCerts at hc
  split at hc
  · rename_i hr
    refine ⟨hr, ?_⟩
    have hb : ∃ b, (b = tip ∨ b = tip - 1 ∨ b = tip - 2) ∧ start < b ∧ c = (b - 1, just b) := by
      rcases List.mem_append.mp hc with hc | hc
      · rcases List.mem_append.mp hc with hc | hc
        · exact ⟨tip, Or.inl rfl, mem_loadOne _ _ _ _ hc⟩
        · exact ⟨tip - 1, Or.inr (Or.inl rfl), mem_loadOne _ _ _ _ hc⟩
      · exact ⟨tip - 2, Or.inr (Or.inr rfl), mem_loadOne _ _ _ _ hc⟩
    obtain ⟨b, hb1, hb2, hcb⟩ := hb
    refine ⟨b, hb1, hb2, ?_, ?_⟩
    · rw [← hid, ← hcp, hcb]
    · rw [← hpe, ← hcp, hcb]
  · simp at hc

/-- the certificates of the ledger are clean: valid signatures of distinct members (of every view's set) other
than the node itself - what an honest collector, this node included, assembles -/
def CleanCerts (vals : Int → List Nat) (self : Nat) (just : Nat → List Entry) : Prop :=
  ∀ b, ((just b).map (·.addr)).Nodup ∧ ∀ e ∈ just b, e.valid = true ∧ e.addr ≠ self ∧ ∀ v, e.addr ∈ vals v

/-- The vote log of a collector restarted on a ledger with clean certificates satisfies the invariant, with
the loaded certificates as the entries held before the history begins. -/
theorem restart_logOk (vals : Int → List Nat) (self start tip : Nat) (just : Nat → List Entry)
    (hc : CleanCerts vals self just) :
    LogOk (loadedFor self start tip just) vals [] (restart self start tip just) := by
  intro id es hes
  obtain ⟨hr, b, hb, hsb, hid, hesb⟩ := restart_log_mem self start tip just id es hes
  obtain ⟨h3, hst, hroot⟩ := restarted_spec start tip hr
  have hk : id < tip + 1 - rootHeight start tip := by
    rw [hid, hroot]; unfold relId; split <;> omega
  refine ⟨_, findNode_range_map _ (fun _ => rfl) _ id hk, ?_, ?_⟩
  · rw [hesb]; exact (hc b).1
  · intro e he
    rw [hesb] at he
    obtain ⟨h1, h2, h3⟩ := (hc b).2 e he
    refine ⟨h1, h2, h3 _, ?_⟩
    apply List.mem_append_left
    unfold loadedFor
    rw [hes, hesb]
    exact he

/-- **Collection-side C14 after a restart.**  For every ledger (StartHeight, tip, clean certificates in its last
blocks), every validator-set function and every history of proposal and vote messages received after the
restart: a vote message makes the restarted collector declare a quorum only if the proposal it names is in
the tree under the view the vote declares and valid signatures over that id come from at least
`n - ⌊(n-1)/3⌋ - 1` distinct members besides the collector - signatures that arrived, after the restart, as
first signature of a vote message naming the id, or that the ledger's certificate FOR THAT ID carries. -/
theorem restart_declared_quorum_is_genuine (vals : Int → List Nat) (self start tip : Nat) (just : Nat → List Entry)
    (hc : CleanCerts vals self just) (evs : List Ev) (m : VoteMsg)
    (h : (handleVote vals (run vals (restart self start tip just) evs) m).2.2 = true) :
    ∃ nd, lookup (run vals (restart self start tip just) evs) m.id = some nd ∧ nd.view = m.view ∧
      quorum (vals nd.view).length ≤
        (validMembersBut self (vals nd.view)
          (loadedFor self start tip just m.id ++ firstSigs m.id (votesOf evs ++ [m]))).length :=
  declared_quorum_from (loadedFor self start tip just) vals (restart self start tip just)
    (restart_logOk vals self start tip just hc) evs m h

/-- Nothing is held for the tip block after a restart (its certificate is in no ledger block yet), nor for any
block above it. -/
theorem restart_tip_not_loaded (self start tip : Nat) (just : Nat → List Entry) (h : Nat) (hh : tip ≤ h) :
    loadedFor self start tip just (relId (rootHeight start tip) h) = [] := by
  unfold loadedFor
  cases hl : logOf (restart self start tip just).log (relId (rootHeight start tip) h) with
  | none => rfl
  | some es =>
    obtain ⟨hr, b, hb, hsb, hid, _⟩ := restart_log_mem self start tip just _ es hl
    obtain ⟨h3, _, hroot⟩ := restarted_spec start tip hr
    rw [hroot] at hid
    unfold relId at hid
    split at hid <;> split at hid <;> omega

/-- Hence the quorum a restarted collector declares for its tip block (the block it collects for when it was the
next leader) rests on votes that arrived after the restart alone: no signature taken from the ledger helps. -/
theorem restart_tip_quorum_needs_arrived_votes (vals : Int → List Nat) (self start tip : Nat) (just : Nat → List Entry)
    (hc : CleanCerts vals self just) (evs : List Ev) (m : VoteMsg) (hm : m.id = relId (rootHeight start tip) tip)
    (h : (handleVote vals (run vals (restart self start tip just) evs) m).2.2 = true) :
    ∃ nd, lookup (run vals (restart self start tip just) evs) m.id = some nd ∧ nd.view = m.view ∧
      quorum (vals nd.view).length ≤
        (validMembersBut self (vals nd.view) (firstSigs m.id (votesOf evs ++ [m]))).length := by
  obtain ⟨nd, h1, h2, h3⟩ := restart_declared_quorum_is_genuine vals self start tip just hc evs m h
  refine ⟨nd, h1, h2, ?_⟩
  rw [hm, restart_tip_not_loaded self start tip just tip (Nat.le_refl _), List.nil_append, ← hm] at h3
  exact h3

/-! ### non-vacuity -/

-- n = 5, collector 0: the votes of members 1, 2 (delivered twice), 3 — the third distinct voter declares the
-- quorum, HighQC moves to proposal 1, the view to 2, and the certificate is 1, 2, 3
example :
    let s := run five (init 0) [prop1, .vote ⟨1, 1, [⟨1, true⟩]⟩, .vote ⟨1, 1, [⟨2, true⟩]⟩, .vote ⟨1, 1, [⟨1, true⟩]⟩]
    (handleVote five s ⟨1, 1, [⟨2, true⟩]⟩).2.2 = false ∧ (handleVote five s ⟨1, 1, [⟨3, true⟩]⟩).2.2 = true ∧
    (handleVote five s ⟨1, 1, [⟨3, true⟩]⟩).1.high.id = 1 ∧ (handleVote five s ⟨1, 1, [⟨3, true⟩]⟩).1.view = 2 ∧
    (cert (handleVote five s ⟨1, 1, [⟨3, true⟩]⟩).1).2.map (·.addr) = [1, 2, 3] := by decide
-- the same arrivals with junk in between (own vote, non-member, invalid signature, vote declaring view 2,
-- vote for the root) declare nothing before the third distinct voter
example :
    let s := run five (init 0) [prop1, .vote ⟨1, 1, [⟨0, true⟩]⟩, .vote ⟨1, 1, [⟨1, true⟩, ⟨5, true⟩, ⟨6, true⟩]⟩,
      .vote ⟨1, 1, [⟨7, true⟩]⟩, .vote ⟨1, 1, [⟨3, false⟩]⟩, .vote ⟨1, 2, [⟨3, true⟩]⟩, .vote ⟨0, 0, [⟨3, true⟩]⟩,
      .vote ⟨1, 1, [⟨2, true⟩]⟩, .vote ⟨1, 1, [⟨1, true⟩]⟩]
    s.high.id = 0 ∧ s.view = 1 ∧ (logOf s.log 1).map (·.map (·.addr)) = some [1, 2] := by decide

-- n = 3, the node is validator 0, ledger 0..4 with StartHeight 1, every justify signed by 1 and 2: after the
-- restart HighQC is block 3 (id 2), the view 3, the certificates of blocks 1, 2, 3 are held under ids 0, 1, 2,
-- nothing for the tip (id 3); the tip's proposal arrives again; ONE vote declares nothing, the second one does
private def three : Int → List Nat := fun _ => [0, 1, 2]
private def j12 : Nat → List Entry := fun b => if b ≤ 1 then [] else [⟨1, true⟩, ⟨2, true⟩]
example :
    let s0 := restart 0 1 4 j12
    s0.high.id = 2 ∧ s0.view = 3 ∧ s0.genesis = 100 ∧ loadedFor 0 1 4 j12 2 = [⟨1, true⟩, ⟨2, true⟩] ∧ loadedFor 0 1 4 j12 3 = [] ∧
    (let s := run three s0 [.prop ⟨3, 4, 2, 3, [⟨1, true⟩, ⟨2, true⟩]⟩]
     (handleVote three s ⟨3, 4, [⟨1, true⟩]⟩).2.2 = false ∧
     (handleVote three (handleVote three s ⟨3, 4, [⟨1, true⟩]⟩).1 ⟨3, 4, [⟨2, true⟩]⟩).2.2 = true ∧
     (handleVote three (handleVote three s ⟨3, 4, [⟨1, true⟩]⟩).1 ⟨3, 4, [⟨2, true⟩]⟩).1.high.id = 3) := by decide
-- the votes for the tip are dropped until its proposal message arrives again (a restarted node knows the root only)
example : (handleVote three (restart 0 1 4 j12) ⟨3, 4, [⟨1, true⟩]⟩).2.1 = .drop := by decide

end XV.C14c
