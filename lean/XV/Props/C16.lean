import XV.Model.SlotSched
import XV.Model.Pow
import Mathlib.Tactic.Ring
/-!
C16 — only the entitled producer's block is accepted (slot schedule, single, PoW).

The schedule theorems are about `XV.Gen.tdposMinerScheduling` / `XV.Gen.xpoaMinerScheduling`,
the definitions regenerated from `bcs/consensus/{tdpos,xpoa}/schedule.go` on every run
(`tdSched` / `xpSched` are the same functions with the configuration bundled, see
`tdSched_is_generated`, `xpSched_is_generated`).  Timestamps are nanoseconds, `T = ts / 10^6` is
the millisecond the code works with.  `private theorem`s are helper lemmas.
-/
namespace XV.C16
open XV.Sched
set_option linter.unnecessarySeqFocus false

/-- well-formedness demanded by the source comment of `minerScheduling` -/
structure WF (c : TdCfg) : Prop where
  period_pos : 0 < c.period
  bn_pos : 1 ≤ c.bn
  pn_pos : 1 ≤ c.pn
  alt_ge : c.period ≤ c.alt
  term_ge : c.alt ≤ c.term
  init_nonneg : 0 ≤ c.init

/-- length of one term in ms (the expression of the source) -/
def termTime (c : TdCfg) : Int := c.term + (c.bn - 1) * c.pn * c.period + (c.pn - 1) * c.alt
/-- length of one proposer's turn in ms -/
def posTime (c : TdCfg) : Int := c.alt + c.period * (c.bn - 1)

private theorem posTime_pos {c : TdCfg} (wf : WF c) : 0 < posTime c := by
  have := wf.period_pos; have := wf.alt_ge; have h := wf.bn_pos
  have : 0 ≤ c.period * (c.bn - 1) := Int.mul_nonneg (by omega) (by omega)
  unfold posTime; omega

private theorem termTime_eq (c : TdCfg) : termTime c = c.term - c.alt + c.pn * posTime c := by
  unfold termTime posTime; ring

private theorem termTime_pos {c : TdCfg} (wf : WF c) : 0 < termTime c := by
  rw [termTime_eq]
  have h1 := posTime_pos wf
  have h2 := wf.pn_pos
  have : 1 * posTime c ≤ c.pn * posTime c := Int.mul_le_mul_of_nonneg_right h2 (by omega)
  have := wf.term_ge
  omega

/-- the schedule as a function of the millisecond `T = ts / 10^6`, in floor-division form -/
def slotOf (c : TdCfg) (T : Int) : Int × Int × Int :=
  let d := T - c.init / 1000000
  let q := d / termTime c
  let r := d % termTime c
  if r ≤ c.term - c.alt then (q + 1, 0, -1) else
  let r2 := r - (c.term - c.alt)
  let p := r2 / posTime c
  let r3 := r2 % posTime c
  if r3 ≤ c.alt - c.period then (q + 1, p, -1) else (q + 1, p, (r3 - (c.alt - c.period)) / c.period)

private theorem gen_eq_slotOf {c : TdCfg} (wf : WF c) {ts : Int} (h : c.init ≤ ts) :
    tdSched c ts = slotOf c (ts / 1000000) := by
  have hi := wf.init_nonneg
  have hts : 0 ≤ ts := by omega
  have hT : c.init / 1000000 ≤ ts / 1000000 := Int.ediv_le_ediv (by omega) h
  have htt := termTime_pos wf
  have hpt := posTime_pos wf
  have hp := wf.period_pos
  unfold tdSched XV.Gen.tdposMinerScheduling slotOf
  simp only [Int.tdiv_eq_ediv_of_nonneg hts, Int.tdiv_eq_ediv_of_nonneg hi]
  have hnl : ¬ (ts < c.init) := by omega
  simp only [hnl, decide_false, Bool.false_eq_true, if_false]
  generalize hTd : ts / 1000000 = T at *
  generalize hId : c.init / 1000000 = I at *
  have hd : 0 ≤ T - I := by omega
  have ett : c.term + (c.bn - 1) * c.pn * c.period + (c.pn - 1) * c.alt = termTime c := rfl
  have ept : c.alt + c.period * (c.bn - 1) = posTime c := rfl
  simp only [ett, ept, Int.tdiv_eq_ediv_of_nonneg hd]
  have hdm := Int.emod_add_mul_ediv (T - I) (termTime c)
  have hr0 := Int.emod_nonneg (T - I) (Int.ne_of_gt htt)
  have hr1 := Int.emod_lt_of_pos (T - I) htt
  generalize (T - I) / termTime c = q at *
  generalize (T - I) % termTime c = r at *
  have e1 : (q + 1 - 1) * termTime c = termTime c * q := by rw [Int.add_sub_cancel, Int.mul_comm]
  simp only [e1]
  by_cases hc1 : r ≤ c.term - c.alt
  · have : I + termTime c * q + c.term - c.alt ≥ T := by omega
    simp [this, hc1]
  · have hn : ¬ (I + termTime c * q + c.term - c.alt ≥ T) := by omega
    simp only [hn, decide_false, Bool.false_eq_true, if_false, hc1]
    have e2 : T - (I + termTime c * q + c.term - c.alt) = r - (c.term - c.alt) := by omega
    have hr2 : 0 ≤ r - (c.term - c.alt) := by omega
    simp only [e2, Int.tdiv_eq_ediv_of_nonneg hr2]
    have hdm2 := Int.emod_add_mul_ediv (r - (c.term - c.alt)) (posTime c)
    have hs0 := Int.emod_nonneg (r - (c.term - c.alt)) (Int.ne_of_gt hpt)
    generalize (r - (c.term - c.alt)) / posTime c = p at *
    generalize (r - (c.term - c.alt)) % posTime c = r3 at *
    by_cases hc2 : r3 ≤ c.alt - c.period
    · have : I + termTime c * q + c.term - c.alt + p * posTime c + c.alt - c.period ≥ T := by
        have : p * posTime c = posTime c * p := Int.mul_comm _ _
        omega
      simp [this, hc2]
    · have hn2 : ¬ (I + termTime c * q + c.term - c.alt + p * posTime c + c.alt - c.period ≥ T) := by
        have : p * posTime c = posTime c * p := Int.mul_comm _ _
        omega
      simp only [hn2, decide_false, Bool.false_eq_true, if_false, hc2]
      have e3 : T - (I + termTime c * q + c.term - c.alt + p * posTime c + c.alt - c.period) = r3 - (c.alt - c.period) := by
        have : p * posTime c = posTime c * p := Int.mul_comm _ _
        omega
      have hr3 : 0 ≤ r3 - (c.alt - c.period) := by omega
      simp only [e3, Int.tdiv_eq_ediv_of_nonneg hr3]

/-- case analysis of `slotOf` with every quotient / remainder named and bounded -/
private theorem slotOf_cases {c : TdCfg} (wf : WF c) {T : Int} (hT : c.init / 1000000 ≤ T) :
    ∃ q r, q = (T - c.init / 1000000) / termTime c ∧ 0 ≤ q ∧ 0 ≤ r ∧ r < termTime c ∧
      T - c.init / 1000000 = termTime c * q + r ∧
      ((r ≤ c.term - c.alt ∧ slotOf c T = (q + 1, 0, -1)) ∨
       (c.term - c.alt < r ∧ ∃ p r3, p = (r - (c.term - c.alt)) / posTime c ∧ 0 ≤ p ∧ p < c.pn ∧ 0 ≤ r3 ∧ r3 < posTime c ∧
          r - (c.term - c.alt) = posTime c * p + r3 ∧
          ((r3 ≤ c.alt - c.period ∧ slotOf c T = (q + 1, p, -1)) ∨
           (c.alt - c.period < r3 ∧ ∃ k s, k = (r3 - (c.alt - c.period)) / c.period ∧ 0 ≤ k ∧ k < c.bn ∧ 0 ≤ s ∧ s < c.period ∧
              r3 - (c.alt - c.period) = c.period * k + s ∧ slotOf c T = (q + 1, p, k))))) := by
  have htt := termTime_pos wf
  have hpt := posTime_pos wf
  have hp := wf.period_pos
  have hd : 0 ≤ T - c.init / 1000000 := by omega
  refine ⟨(T - c.init / 1000000) / termTime c, (T - c.init / 1000000) % termTime c, rfl,
    Int.ediv_nonneg hd (by omega), Int.emod_nonneg _ (by omega), Int.emod_lt_of_pos _ htt,
    (Int.mul_ediv_add_emod _ _).symm, ?_⟩
  unfold slotOf
  simp only []
  have hr1 := Int.emod_lt_of_pos (T - c.init / 1000000) htt
  generalize (T - c.init / 1000000) / termTime c = q
  generalize (T - c.init / 1000000) % termTime c = r at *
  by_cases hc1 : r ≤ c.term - c.alt
  · left; simp [hc1]
  · right
    refine ⟨by omega, (r - (c.term - c.alt)) / posTime c, (r - (c.term - c.alt)) % posTime c, rfl, ?_, ?_,
      Int.emod_nonneg _ (by omega), Int.emod_lt_of_pos _ hpt, (Int.mul_ediv_add_emod _ _).symm, ?_⟩
    · exact Int.ediv_nonneg (by omega) (by omega)
    · apply Int.ediv_lt_of_lt_mul hpt
      have := termTime_eq c
      omega
    · simp only [hc1, if_false]
      have hs1 := Int.emod_lt_of_pos (r - (c.term - c.alt)) hpt
      generalize (r - (c.term - c.alt)) / posTime c = p
      generalize (r - (c.term - c.alt)) % posTime c = r3 at *
      by_cases hc2 : r3 ≤ c.alt - c.period
      · left; simp [hc2]
      · right
        refine ⟨by omega, (r3 - (c.alt - c.period)) / c.period, (r3 - (c.alt - c.period)) % c.period, rfl, ?_, ?_,
          Int.emod_nonneg _ (by omega), Int.emod_lt_of_pos _ hp, (Int.mul_ediv_add_emod _ _).symm, ?_⟩
        · exact Int.ediv_nonneg (by omega) (by omega)
        · apply Int.ediv_lt_of_lt_mul hp
          have : c.bn * c.period = c.period * (c.bn - 1) + c.period := by ring
          unfold posTime at hs1
          omega
        · simp [hc2]

/-- **Range** (on the floor-division form). -/
private theorem slotOf_range {c : TdCfg} (wf : WF c) {T : Int} (hT : c.init / 1000000 ≤ T) :
    1 ≤ (slotOf c T).1 ∧ 0 ≤ (slotOf c T).2.1 ∧ (slotOf c T).2.1 < c.pn ∧
    -1 ≤ (slotOf c T).2.2 ∧ (slotOf c T).2.2 < c.bn := by
  have hpn := wf.pn_pos; have hbn := wf.bn_pos
  obtain ⟨q, r, -, hq, -, -, -, h⟩ := slotOf_cases wf hT
  rcases h with ⟨-, e⟩ | ⟨-, p, r3, -, hp0, hp1, -, -, -, h⟩
  · rw [e]; simp; omega
  · rcases h with ⟨-, e⟩ | ⟨-, k, s, -, hk0, hk1, -, -, -, e⟩
    · rw [e]; simp; omega
    · rw [e]; simp; omega

/-- first millisecond-offset of the turn of proposer `p` in term `t` (its slot 0 starts right after it) -/
def turnBase (c : TdCfg) (t p : Int) : Int :=
  c.init / 1000000 + (t - 1) * termTime c + (c.term - c.period) + p * posTime c
/-- the milliseconds of slot `k` of proposer `p` in term `t` are `[slotLo, slotHi)` -/
def slotLo (c : TdCfg) (t p k : Int) : Int := turnBase c t p + (if k = 0 then 1 else k * c.period)
def slotHi (c : TdCfg) (t p k : Int) : Int := turnBase c t p + (k + 1) * c.period

private theorem slotOf_eq_iff {c : TdCfg} (wf : WF c) {T : Int} (hT : c.init / 1000000 ≤ T)
    {t p k : Int} (hp0 : 0 ≤ p) (hp1 : p < c.pn) (hk0 : 0 ≤ k) (hk1 : k < c.bn) :
    slotOf c T = (t, p, k) ↔ slotLo c t p k ≤ T ∧ T < slotHi c t p k := by
  have htt := termTime_pos wf
  have hpt := posTime_pos wf
  have hper := wf.period_pos
  have halt := wf.alt_ge
  have hterm := wf.term_ge
  have e1 : (t - 1) * termTime c = termTime c * (t - 1) := Int.mul_comm _ _
  have e2 : p * posTime c = posTime c * p := Int.mul_comm _ _
  have e3 : (k + 1) * c.period = c.period * k + c.period := by ring
  have e4 : k * c.period = c.period * k := Int.mul_comm _ _
  unfold slotLo slotHi turnBase
  constructor
  · intro h
    obtain ⟨q, r, -, hq, hr0, hr1, hd, hc⟩ := slotOf_cases wf hT
    rcases hc with ⟨-, e⟩ | ⟨-, p', r3, -, -, -, -, -, hr2, hc⟩
    · rw [e] at h; simp only [Prod.mk.injEq] at h; omega
    · rcases hc with ⟨-, e⟩ | ⟨hgt, k', s, -, -, -, hs0, hs1, hr3, e⟩
      · rw [e] at h; simp only [Prod.mk.injEq] at h; omega
      · rw [e] at h; simp only [Prod.mk.injEq] at h
        obtain ⟨hq', hp', hk'⟩ := h
        subst hp' hk'
        have hq'' : q = t - 1 := by omega
        subst hq''
        by_cases hk : k' = 0
        · subst hk; simp only [if_true]; simp only [Int.mul_zero] at hr3; omega
        · simp only [hk, if_false]; omega
  · rintro ⟨hlo, hhi⟩
    -- the offset inside the slot
    have hkper : 0 ≤ c.period * k := Int.mul_nonneg (by omega) hk0
    have hppt : 0 ≤ posTime c * p := Int.mul_nonneg (by omega) hp0
    have hkmax : c.period * k ≤ c.period * (c.bn - 1) := Int.mul_le_mul_of_nonneg_left (by omega) (by omega)
    have hpmax : posTime c * p ≤ posTime c * (c.pn - 1) := Int.mul_le_mul_of_nonneg_left (by omega) (by omega)
    have e5 : posTime c * (c.pn - 1) = c.pn * posTime c - posTime c := by ring
    have hpt_def : posTime c = c.alt + c.period * (c.bn - 1) := rfl
    have htt_eq := termTime_eq c
    let s := T - (c.init / 1000000 + (t - 1) * termTime c + (c.term - c.period) + p * posTime c) - c.period * k
    have hs_def : s = T - (c.init / 1000000 + (t - 1) * termTime c + (c.term - c.period) + p * posTime c) - c.period * k := rfl
    have hs0 : 0 ≤ s ∧ (k = 0 → 1 ≤ s) := by
      by_cases hk : k = 0
      · subst hk; simp only [if_true] at hlo; simp only [Int.mul_zero] at hs_def; omega
      · simp only [hk, if_false] at hlo; omega
    have hs1 : s < c.period := by omega
    generalize s = s' at *
    have hks : 1 ≤ c.period * k + s' := by
      by_cases hk : k = 0
      · have := hs0.2 hk; omega
      · have : c.period * 1 ≤ c.period * k := Int.mul_le_mul_of_nonneg_left (by omega) (by omega)
        omega
    -- level 1: term
    have hL1 : (T - c.init / 1000000) / termTime c = t - 1 ∧
        (T - c.init / 1000000) % termTime c = c.term - c.period + posTime c * p + c.period * k + s' := by
      rw [Int.ediv_emod_unique htt]
      refine ⟨by omega, by omega, by omega⟩
    -- level 2: proposer
    have hL2 : (c.term - c.period + posTime c * p + c.period * k + s' - (c.term - c.alt)) / posTime c = p ∧
        (c.term - c.period + posTime c * p + c.period * k + s' - (c.term - c.alt)) % posTime c = c.alt - c.period + c.period * k + s' := by
      rw [Int.ediv_emod_unique hpt]
      refine ⟨by omega, by omega, by omega⟩
    -- level 3: slot
    have hL3 : (c.alt - c.period + c.period * k + s' - (c.alt - c.period)) / c.period = k := by
      have : (c.alt - c.period + c.period * k + s' - (c.alt - c.period)) / c.period = k ∧
          (c.alt - c.period + c.period * k + s' - (c.alt - c.period)) % c.period = s' := by
        rw [Int.ediv_emod_unique hper]
        refine ⟨by omega, by omega, by omega⟩
      exact this.1
    unfold slotOf
    simp only [hL1.1, hL1.2]
    have hn1 : ¬ (c.term - c.period + posTime c * p + c.period * k + s' ≤ c.term - c.alt) := by omega
    simp only [hn1, if_false, hL2.1, hL2.2]
    have hn2 : ¬ (c.alt - c.period + c.period * k + s' ≤ c.alt - c.period) := by omega
    simp only [hn2, if_false, hL3]
    simp

/-- lexicographic order on (term, pos, blockPos); hand-over gaps carry blockPos = -1 and the
position of the proposer whose turn comes next -/
def lexLE (a b : Int × Int × Int) : Prop :=
  a.1 < b.1 ∨ (a.1 = b.1 ∧ (a.2.1 < b.2.1 ∨ (a.2.1 = b.2.1 ∧ a.2.2 ≤ b.2.2)))

private theorem slotOf_mono {c : TdCfg} (wf : WF c) {T₁ T₂ : Int} (h1 : c.init / 1000000 ≤ T₁) (h12 : T₁ ≤ T₂) :
    lexLE (slotOf c T₁) (slotOf c T₂) := by
  have htt := termTime_pos wf
  have hpt := posTime_pos wf
  have hper := wf.period_pos
  obtain ⟨q₁, r₁, hq₁, -, -, -, hd₁, hc₁⟩ := slotOf_cases wf h1
  obtain ⟨q₂, r₂, hq₂, -, -, -, hd₂, hc₂⟩ := slotOf_cases wf (by omega : c.init / 1000000 ≤ T₂)
  have hq : q₁ ≤ q₂ := by rw [hq₁, hq₂]; exact Int.ediv_le_ediv htt (by omega)
  unfold lexLE
  by_cases hqq : q₁ < q₂
  · left
    rcases hc₁ with ⟨-, e₁⟩ | ⟨-, _, _, -, -, -, -, -, -, ⟨-, e₁⟩ | ⟨-, _, _, -, -, -, -, -, -, e₁⟩⟩ <;>
    rcases hc₂ with ⟨-, e₂⟩ | ⟨-, _, _, -, -, -, -, -, -, ⟨-, e₂⟩ | ⟨-, _, _, -, -, -, -, -, -, e₂⟩⟩ <;>
    rw [e₁, e₂] <;> simp <;> omega
  · have hqe : q₁ = q₂ := by omega
    subst hqe
    have hr : r₁ ≤ r₂ := by omega
    right
    rcases hc₁ with ⟨hle₁, e₁⟩ | ⟨hgt₁, p₁, s₁, hp₁, hp₁0, -, -, -, hr₁, hc₁⟩
    · -- T₁ in the gap before the first proposer
      rcases hc₂ with ⟨-, e₂⟩ | ⟨-, p₂, _, -, hp₂0, -, -, -, -, ⟨-, e₂⟩ | ⟨-, k₂, _, -, hk₂0, -, -, -, -, e₂⟩⟩ <;>
      rw [e₁, e₂] <;> simp <;> omega
    · rcases hc₂ with ⟨hle₂, e₂⟩ | ⟨hgt₂, p₂, s₂, hp₂, hp₂0, -, -, -, hr₂, hc₂⟩
      · omega
      · have hp : p₁ ≤ p₂ := by rw [hp₁, hp₂]; exact Int.ediv_le_ediv hpt (by omega)
        by_cases hpp : p₁ < p₂
        · rcases hc₁ with ⟨-, e₁⟩ | ⟨-, _, _, -, -, -, -, -, -, e₁⟩ <;>
          rcases hc₂ with ⟨-, e₂⟩ | ⟨-, _, _, -, -, -, -, -, -, e₂⟩ <;>
          rw [e₁, e₂] <;> simp <;> omega
        · have hpe : p₁ = p₂ := by omega
          subst hpe
          have hs : s₁ ≤ s₂ := by omega
          rcases hc₁ with ⟨hle₁, e₁⟩ | ⟨hgt₁, k₁, _, hk₁, hk₁0, -, -, -, -, e₁⟩
          · rcases hc₂ with ⟨-, e₂⟩ | ⟨-, k₂, _, -, hk₂0, -, -, -, -, e₂⟩ <;>
            rw [e₁, e₂] <;> simp <;> omega
          · rcases hc₂ with ⟨hle₂, e₂⟩ | ⟨hgt₂, k₂, _, hk₂, hk₂0, -, -, -, -, e₂⟩
            · omega
            · have hk : k₁ ≤ k₂ := by rw [hk₁, hk₂]; exact Int.ediv_le_ediv hper (by omega)
              rw [e₁, e₂]; simp; omega

/-! ### xpoa -/

def xpTermTime (period bn n : Int) : Int := period * n * bn
def xpPosTime (period bn : Int) : Int := period * bn

/-- xpoa schedule in floor-division form (`T` = millisecond) -/
def xpSlotOf (period bn n T : Int) : Int × Int × Int :=
  let q := T / xpTermTime period bn n
  let r := T % xpTermTime period bn n
  (q + 1, r / xpPosTime period bn, (r % xpPosTime period bn) / period + 1)

private theorem xp_gen_eq {period bn n ts : Int} (hp : 0 < period) (hb : 1 ≤ bn) (hn : 1 ≤ n) (hts : 0 ≤ ts) :
    xpSched period bn ts n = xpSlotOf period bn n (ts / 1000000) := by
  have hpt : 0 < xpPosTime period bn := Int.mul_pos hp (by omega)
  have htt : 0 < xpTermTime period bn n := Int.mul_pos (Int.mul_pos hp (by omega)) (by omega)
  unfold xpSched XV.Gen.xpoaMinerScheduling xpSlotOf
  simp only [Int.tdiv_eq_ediv_of_nonneg hts]
  have hT : 0 ≤ ts / 1000000 := Int.ediv_nonneg hts (by omega)
  generalize ts / 1000000 = T at *
  have ett : period * n * bn = xpTermTime period bn n := rfl
  have ept : period * bn = xpPosTime period bn := rfl
  simp only [ett, ept, Int.tdiv_eq_ediv_of_nonneg hT]
  have hdm := Int.emod_add_mul_ediv T (xpTermTime period bn n)
  have hr0 := Int.emod_nonneg T (Int.ne_of_gt htt)
  have e1 : (T / xpTermTime period bn n + 1 - 1) * xpTermTime period bn n = xpTermTime period bn n * (T / xpTermTime period bn n) := by
    rw [Int.add_sub_cancel, Int.mul_comm]
  have e2 : T - xpTermTime period bn n * (T / xpTermTime period bn n) = T % xpTermTime period bn n := by omega
  simp only [e1, e2]
  generalize T % xpTermTime period bn n = r at *
  simp only [Int.tdiv_eq_ediv_of_nonneg hr0]
  have hdm2 := Int.emod_add_mul_ediv r (xpPosTime period bn)
  have hs0 := Int.emod_nonneg r (Int.ne_of_gt hpt)
  have e3 : r - r / xpPosTime period bn * xpPosTime period bn = r % xpPosTime period bn := by
    have : r / xpPosTime period bn * xpPosTime period bn = xpPosTime period bn * (r / xpPosTime period bn) := Int.mul_comm _ _
    omega
  simp only [e3, Int.tdiv_eq_ediv_of_nonneg hs0]

private theorem xp_cases {period bn n T : Int} (hp : 0 < period) (hb : 1 ≤ bn) (hn : 1 ≤ n) (hT : 0 ≤ T) :
    ∃ q r p r3 k s, q = T / xpTermTime period bn n ∧ 0 ≤ q ∧ T = xpTermTime period bn n * q + r ∧ 0 ≤ r ∧ r < xpTermTime period bn n ∧
      p = r / xpPosTime period bn ∧ 0 ≤ p ∧ p < n ∧ r = xpPosTime period bn * p + r3 ∧ 0 ≤ r3 ∧ r3 < xpPosTime period bn ∧
      k = r3 / period ∧ 0 ≤ k ∧ k < bn ∧ r3 = period * k + s ∧ 0 ≤ s ∧ s < period ∧
      xpSlotOf period bn n T = (q + 1, p, k + 1) := by
  have hpt : 0 < xpPosTime period bn := Int.mul_pos hp (by omega)
  have htt : 0 < xpTermTime period bn n := Int.mul_pos (Int.mul_pos hp (by omega)) (by omega)
  have hr0 := Int.emod_nonneg T (Int.ne_of_gt htt)
  have hr1 := Int.emod_lt_of_pos T htt
  have hs0 := Int.emod_nonneg (T % xpTermTime period bn n) (Int.ne_of_gt hpt)
  have hs1 := Int.emod_lt_of_pos (T % xpTermTime period bn n) hpt
  refine ⟨T / xpTermTime period bn n, T % xpTermTime period bn n, (T % xpTermTime period bn n) / xpPosTime period bn,
    (T % xpTermTime period bn n) % xpPosTime period bn, ((T % xpTermTime period bn n) % xpPosTime period bn) / period,
    ((T % xpTermTime period bn n) % xpPosTime period bn) % period,
    rfl, Int.ediv_nonneg hT (by omega), (Int.mul_ediv_add_emod _ _).symm, hr0, hr1,
    rfl, Int.ediv_nonneg hr0 (by omega), ?_, (Int.mul_ediv_add_emod _ _).symm, hs0, hs1,
    rfl, Int.ediv_nonneg hs0 (by omega), ?_, (Int.mul_ediv_add_emod _ _).symm, Int.emod_nonneg _ (by omega), Int.emod_lt_of_pos _ hp, rfl⟩
  · apply Int.ediv_lt_of_lt_mul hpt
    have : n * xpPosTime period bn = xpTermTime period bn n := by unfold xpPosTime xpTermTime; ring
    omega
  · apply Int.ediv_lt_of_lt_mul hp
    have : bn * period = xpPosTime period bn := by unfold xpPosTime; ring
    omega

/-- first millisecond of slot `k` (1-based) of validator `p` in term `t` -/
def xpSlotLo (period bn n t p k : Int) : Int :=
  (t - 1) * xpTermTime period bn n + p * xpPosTime period bn + (k - 1) * period

private theorem xpSlotOf_eq_iff {period bn n T : Int} (hp : 0 < period) (hb : 1 ≤ bn) (hn : 1 ≤ n) (hT : 0 ≤ T)
    {t p k : Int} (hp0 : 0 ≤ p) (hp1 : p < n) (hk0 : 1 ≤ k) (hk1 : k ≤ bn) :
    xpSlotOf period bn n T = (t, p, k) ↔ xpSlotLo period bn n t p k ≤ T ∧ T < xpSlotLo period bn n t p k + period := by
  have hpt : 0 < xpPosTime period bn := Int.mul_pos hp (by omega)
  have htt : 0 < xpTermTime period bn n := Int.mul_pos (Int.mul_pos hp (by omega)) (by omega)
  have e1 : (t - 1) * xpTermTime period bn n = xpTermTime period bn n * (t - 1) := Int.mul_comm _ _
  have e2 : p * xpPosTime period bn = xpPosTime period bn * p := Int.mul_comm _ _
  have e3 : (k - 1) * period = period * (k - 1) := Int.mul_comm _ _
  unfold xpSlotLo
  constructor
  · intro h
    obtain ⟨q, r, p', r3, k', s, -, -, hd, -, -, -, -, -, hr, -, -, -, -, -, hr3, hs0, hs1, e⟩ := xp_cases hp hb hn hT
    rw [e] at h; simp only [Prod.mk.injEq] at h
    obtain ⟨hq', hp', hk'⟩ := h
    subst hq' hp' hk'
    have f1 : xpTermTime period bn n * (q + 1 - 1) = xpTermTime period bn n * q := by rw [Int.add_sub_cancel]
    have f2 : period * (k' + 1 - 1) = period * k' := by rw [Int.add_sub_cancel]
    omega
  · rintro ⟨hlo, hhi⟩
    have hkper : 0 ≤ period * (k - 1) := Int.mul_nonneg (by omega) (by omega)
    have hppt : 0 ≤ xpPosTime period bn * p := Int.mul_nonneg (by omega) hp0
    have hkmax : period * (k - 1) ≤ period * (bn - 1) := Int.mul_le_mul_of_nonneg_left (by omega) (by omega)
    have hpmax : xpPosTime period bn * p ≤ xpPosTime period bn * (n - 1) := Int.mul_le_mul_of_nonneg_left (by omega) (by omega)
    have e5 : xpPosTime period bn * (n - 1) = xpTermTime period bn n - xpPosTime period bn := by unfold xpPosTime xpTermTime; ring
    have e6 : period * (bn - 1) = xpPosTime period bn - period := by unfold xpPosTime; ring
    generalize hs : T - ((t - 1) * xpTermTime period bn n + p * xpPosTime period bn + (k - 1) * period) = s at *
    have hL1 : T / xpTermTime period bn n = t - 1 ∧ T % xpTermTime period bn n = xpPosTime period bn * p + period * (k - 1) + s := by
      rw [Int.ediv_emod_unique htt]
      refine ⟨by omega, by omega, by omega⟩
    have hL2 : (xpPosTime period bn * p + period * (k - 1) + s) / xpPosTime period bn = p ∧
        (xpPosTime period bn * p + period * (k - 1) + s) % xpPosTime period bn = period * (k - 1) + s := by
      rw [Int.ediv_emod_unique hpt]
      refine ⟨by omega, by omega, by omega⟩
    have hL3 : (period * (k - 1) + s) / period = k - 1 ∧ (period * (k - 1) + s) % period = s := by
      rw [Int.ediv_emod_unique hp]
      refine ⟨by omega, by omega, by omega⟩
    unfold xpSlotOf
    simp only [hL1.1, hL1.2, hL2.1, hL2.2, hL3.1]
    simp

private theorem xpSlotOf_mono {period bn n T₁ T₂ : Int} (hp : 0 < period) (hb : 1 ≤ bn) (hn : 1 ≤ n) (h1 : 0 ≤ T₁) (h12 : T₁ ≤ T₂) :
    lexLE (xpSlotOf period bn n T₁) (xpSlotOf period bn n T₂) := by
  have hpt : 0 < xpPosTime period bn := Int.mul_pos hp (by omega)
  have htt : 0 < xpTermTime period bn n := Int.mul_pos (Int.mul_pos hp (by omega)) (by omega)
  obtain ⟨q₁, r₁, p₁, s₁, k₁, _, hq₁, -, hd₁, -, -, hp₁, -, -, hr₁, -, -, hk₁, -, -, -, -, -, e₁⟩ := xp_cases hp hb hn h1
  obtain ⟨q₂, r₂, p₂, s₂, k₂, _, hq₂, -, hd₂, -, -, hp₂, -, -, hr₂, -, -, hk₂, -, -, -, -, -, e₂⟩ := xp_cases hp hb hn (by omega : 0 ≤ T₂)
  have hq : q₁ ≤ q₂ := by rw [hq₁, hq₂]; exact Int.ediv_le_ediv htt h12
  rw [e₁, e₂]
  unfold lexLE
  simp only
  by_cases hqq : q₁ < q₂
  · left; omega
  · have hqe : q₁ = q₂ := by omega
    subst hqe
    have hr : r₁ ≤ r₂ := by omega
    have hpp : p₁ ≤ p₂ := by rw [hp₁, hp₂]; exact Int.ediv_le_ediv hpt hr
    right
    refine ⟨rfl, ?_⟩
    by_cases hlt : p₁ < p₂
    · left; exact hlt
    · have hpe : p₁ = p₂ := by omega
      subst hpe
      have hs : s₁ ≤ s₂ := by omega
      have hk : k₁ ≤ k₂ := by rw [hk₁, hk₂]; exact Int.ediv_le_ediv hp hs
      right; exact ⟨rfl, by omega⟩

/-! ## Property theorems: tdpos schedule -/

/-- `tdSched` is the generated function, nothing else. -/
theorem tdSched_is_generated (c : TdCfg) (ts : Int) :
    tdSched c ts = XV.Gen.tdposMinerScheduling c.alt c.bn c.init c.period c.pn c.term ts := rfl

/-- Before the configured start the function returns the zero triple (term 0): nobody is entitled. -/
theorem sched_before_start (c : TdCfg) {ts : Int} (h : ts < c.init) : tdSched c ts = (0, 0, 0) := by
  unfold tdSched XV.Gen.tdposMinerScheduling
  simp [h]

/-- **Range.**  From the start time on: term ≥ 1, `0 ≤ pos < proposerNum`, `-1 ≤ blockPos < blockNum`
(`-1` = hand-over gap).  Holds for every well-formed configuration and every timestamp. -/
theorem sched_range {c : TdCfg} (wf : WF c) {ts : Int} (h : c.init ≤ ts) :
    1 ≤ (tdSched c ts).1 ∧ 0 ≤ (tdSched c ts).2.1 ∧ (tdSched c ts).2.1 < c.pn ∧
    -1 ≤ (tdSched c ts).2.2 ∧ (tdSched c ts).2.2 < c.bn := by
  have hi := wf.init_nonneg
  rw [gen_eq_slotOf wf h]
  exact slotOf_range wf (Int.ediv_le_ediv (by omega) h)

/-- **Tiling, pointwise.**  The timestamps scheduled to (term `t`, proposer `p`, slot `k`) are exactly those
whose millisecond lies in `[slotLo c t p k, slotHi c t p k)`. -/
theorem sched_slot_iff {c : TdCfg} (wf : WF c) {ts : Int} (h : c.init ≤ ts) {t p k : Int}
    (hp0 : 0 ≤ p) (hp1 : p < c.pn) (hk0 : 0 ≤ k) (hk1 : k < c.bn) :
    tdSched c ts = (t, p, k) ↔ slotLo c t p k ≤ ts / 1000000 ∧ ts / 1000000 < slotHi c t p k := by
  have hi := wf.init_nonneg
  rw [gen_eq_slotOf wf h]
  exact slotOf_eq_iff wf (Int.ediv_le_ediv (by omega) h) hp0 hp1 hk0 hk1

/-- Slot length: one period, except slot 0 whose first millisecond belongs to the hand-over gap. -/
theorem sched_slot_length (c : TdCfg) (t p k : Int) :
    slotHi c t p k - slotLo c t p k = if k = 0 then c.period - 1 else c.period := by
  unfold slotHi slotLo
  by_cases hk : k = 0
  · subst hk; simp
  · simp only [hk, if_false]
    have : (k + 1) * c.period = k * c.period + c.period := by ring
    omega

/-- A slot is non-empty iff it is not slot 0 or the period is at least 2 ms. -/
theorem sched_slot_nonempty_iff {c : TdCfg} (t p k : Int) :
    slotLo c t p k < slotHi c t p k ↔ (k ≠ 0 ∧ 0 < c.period) ∨ (k = 0 ∧ 2 ≤ c.period) := by
  have := sched_slot_length c t p k
  by_cases hk : k = 0
  · simp only [hk, if_true] at this
    constructor
    · intro h; right; exact ⟨hk, by subst hk; omega⟩
    · rintro (⟨h, -⟩ | ⟨-, h⟩)
      · exact absurd hk h
      · subst hk; omega
  · simp only [hk, if_false] at this
    constructor
    · intro h; left; exact ⟨hk, by omega⟩
    · rintro (⟨-, h⟩ | ⟨h, -⟩)
      · omega
      · exact absurd h hk

/-- Consecutive slots of one proposer are adjacent (no gap, no overlap). -/
theorem sched_slots_consecutive (c : TdCfg) (t p k : Int) (hk0 : 0 ≤ k) :
    slotHi c t p k = slotLo c t p (k + 1) := by
  unfold slotHi slotLo
  have : ¬ (k + 1 = 0) := by omega
  simp [this]

/-- Turns are ordered: the last slot of proposer `p` ends before the first slot of proposer `p+1` begins,
and the last slot of a term ends before the first slot of the next term begins. -/
theorem sched_turns_ordered {c : TdCfg} (wf : WF c) (t p : Int) :
    slotHi c t p (c.bn - 1) ≤ slotLo c t (p + 1) 0 ∧
    slotHi c t (c.pn - 1) (c.bn - 1) ≤ slotLo c (t + 1) 0 0 := by
  have halt := wf.alt_ge; have hterm := wf.term_ge; have hper := wf.period_pos
  unfold slotHi slotLo turnBase
  simp only [if_true]
  have e1 : (c.bn - 1 + 1) * c.period = c.period * (c.bn - 1) + c.period := by ring
  have e2 : (p + 1) * posTime c = p * posTime c + posTime c := by ring
  have e3 : (t + 1 - 1) * termTime c = (t - 1) * termTime c + termTime c := by ring
  have e4 : termTime c = c.term - c.alt + (c.pn - 1) * posTime c + posTime c := by rw [termTime_eq]; ring
  have e5 : posTime c = c.alt + c.period * (c.bn - 1) := rfl
  have e6 : (0 : Int) * posTime c = 0 := Int.zero_mul _
  constructor <;> omega

/-- **Each validator gets exactly `blockNum` consecutive slots per term**: the timestamps at which proposer
`p` is entitled in term `t` (in any slot) are exactly those whose millisecond lies strictly between
`turnBase` and `turnBase + blockNum·period` — one contiguous interval made of the `blockNum` slots. -/
theorem sched_turn_iff {c : TdCfg} (wf : WF c) {ts : Int} (h : c.init ≤ ts) {t p : Int}
    (hp0 : 0 ≤ p) (hp1 : p < c.pn) :
    (∃ k, 0 ≤ k ∧ k < c.bn ∧ tdSched c ts = (t, p, k)) ↔
      turnBase c t p < ts / 1000000 ∧ ts / 1000000 < turnBase c t p + c.bn * c.period := by
  have hper := wf.period_pos
  constructor
  · rintro ⟨k, hk0, hk1, e⟩
    rw [sched_slot_iff wf h hp0 hp1 hk0 hk1] at e
    unfold slotLo slotHi at e
    have hkk : (k + 1) * c.period ≤ c.bn * c.period := Int.mul_le_mul_of_nonneg_right (by omega) (by omega)
    have : 0 ≤ k * c.period := Int.mul_nonneg hk0 (by omega)
    by_cases hk : k = 0
    · subst hk
      simp only [if_true] at e
      have : ((0 : Int) + 1) * c.period = c.period := by ring
      omega
    · simp only [hk, if_false] at e
      have : 1 * c.period ≤ k * c.period := Int.mul_le_mul_of_nonneg_right (by omega) (by omega)
      have : (k + 1) * c.period = k * c.period + c.period := by ring
      omega
  · rintro ⟨hlo, hhi⟩
    have hd : 0 ≤ ts / 1000000 - turnBase c t p := by omega
    refine ⟨(ts / 1000000 - turnBase c t p) / c.period, Int.ediv_nonneg hd (by omega),
      Int.ediv_lt_of_lt_mul hper (by omega), ?_⟩
    rw [sched_slot_iff wf h hp0 hp1 (Int.ediv_nonneg hd (by omega)) (Int.ediv_lt_of_lt_mul hper (by omega))]
    unfold slotLo slotHi
    have h1 := Int.mul_ediv_self_le (x := ts / 1000000 - turnBase c t p) (k := c.period) (by omega)
    have h2 := Int.lt_mul_ediv_self_add (x := ts / 1000000 - turnBase c t p) (k := c.period) hper
    generalize (ts / 1000000 - turnBase c t p) / c.period = k at *
    have e1 : (k + 1) * c.period = c.period * k + c.period := by ring
    have e2 : k * c.period = c.period * k := Int.mul_comm _ _
    by_cases hk : k = 0
    · simp only [hk, if_true]; subst hk; omega
    · simp only [hk, if_false]; omega

/-- **Monotonicity.**  Time never moves the schedule backwards: for start ≤ ts₁ ≤ ts₂ the triples
(term, pos, blockPos) are lexicographically ordered (a hand-over gap reports blockPos −1 and the proposer
whose turn comes next). -/
theorem sched_lex_monotone {c : TdCfg} (wf : WF c) {ts₁ ts₂ : Int} (h1 : c.init ≤ ts₁) (h12 : ts₁ ≤ ts₂) :
    lexLE (tdSched c ts₁) (tdSched c ts₂) := by
  have hi := wf.init_nonneg
  rw [gen_eq_slotOf wf h1, gen_eq_slotOf wf (by omega : c.init ≤ ts₂)]
  exact slotOf_mono wf (Int.ediv_le_ediv (by omega) h1) (Int.ediv_le_ediv (by omega) h12)

/-- Full-strength tiling statement: every slot of every proposer of every term is actually scheduled at
some timestamp.  FALSE for `period = 1` (slot 0 is empty), see `sched_tiles_counterexample`. -/
def sched_tiles_statement : Prop :=
  ∀ c : TdCfg, WF c → ∀ t p k : Int, 1 ≤ t → 0 ≤ p → p < c.pn → 0 ≤ k → k < c.bn →
    ∃ ts, c.init ≤ ts ∧ tdSched c ts = (t, p, k)

theorem sched_tiles_counterexample : ¬ sched_tiles_statement := by
  intro h
  let c : TdCfg := ⟨1, 1, 0, 1, 1, 1⟩
  have wf : WF c := ⟨by decide, by decide, by decide, by decide, by decide, by decide⟩
  obtain ⟨ts, hts, e⟩ := h c wf 1 0 0 (by decide) (by decide) (by decide) (by decide) (by decide)
  rw [sched_slot_iff wf hts (by decide) (by decide) (by decide) (by decide)] at e
  have := (sched_slot_nonempty_iff (c := c) 1 0 0).mp (by omega)
  simp [c] at this

/-- Tiling under the exact extra condition `2 ≤ period`: every slot is a non-empty interval, reached by an
explicit timestamp. -/
theorem sched_tiles_partial {c : TdCfg} (wf : WF c) (hper : 2 ≤ c.period) {t p k : Int}
    (ht : 1 ≤ t) (hp0 : 0 ≤ p) (hp1 : p < c.pn) (hk0 : 0 ≤ k) (hk1 : k < c.bn) :
    ∃ ts, c.init ≤ ts ∧ tdSched c ts = (t, p, k) := by
  have hi := wf.init_nonneg
  have hlo : c.init / 1000000 + 1 ≤ slotLo c t p k := by
    unfold slotLo turnBase
    have := termTime_pos wf; have := posTime_pos wf
    have : 0 ≤ (t - 1) * termTime c := Int.mul_nonneg (by omega) (by omega)
    have : 0 ≤ p * posTime c := Int.mul_nonneg hp0 (by omega)
    have : 0 ≤ k * c.period := Int.mul_nonneg hk0 (by omega)
    have := wf.alt_ge; have := wf.term_ge
    by_cases hk : k = 0
    · simp only [hk, if_true]; omega
    · simp only [hk, if_false]
      have : 1 * c.period ≤ k * c.period := Int.mul_le_mul_of_nonneg_right (by omega) (by omega)
      omega
  have hne : slotLo c t p k < slotHi c t p k := by
    rw [sched_slot_nonempty_iff]
    by_cases hk : k = 0
    · right; exact ⟨hk, hper⟩
    · left; exact ⟨hk, by omega⟩
  have hts : c.init ≤ slotLo c t p k * 1000000 := by omega
  refine ⟨slotLo c t p k * 1000000, hts, ?_⟩
  rw [sched_slot_iff wf hts hp0 hp1 hk0 hk1]
  have : slotLo c t p k * 1000000 / 1000000 = slotLo c t p k := by omega
  rw [this]; omega

/-! ## Property theorems: xpoa schedule -/

theorem xpSched_is_generated (period bn ts n : Int) :
    xpSched period bn ts n = XV.Gen.xpoaMinerScheduling bn period ts n := rfl

/-- **Range** (xpoa): term ≥ 1, `0 ≤ pos < n`, `1 ≤ blockPos ≤ blockNum` (slots are numbered from 1, no gaps). -/
theorem xp_range {period bn n ts : Int} (hp : 0 < period) (hb : 1 ≤ bn) (hn : 1 ≤ n) (hts : 0 ≤ ts) :
    1 ≤ (xpSched period bn ts n).1 ∧ 0 ≤ (xpSched period bn ts n).2.1 ∧ (xpSched period bn ts n).2.1 < n ∧
    1 ≤ (xpSched period bn ts n).2.2 ∧ (xpSched period bn ts n).2.2 ≤ bn := by
  rw [xp_gen_eq hp hb hn hts]
  obtain ⟨q, r, p, r3, k, s, -, hq, -, -, -, -, hp0, hp1, -, -, -, -, hk0, hk1, -, -, -, e⟩ :=
    xp_cases (n := n) hp hb hn (Int.ediv_nonneg hts (by omega : (0 : Int) ≤ 1000000))
  rw [e]; simp; omega

/-- **Tiling, pointwise** (xpoa): slot `k` (1-based) of validator `p` in term `t` is exactly the `period`
milliseconds starting at `xpSlotLo`. -/
theorem xp_slot_iff {period bn n ts : Int} (hp : 0 < period) (hb : 1 ≤ bn) (hn : 1 ≤ n) (hts : 0 ≤ ts)
    {t p k : Int} (hp0 : 0 ≤ p) (hp1 : p < n) (hk0 : 1 ≤ k) (hk1 : k ≤ bn) :
    xpSched period bn ts n = (t, p, k) ↔
      xpSlotLo period bn n t p k ≤ ts / 1000000 ∧ ts / 1000000 < xpSlotLo period bn n t p k + period := by
  rw [xp_gen_eq hp hb hn hts]
  exact xpSlotOf_eq_iff hp hb hn (Int.ediv_nonneg hts (by omega)) hp0 hp1 hk0 hk1

/-- The xpoa slots tile time without gaps: slot k+1 starts where slot k ends, validator p+1 starts where
validator p's last slot ends, term t+1 starts where term t's last slot ends. -/
theorem xp_slots_tile (period bn n t p k : Int) :
    xpSlotLo period bn n t p k + period = xpSlotLo period bn n t p (k + 1) ∧
    xpSlotLo period bn n t p bn + period = xpSlotLo period bn n t (p + 1) 1 ∧
    xpSlotLo period bn n t (n - 1) bn + period = xpSlotLo period bn n (t + 1) 0 1 := by
  unfold xpSlotLo xpTermTime xpPosTime
  refine ⟨by ring, by ring, by ring⟩

/-- every xpoa slot is scheduled (non-empty), witnessed by its first millisecond -/
theorem xp_slot_nonempty {period bn n : Int} (hp : 0 < period) (hb : 1 ≤ bn) (hn : 1 ≤ n)
    {t p k : Int} (ht : 1 ≤ t) (hp0 : 0 ≤ p) (hp1 : p < n) (hk0 : 1 ≤ k) (hk1 : k ≤ bn) :
    ∃ ts, 0 ≤ ts ∧ xpSched period bn ts n = (t, p, k) := by
  have hlo : 0 ≤ xpSlotLo period bn n t p k := by
    unfold xpSlotLo
    have hpt : 0 < xpPosTime period bn := Int.mul_pos hp (by omega)
    have htt : 0 < xpTermTime period bn n := Int.mul_pos (Int.mul_pos hp (by omega)) (by omega)
    have : 0 ≤ (t - 1) * xpTermTime period bn n := Int.mul_nonneg (by omega) (by omega)
    have : 0 ≤ p * xpPosTime period bn := Int.mul_nonneg hp0 (by omega)
    have : 0 ≤ (k - 1) * period := Int.mul_nonneg (by omega) (by omega)
    omega
  refine ⟨xpSlotLo period bn n t p k * 1000000, by omega, ?_⟩
  rw [xp_slot_iff hp hb hn (by omega) hp0 hp1 hk0 hk1]
  have : xpSlotLo period bn n t p k * 1000000 / 1000000 = xpSlotLo period bn n t p k := by omega
  rw [this]; omega

theorem xp_lex_monotone {period bn n ts₁ ts₂ : Int} (hp : 0 < period) (hb : 1 ≤ bn) (hn : 1 ≤ n)
    (h1 : 0 ≤ ts₁) (h12 : ts₁ ≤ ts₂) :
    lexLE (xpSched period bn ts₁ n) (xpSched period bn ts₂ n) := by
  rw [xp_gen_eq hp hb hn h1, xp_gen_eq hp hb hn (by omega : 0 ≤ ts₂)]
  exact xpSlotOf_mono hp hb hn (Int.ediv_nonneg h1 (by omega)) (Int.ediv_le_ediv (by omega) h12)

/-! ## Property theorems: acceptance (`CheckMinerMatch`) -/

/-- **tdpos: accepted iff entitled.**  A block is accepted exactly when its own timestamp is not before the
start time, lies in a production slot `(t, p, k)` of the schedule, and its proposer is the `p`-th validator
of the set in force.  (Repaired code: before the fix `c.init ≤ ts` was missing, see `corpus/C16`.) -/
theorem tdpos_accept_iff_entitled {c : TdCfg} (wf : WF c) (vals : List Nat) (ts : Int) (proposer : Nat) :
    tdposAccept c vals ts proposer = .accept ↔
      c.init ≤ ts ∧ ∃ t p k, 1 ≤ t ∧ 0 ≤ p ∧ p < c.pn ∧ 0 ≤ k ∧ k < c.bn ∧
        slotLo c t p k ≤ ts / 1000000 ∧ ts / 1000000 < slotHi c t p k ∧ vals[p.toNat]? = some proposer := by
  by_cases hts : c.init ≤ ts
  · obtain ⟨h1, h2, h3, h4, h5⟩ := sched_range wf hts
    constructor
    · intro h
      refine ⟨hts, (tdSched c ts).1, (tdSched c ts).2.1, (tdSched c ts).2.2, h1, h2, h3, ?_⟩
      unfold tdposAccept at h
      simp only [] at h
      split at h
      · exact absurd h (by simp)
      · rename_i hc
        have hk0 : 0 ≤ (tdSched c ts).2.2 := by omega
        have hslot := (sched_slot_iff wf hts (t := (tdSched c ts).1) h2 h3 hk0 h5).mp rfl
        refine ⟨hk0, h5, hslot.1, hslot.2, ?_⟩
        split at h
        · exact absurd h (by simp)
        · split at h
          · exact absurd h (by simp)
          · rename_i v hv
            split at h
            · rename_i hvp; rw [hv, hvp]
            · exact absurd h (by simp)
    · rintro ⟨-, t, p, k, ht, hp0, hp1, hk0, hk1, hlo, hhi, hv⟩
      have e := (sched_slot_iff wf hts hp0 hp1 hk0 hk1).mpr ⟨hlo, hhi⟩
      unfold tdposAccept
      simp only [e]
      have hn : ¬ (t < 1 ∨ k < 0 ∨ k ≥ c.bn ∨ p ≥ c.pn) := by omega
      have hn2 : ¬ (p < 0) := by omega
      simp [hn, hn2, hv]
  · have hz := sched_before_start c (by omega : ts < c.init)
    constructor
    · intro h
      unfold tdposAccept at h
      simp [hz] at h
    · rintro ⟨h, -⟩; exact absurd h hts

private theorem tdposAccept_validator {c : TdCfg} {vals : List Nat} {ts : Int} {a : Nat}
    (ha : tdposAccept c vals ts a = .accept) : vals[(tdSched c ts).2.1.toNat]? = some a := by
  unfold tdposAccept at ha
  simp only [] at ha
  split at ha
  · exact absurd ha (by simp)
  · split at ha
    · exact absurd ha (by simp)
    · split at ha
      · exact absurd ha (by simp)
      · rename_i v hv
        split at ha
        · rename_i hva; rw [hv, hva]
        · exact absurd ha (by simp)

/-- **At most one producer per instant** (tdpos): two accepted proposers for the same timestamp coincide
(for every configuration, well formed or not). -/
theorem tdpos_at_most_one_producer (c : TdCfg) (vals : List Nat) (ts : Int) (a b : Nat)
    (ha : tdposAccept c vals ts a = .accept) (hb : tdposAccept c vals ts b = .accept) : a = b := by
  have h1 := tdposAccept_validator ha
  have h2 := tdposAccept_validator hb
  rw [h1] at h2
  exact Option.some.inj h2

/-- **xpoa: accepted iff entitled** (repaired code: an empty local leader matches nothing).  A block is
accepted exactly when a validator set is available, the block names a proposer, and that proposer is the
validator owning the slot of the block's own timestamp. -/
theorem xpoa_accept_iff_entitled {period bn : Int} (hp : 0 < period) (hb : 1 ≤ bn) (vals : List Nat) {ts : Int}
    (hts : 0 ≤ ts) (proposer : Option Nat) :
    xpoaAccept period bn vals ts proposer = .accept ↔
      vals ≠ [] ∧ ∃ (t p k : Int) (v : Nat), 0 ≤ p ∧ p < (vals.length : Int) ∧ 1 ≤ k ∧ k ≤ bn ∧
        xpSlotLo period bn vals.length t p k ≤ ts / 1000000 ∧
        ts / 1000000 < xpSlotLo period bn vals.length t p k + period ∧
        vals[p.toNat]? = some v ∧ proposer = some v := by
  by_cases hv : vals = []
  · subst hv
    simp [xpoaAccept, xpoaLeader]
  · have hn : (1 : Int) ≤ (vals.length : Int) := by
      have : 0 < vals.length := List.length_pos_iff.mpr hv
      omega
    obtain ⟨h1, h2, h3, h4, h5⟩ := xp_range (n := vals.length) hp hb hn hts
    have hslot := (xp_slot_iff hp hb hn hts (t := (xpSched period bn ts vals.length).1) h2 h3 h4 h5).mp rfl
    have hidx : (xpSched period bn ts vals.length).2.1.toNat < vals.length := by omega
    have hne : ¬ ((xpSched period bn ts vals.length).2.2 < 0 ∨ (xpSched period bn ts vals.length).2.2 > bn ∨
        (xpSched period bn ts vals.length).2.1 ≥ vals.length) := by omega
    have hne2 : ¬ ((xpSched period bn ts vals.length).2.1 < 0) := by omega
    have hlead : xpoaLeader period bn vals ts = some (vals[(xpSched period bn ts vals.length).2.1.toNat]'hidx) := by
      unfold xpoaLeader
      have : vals.isEmpty = false := by simpa using hv
      simp only [this, Bool.false_eq_true, if_false, hne, hne2]
      exact List.getElem?_eq_getElem hidx
    constructor
    · intro h
      refine ⟨hv, (xpSched period bn ts vals.length).1, (xpSched period bn ts vals.length).2.1,
        (xpSched period bn ts vals.length).2.2, vals[(xpSched period bn ts vals.length).2.1.toNat]'hidx,
        h2, h3, h4, h5, hslot.1, hslot.2, List.getElem?_eq_getElem hidx, ?_⟩
      unfold xpoaAccept at h
      rw [hlead] at h
      simp only [] at h
      split at h
      · assumption
      · exact absurd h (by simp)
    · rintro ⟨-, t, p, k, v, hp0, hp1, hk0, hk1, hlo, hhi, hvp, hprop⟩
      have e := (xp_slot_iff hp hb hn hts hp0 hp1 hk0 hk1).mpr ⟨hlo, hhi⟩
      unfold xpoaAccept
      rw [hlead]
      have : vals[(xpSched period bn ts vals.length).2.1.toNat]'hidx = v := by
        have h' := List.getElem?_eq_getElem hidx
        simp only [e] at h' ⊢
        rw [hvp] at h'
        exact (Option.some.inj h').symm
      simp [this, hprop]

/-- xpoa never accepts a block whose proposer field is empty, nor any block when no validator set is known. -/
theorem xpoa_rejects_unknown (period bn : Int) (vals : List Nat) (ts : Int) (proposer : Option Nat)
    (h : vals = [] ∨ proposer = none) : xpoaAccept period bn vals ts proposer ≠ .accept := by
  unfold xpoaAccept
  rcases h with h | h
  · subst h; simp [xpoaLeader]
  · subst h
    split
    · simp
    · simp

/-- **single**: accepted only if the proposer is the configured miner, the block id recomputes, the key
belongs to the proposer and the signature verifies — and conversely. -/
theorem single_accepts_only_miner (idOk isMiner keyOk sigOk : Bool) :
    singleAccept idOk isMiner keyOk sigOk = .accept ↔
      idOk = true ∧ isMiner = true ∧ keyOk = true ∧ sigOk = true := by
  unfold singleAccept
  cases idOk <;> cases isMiner <;> cases keyOk <;> cases sigOk <;> simp

/-! ## Non-vacuity -/

/-- the configuration of the repository's own tdpos tests is well formed -/
example : WF ⟨3000, 20, 1559021720000000000, 3000, 2, 6000⟩ :=
  ⟨by decide, by decide, by decide, by decide, by decide, by decide⟩
/-- a small configuration: 2 proposers × 2 slots, period 3 ms; ms 4 is slot 1 of proposer 0, ms 6 the
hand-over gap before proposer 1, ms 7 its slot 0 -/
example : tdSched ⟨3, 2, 0, 3, 2, 3⟩ 4000000 = (1, 0, 1) := by decide
example : tdSched ⟨3, 2, 0, 3, 2, 3⟩ 6000000 = (1, 1, -1) := by decide
example : tdSched ⟨3, 2, 0, 3, 2, 3⟩ 7999999 = (1, 1, 0) := by decide
example : tdposAccept ⟨3, 2, 0, 3, 2, 3⟩ [7, 8] 7999999 8 = .accept := by decide
example : tdposAccept ⟨3, 2, 0, 3, 2, 3⟩ [7, 8] 7999999 7 = .reject := by decide
example : tdposAccept ⟨3, 2, 0, 3, 2, 3⟩ [7, 8] 6000000 8 = .reject := by decide
/-- before the start time nothing is accepted (the zero triple would name validator 0) -/
example : tdposAccept ⟨3, 2, 5000000, 3, 2, 3⟩ [7, 8] 4000000 7 = .reject := by decide
example : xpSched 3 2 13000000 2 = (2, 0, 1) := by decide
example : xpoaAccept 3 2 [7, 8] 13000000 (some 7) = .accept := by decide
example : xpoaAccept 3 2 [] 13000000 none = .reject := by decide

end XV.C16
