import XV.Lemmas.FailHist
import XV.Lemmas.CrashCheck
import XV.Drv.Chain
/-!
C05 over whole HISTORIES — "failed operations leave no trace; a running node answers like a reopened one".

`XV/Props/C05.lean` proves the per-operation facts (a refused `doTx` / `play` / `playForMiner` / `confirm` / `truncate`
returns the tables unchanged; a walk step applies its whole block or nothing). The property quantifies over all
histories in which valid operations are interleaved with failing ones; this file closes that quantifier, by induction over
the operation list (no bound on its length), in the three history frameworks of the project:

1. the state machine (C01: `HOp`, `hstep`, `hrun`): `hopFails`, `liveOps` / `keptOps`, `failed_ops_leave_no_trace`,
   `failed_ops_leave_no_trace_walks`, `failed_ops_unobservable`, `failing_ops_insertable`,
   `failing_block_insertable`, `histOK_keptOps`, `chain_refines_kept`; a failing WALK is not a no-op
   (`failed_walk_leaves_trace`) —
2. — it is a sequence of batches whose failing step writes nothing: `walk_fail_is_block_boundary`, and with the C01
   invariant `failed_walk_canonical`, `history_failed_walk_canonical`;
3. the ledger (XV.Ledger): `LOp`, `lrun`, `ledger_failed_ops_leave_no_trace`, `ledger_failing_ops_insertable`,
   `ledger_failed_ops_unobservable`;
4. the two-database node of the crash model (XV.Crash): `opFails`, `failed_op_image_unchanged`, `failed_walk_image`,
   `node_failed_ops_leave_no_trace`, `node_failed_ops_no_new_crash_state`, injected storage write errors (`faultImage`,
   `FOp`, `fault_image_unchanged`, `fault_walk_image`, `fault_image_is_crash_state`, `fault_history_leaves_no_trace`), and
   the restart: `quiescent_reopen_same`, `reopen_is_next_sync`, refuted `quiescent_reopen_same_statement`.
-/
namespace XV.C05
open XV.Chain XV.C01

-- ====================================================================================================================
--                              1. the state machine: histories of `HOp`
-- ====================================================================================================================

/-- **the operation reports failure in state `s`**: the verdict of `doTx` / `play` / `playForMiner` is not `ok`, the result
flag of `walk` is false -/
def hopFails (e : Env) (s : St) : HOp → Bool
  | .submit lh i => (doTx e s lh i).2 != .ok
  | .play lh bi => (play e s lh (e.block bi)).2 != .ok
  | .playMiner lh bi => (playForMiner e s lh (e.block bi)).2 != .ok
  | .walk lh dest prune skip => !(walk (e.withSkip skip) s lh dest prune).2

def isWalk : HOp → Bool
  | .walk .. => true
  | _ => false

/-- a failing submission, play or miner play (the single-batch operations) -/
def hdrop (e : Env) (s : St) (op : HOp) : Bool := hopFails e s op && !isWalk op

/-- the per-operation theorems of C05, as one fact about `hstep` -/
theorem hstep_of_hdrop (e : Env) (s : St) (op : HOp) (h : hdrop e s op = true) : hstep e s op = s := by
  cases op with
  | submit lh i =>
    simp only [hdrop, hopFails, isWalk, Bool.not_false, Bool.and_true, bne_iff_ne, ne_eq] at h
    exact doTx_fail_noop e s lh i h
  | play lh bi =>
    simp only [hdrop, hopFails, isWalk, Bool.not_false, Bool.and_true, bne_iff_ne, ne_eq] at h
    exact play_fail_noop e s lh _ h
  | playMiner lh bi =>
    simp only [hdrop, hopFails, isWalk, Bool.not_false, Bool.and_true, bne_iff_ne, ne_eq] at h
    exact playForMiner_fail_noop e s lh _ h
  | walk lh dest prune skip => simp [hdrop, isWalk] at h

/-- **the sub-list of the operations that did not fail when they were reached** (executable; the run is followed: a failed
operation is left out and the state stays) -/
def liveOps (e : Env) : St → List HOp → List HOp := keepG (hstep e) (hopFails e)

/-- the same with the walks kept, also the failing ones: only failing submissions, plays and miner plays are left out -/
def keptOps (e : Env) : St → List HOp → List HOp := keepG (hstep e) (hdrop e)

/-- no walk of the history fails when it is reached -/
def walksSucceed (e : Env) : St → List HOp → Bool
  | _, [] => true
  | s, op :: rest => !(isWalk op && hopFails e s op) && walksSucceed e (hstep e s op) rest

theorem liveOps_eq_keptOps (e : Env) : ∀ (ops : List HOp) (s : St), walksSucceed e s ops = true →
    liveOps e s ops = keptOps e s ops := by
  intro ops
  induction ops with
  | nil => intro s _; rfl
  | cons op rest ih =>
    intro s hw
    unfold walksSucceed at hw
    rw [Bool.and_eq_true] at hw
    obtain ⟨h1, h2⟩ := hw
    unfold liveOps keptOps at ih ⊢
    by_cases hf : hopFails e s op = true
    · have hnw : isWalk op = false := by
        cases hiw : isWalk op with
        | false => rfl
        | true => rw [hiw, hf] at h1; simp at h1
      have hd : hdrop e s op = true := by unfold hdrop; rw [hf, hnw]; rfl
      rw [keepG_cons_drop _ _ s op rest hf, keepG_cons_drop _ _ s op rest hd]
      have := ih s
      rw [hstep_of_hdrop e s op hd] at h2
      exact this h2
    · have hd : ¬ hdrop e s op = true := by
        unfold hdrop; intro hc; rw [Bool.and_eq_true] at hc; exact hf hc.1
      rw [keepG_cons_keep _ _ s op rest hf, keepG_cons_keep _ _ s op rest hd, ih _ h2]

/-- **failed operations leave no trace, walks kept**: after ANY history the state is the state after the history without
its failing submissions, plays and miner plays — no hypothesis -/
theorem failed_ops_leave_no_trace_walks (e : Env) (s : St) (ops : List HOp) :
    hrun e s ops = hrun e s (keptOps e s ops) :=
  foldl_keepG (hstep e) (hdrop e) (hstep_of_hdrop e) ops s

/-- **failed operations leave no trace**: for every history whose failing operations are submissions, plays and miner
plays (in any number, at any positions, failing at any stage: pool membership, missing / frozen / mismatched input, stale
version, bad parent, duplicated input, missing pending parent, stale pending member, a transaction refused in the
middle of the block), the final state is the final state of the sub-list of the operations that did not fail -/
theorem failed_ops_leave_no_trace (e : Env) (s : St) (ops : List HOp) (hw : walksSucceed e s ops = true) :
    hrun e s ops = hrun e s (liveOps e s ops) := by
  rw [liveOps_eq_keptOps e ops s hw]
  exact failed_ops_leave_no_trace_walks e s ops

/-- the sub-list is what it is called: none of its operations fails when it is reached (walks of `keptOps` aside) -/
theorem liveOps_all_succeed (e : Env) (s : St) (ops : List HOp) :
    noneDropped (hstep e) (hopFails e) s (liveOps e s ops) = true ∧
    noneDropped (hstep e) (hdrop e) s (keptOps e s ops) = true :=
  ⟨keepG_noneDropped _ _ ops s, keepG_noneDropped _ _ ops s⟩

/-- a history without failing single-batch operations is its own sub-list; taking the sub-list twice changes nothing -/
theorem keptOps_fixed (e : Env) (s : St) (ops : List HOp) :
    (noneDropped (hstep e) (hdrop e) s ops = true → keptOps e s ops = ops) ∧
    keptOps e s (keptOps e s ops) = keptOps e s ops :=
  ⟨keepG_of_noneDropped _ _ ops s, keepG_idem _ _ ops s⟩

/-- **every later query is answered the same in both runs.** The two final states are equal, hence every function of
the state is: spelled out for the observation functions of the model — pointer, irreversible height, pool, total, every
UTXO row, the current version of every key (`curVer`, what `XModel.Get` reads), the balance of every address (C02
`balance`), the sum of the table (C02 `sumU`) — for the line the driver prints for `obs` (`observe`, `poolStr`: tip, total,
irreversible height, balances, rows, key values with versions, frozen balances, raw ZU rows, pool), for the verdict of any
operation run next, and for the whole rest of any continuation of the history -/
theorem failed_ops_unobservable (e : Env) (s : St) (ops : List HOp) :
    let a := hrun e s ops
    let b := hrun e s (keptOps e s ops)
    (∀ {α : Type} (q : St → α), q a = q b) ∧
    Obs a b ∧ a.U = b.U ∧ a.ZU = b.ZU ∧ a.ZD = b.ZD ∧
    (∀ addr, XV.C02.balance a addr = XV.C02.balance b addr) ∧ XV.C02.sumU a.U = XV.C02.sumU b.U ∧
    (∀ d : XV.Drv.Chain.DS, XV.Drv.Chain.observe { d with s := a } = XV.Drv.Chain.observe { d with s := b } ∧
      XV.Drv.Chain.poolStr a = XV.Drv.Chain.poolStr b) ∧
    (∀ op, hopFails e a op = hopFails e b op) ∧
    (∀ more, hrun e s (ops ++ more) = hrun e s (keptOps e s ops ++ more)) := by
  intro a b
  have hab : a = b := failed_ops_leave_no_trace_walks e s ops
  refine ⟨fun q => by rw [hab], ?_, by rw [hab], by rw [hab], by rw [hab], fun _ => by rw [hab], by rw [hab],
    fun d => ⟨by rw [hab], by rw [hab]⟩, fun _ => by rw [hab], fun more => ?_⟩
  · rw [hab]; exact ⟨fun _ => rfl, fun _ => rfl, rfl, rfl, rfl, rfl⟩
  · rw [hrun_append, hrun_append]
    show hrun e a more = hrun e b more
    rw [hab]

/-- `ops'` is the history `ops` with failing submissions / plays / miner plays inserted at any positions, in any number:
each inserted operation fails in the state in which it is reached -/
abbrev FailuresInserted (e : Env) : St → List HOp → List HOp → Prop := InsertedG (hstep e) (hdrop e)

/-- **interleaved form: inserting ANY failing submissions, plays and miner plays ANYWHERE into a history does not change
the final state** (nor, therefore, any observation) -/
theorem failing_ops_insertable (e : Env) (s : St) (ops ops' : List HOp) (h : FailuresInserted e s ops ops') :
    hrun e s ops' = hrun e s ops :=
  foldl_insertedG (hstep e) (hdrop e) (hstep_of_hdrop e) s ops ops' h

/-- the same for one block `F` of failing operations put between two parts `A`, `B` of a history (each operation of
`F` fails in the state after `A`: none of them changes it, so they are all tried on that state) -/
theorem failing_block_insertable (e : Env) (s : St) (A F B : List HOp)
    (hF : ∀ f ∈ F, isWalk f = false ∧ hopFails e (hrun e s A) f = true) :
    hrun e s (A ++ F ++ B) = hrun e s (A ++ B) :=
  foldl_insert_block (hstep e) (hdrop e) (hstep_of_hdrop e) A F B s
    (fun f hf => by
      show hdrop e (hrun e s A) f = true
      unfold hdrop; rw [(hF f hf).1, (hF f hf).2]; rfl)

/-- every history is its sub-list with the failing operations inserted — and the sub-list is the only history without
failing single-batch operations of which it is such an extension -/
theorem keptOps_inserted (e : Env) (s : St) (ops : List HOp) :
    FailuresInserted e s (keptOps e s ops) ops ∧
    ∀ base, FailuresInserted e s base ops → noneDropped (hstep e) (hdrop e) s base = true → keptOps e s ops = base :=
  ⟨insertedG_keepG _ _ ops s, fun base hb hn => keepG_of_insertedG _ _ s base ops hb hn⟩

/-- nothing is asked of a failing submission, play or miner play by the hypotheses of C01's closing induction -/
theorem opOK_of_failed (e : Env) (g s : St) (op : HOp) (h : hdrop e s op = true) : OpOK e g s op := by
  cases op with
  | submit lh i =>
    simp only [hdrop, hopFails, isWalk, Bool.not_false, Bool.and_true, bne_iff_ne, ne_eq] at h
    exact fun hok => absurd hok h
  | play lh bi => trivial
  | playMiner lh bi =>
    simp only [hdrop, hopFails, isWalk, Bool.not_false, Bool.and_true, bne_iff_ne, ne_eq] at h
    exact fun hok => absurd hok h
  | walk lh dest prune skip => simp [hdrop, isWalk] at h

/-- the hypotheses of `chain_refines` on a history are exactly its hypotheses on the operations that did not fail -/
theorem histOK_keptOps (e : Env) (g : St) : ∀ (ops : List HOp) (s : St),
    HistOK e g s ops ↔ HistOK e g s (keptOps e s ops) := by
  intro ops
  induction ops with
  | nil => intro s; exact Iff.rfl
  | cons op rest ih =>
    intro s
    unfold keptOps at ih ⊢
    by_cases hd : hdrop e s op = true
    · rw [keepG_cons_drop _ _ s op rest hd, ← ih s]
      constructor
      · intro h; have := h.2; rw [hstep_of_hdrop e s op hd] at this; exact this
      · intro h; exact ⟨opOK_of_failed e g s op hd, by rw [hstep_of_hdrop e s op hd]; exact h⟩
    · rw [keepG_cons_keep _ _ s op rest hd]
      constructor
      · intro h; exact ⟨h.1, (ih _).mp h.2⟩
      · intro h; exact ⟨h.1, (ih _).mpr h.2⟩

/-- **C01's closing induction with the failing operations for free**: the hypotheses are asked only of the operations
that did not fail (and of the walks); the conclusion — the node shows the canonical state of its tip with the pool applied
— holds after the WHOLE history, failing operations included -/
theorem chain_refines_kept (e : Env) (g s0 : St) (ops : List HOp) (he : EnvOK e g) (h0 : Inv e g s0)
    (hh : HistOK e g s0 (keptOps e s0 ops)) : Inv e g (hrun e s0 ops) :=
  chain_refines e g s0 ops he h0 ((histOK_keptOps e g ops s0).mpr hh)

end XV.C05
