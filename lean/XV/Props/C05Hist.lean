import XV.Lemmas.FailHist
import XV.Lemmas.CrashCheck
import XV.Drv.Chain
/-!
C05 over whole HISTORIES — "failed operations leave no trace; a running node answers like a reopened one".

`XV/Props/C05.lean` proves the per-operation facts (a refused `doTx` / `play` / `playForMiner` / `confirm` / `truncate`
returns the tables unchanged; a walk step applies its whole block or nothing). The property quantifies over all
histories in which valid operations are interleaved with failing ones; this file closes that quantifier, by induction over
the operation list (no bound on its length), in each of the history frameworks of the project:

1. the state machine (C01: `HOp`, `hstep`, `hrun`): `hopFails`, `liveOps` / `keptOps`, `failed_ops_leave_no_trace`,
   `failed_ops_leave_no_trace_walks`, `failed_ops_unobservable`, `failing_ops_insertable`,
   `failing_block_insertable`, `histOK_keptOps`, `chain_refines_kept`; a failing WALK is not a no-op
   (`failed_walk_leaves_trace`) —
2. — it is a sequence of batches whose failing step writes nothing: `walk_fail_is_block_boundary`, and with the C01
   invariant `failed_walk_canonical`, `history_failed_walk_canonical`;
3. the ledger (XV.Ledger): `LOp`, `lrun`, `ledger_failed_ops_leave_no_trace`, `ledger_failing_ops_insertable`,
   `ledger_failed_ops_unobservable`;
4. the two-database node of the crash model (XV.Crash): `opFails`, `failed_op_image_unchanged`, `failed_walk_image`,
   `node_failed_ops_leave_no_trace`, `node_failed_ops_no_new_crash_state`, injected storage write errors (`faultImage`,
   `FOp`, `fault_image_unchanged`, `fault_walk_image`, `fault_image_is_crash_state`, `fault_history_leaves_no_trace`), and
   the restart: `quiescent_reopen_same`, `reopen_is_next_sync`, refuted `quiescent_reopen_same_statement`.
-/
namespace XV.C05
open XV.Chain XV.C01

-- ====================================================================================================================
--                              1. the state machine: histories of `HOp`
-- ====================================================================================================================

/-- **the operation reports failure in state `s`**: the verdict of `doTx` / `play` / `playForMiner` is not `ok`, the result
flag of `walk` is false -/
def hopFails (e : Env) (s : St) : HOp → Bool
  | .submit lh i => (doTx e s lh i).2 != .ok
  | .play lh bi => (play e s lh (e.block bi)).2 != .ok
  | .playMiner lh bi => (playForMiner e s lh (e.block bi)).2 != .ok
  | .walk lh dest prune skip => !(walk (e.withSkip skip) s lh dest prune).2

def isWalk : HOp → Bool
  | .walk .. => true
  | _ => false

/-- a failing submission, play or miner play (the single-batch operations) -/
def hdrop (e : Env) (s : St) (op : HOp) : Bool := hopFails e s op && !isWalk op

/-- the per-operation theorems of C05, as one fact about `hstep` -/
theorem hstep_of_hdrop (e : Env) (s : St) (op : HOp) (h : hdrop e s op = true) : hstep e s op = s := by
  cases op with
  | submit lh i =>
    simp only [hdrop, hopFails, isWalk, Bool.not_false, Bool.and_true, bne_iff_ne, ne_eq] at h
    exact doTx_fail_noop e s lh i h
  | play lh bi =>
    simp only [hdrop, hopFails, isWalk, Bool.not_false, Bool.and_true, bne_iff_ne, ne_eq] at h
    exact play_fail_noop e s lh _ h
  | playMiner lh bi =>
    simp only [hdrop, hopFails, isWalk, Bool.not_false, Bool.and_true, bne_iff_ne, ne_eq] at h
    exact playForMiner_fail_noop e s lh _ h
  | walk lh dest prune skip => simp [hdrop, isWalk] at h

/-- **the sub-list of the operations that did not fail when they were reached** (executable; the run is followed: a failed
operation is left out and the state stays) -/
def liveOps (e : Env) : St → List HOp → List HOp := keepG (hstep e) (hopFails e)

/-- the same with the walks kept, also the failing ones: only failing submissions, plays and miner plays are left out -/
def keptOps (e : Env) : St → List HOp → List HOp := keepG (hstep e) (hdrop e)

/-- no walk of the history fails when it is reached -/
def walksSucceed (e : Env) : St → List HOp → Bool
  | _, [] => true
  | s, op :: rest => !(isWalk op && hopFails e s op) && walksSucceed e (hstep e s op) rest

theorem liveOps_eq_keptOps (e : Env) : ∀ (ops : List HOp) (s : St), walksSucceed e s ops = true →
    liveOps e s ops = keptOps e s ops := by
  intro ops
  induction ops with
  | nil => intro s _; rfl
  | cons op rest ih =>
    intro s hw
    unfold walksSucceed at hw
    rw [Bool.and_eq_true] at hw
    obtain ⟨h1, h2⟩ := hw
    unfold liveOps keptOps at ih ⊢
    by_cases hf : hopFails e s op = true
    · have hnw : isWalk op = false := by
        cases hiw : isWalk op with
        | false => rfl
        | true => rw [hiw, hf] at h1; simp at h1
      have hd : hdrop e s op = true := by unfold hdrop; rw [hf, hnw]; rfl
      rw [keepG_cons_drop _ _ s op rest hf, keepG_cons_drop _ _ s op rest hd]
      have := ih s
      rw [hstep_of_hdrop e s op hd] at h2
      exact this h2
    · have hd : ¬ hdrop e s op = true := by
        unfold hdrop; intro hc; rw [Bool.and_eq_true] at hc; exact hf hc.1
      rw [keepG_cons_keep _ _ s op rest hf, keepG_cons_keep _ _ s op rest hd, ih _ h2]

/-- **failed operations leave no trace, walks kept**: after ANY history the state is the state after the history without
its failing submissions, plays and miner plays — no hypothesis -/
theorem failed_ops_leave_no_trace_walks (e : Env) (s : St) (ops : List HOp) :
    hrun e s ops = hrun e s (keptOps e s ops) :=
  foldl_keepG (hstep e) (hdrop e) (hstep_of_hdrop e) ops s

/-- **failed operations leave no trace**: for every history whose failing operations are submissions, plays and miner
plays (in any number, at any positions, failing at any stage: pool membership, missing / frozen / mismatched input, stale
version, bad parent, duplicated input, missing pending parent, stale pending member, a transaction refused in the
middle of the block), the final state is the final state of the sub-list of the operations that did not fail -/
theorem failed_ops_leave_no_trace (e : Env) (s : St) (ops : List HOp) (hw : walksSucceed e s ops = true) :
    hrun e s ops = hrun e s (liveOps e s ops) := by
  rw [liveOps_eq_keptOps e ops s hw]
  exact failed_ops_leave_no_trace_walks e s ops

/-- the sub-list is what it is called: none of its operations fails when it is reached (walks of `keptOps` aside) -/
theorem liveOps_all_succeed (e : Env) (s : St) (ops : List HOp) :
    noneDropped (hstep e) (hopFails e) s (liveOps e s ops) = true ∧
    noneDropped (hstep e) (hdrop e) s (keptOps e s ops) = true :=
  ⟨keepG_noneDropped _ _ ops s, keepG_noneDropped _ _ ops s⟩

/-- a history without failing single-batch operations is its own sub-list; taking the sub-list twice changes nothing -/
theorem keptOps_fixed (e : Env) (s : St) (ops : List HOp) :
    (noneDropped (hstep e) (hdrop e) s ops = true → keptOps e s ops = ops) ∧
    keptOps e s (keptOps e s ops) = keptOps e s ops :=
  ⟨keepG_of_noneDropped _ _ ops s, keepG_idem _ _ ops s⟩

/-- **every later query is answered the same in both runs.** The two final states are equal, hence every function of
the state is: spelled out for the observation functions of the model — pointer, irreversible height, pool, total, every
UTXO row, the current version of every key (`curVer`, what `XModel.Get` reads), the balance of every address (C02
`balance`), the sum of the table (C02 `sumU`) — for the line the driver prints for `obs` (`observe`, `poolStr`: tip, total,
irreversible height, balances, rows, key values with versions, frozen balances, raw ZU rows, pool), for the verdict of any
operation run next, and for the whole rest of any continuation of the history -/
theorem failed_ops_unobservable (e : Env) (s : St) (ops : List HOp) :
    let a := hrun e s ops
    let b := hrun e s (keptOps e s ops)
    (∀ {α : Type} (q : St → α), q a = q b) ∧
    Obs a b ∧ a.U = b.U ∧ a.ZU = b.ZU ∧ a.ZD = b.ZD ∧
    (∀ addr, XV.C02.balance a addr = XV.C02.balance b addr) ∧ XV.C02.sumU a.U = XV.C02.sumU b.U ∧
    (∀ d : XV.Drv.Chain.DS, XV.Drv.Chain.observe { d with s := a } = XV.Drv.Chain.observe { d with s := b } ∧
      XV.Drv.Chain.poolStr a = XV.Drv.Chain.poolStr b) ∧
    (∀ op, hopFails e a op = hopFails e b op) ∧
    (∀ more, hrun e s (ops ++ more) = hrun e s (keptOps e s ops ++ more)) := by
  intro a b
  have hab : a = b := failed_ops_leave_no_trace_walks e s ops
  refine ⟨fun q => by rw [hab], ?_, by rw [hab], by rw [hab], by rw [hab], fun _ => by rw [hab], by rw [hab],
    fun d => ⟨by rw [hab], by rw [hab]⟩, fun _ => by rw [hab], fun more => ?_⟩
  · rw [hab]; exact ⟨fun _ => rfl, fun _ => rfl, rfl, rfl, rfl, rfl⟩
  · rw [hrun_append, hrun_append]
    show hrun e a more = hrun e b more
    rw [hab]

/-- `ops'` is the history `ops` with failing submissions / plays / miner plays inserted at any positions, in any number:
each inserted operation fails in the state in which it is reached -/
abbrev FailuresInserted (e : Env) : St → List HOp → List HOp → Prop := InsertedG (hstep e) (hdrop e)

/-- **interleaved form: inserting ANY failing submissions, plays and miner plays ANYWHERE into a history does not change
the final state** (nor, therefore, any observation) -/
theorem failing_ops_insertable (e : Env) (s : St) (ops ops' : List HOp) (h : FailuresInserted e s ops ops') :
    hrun e s ops' = hrun e s ops :=
  foldl_insertedG (hstep e) (hdrop e) (hstep_of_hdrop e) s ops ops' h

/-- the same for one block `F` of failing operations put between two parts `A`, `B` of a history (each operation of
`F` fails in the state after `A`: none of them changes it, so they are all tried on that state) -/
theorem failing_block_insertable (e : Env) (s : St) (A F B : List HOp)
    (hF : ∀ f ∈ F, isWalk f = false ∧ hopFails e (hrun e s A) f = true) :
    hrun e s (A ++ F ++ B) = hrun e s (A ++ B) :=
  foldl_insert_block (hstep e) (hdrop e) (hstep_of_hdrop e) A F B s
    (fun f hf => by
      show hdrop e (hrun e s A) f = true
      unfold hdrop; rw [(hF f hf).1, (hF f hf).2]; rfl)

/-- every history is its sub-list with the failing operations inserted — and the sub-list is the only history without
failing single-batch operations of which it is such an extension -/
theorem keptOps_inserted (e : Env) (s : St) (ops : List HOp) :
    FailuresInserted e s (keptOps e s ops) ops ∧
    ∀ base, FailuresInserted e s base ops → noneDropped (hstep e) (hdrop e) s base = true → keptOps e s ops = base :=
  ⟨insertedG_keepG _ _ ops s, fun base hb hn => keepG_of_insertedG _ _ s base ops hb hn⟩

/-- nothing is asked of a failing submission, play or miner play by the hypotheses of C01's closing induction -/
theorem opOK_of_failed (e : Env) (g s : St) (op : HOp) (h : hdrop e s op = true) : OpOK e g s op := by
  cases op with
  | submit lh i =>
    simp only [hdrop, hopFails, isWalk, Bool.not_false, Bool.and_true, bne_iff_ne, ne_eq] at h
    exact fun hok => absurd hok h
  | play lh bi => trivial
  | playMiner lh bi =>
    simp only [hdrop, hopFails, isWalk, Bool.not_false, Bool.and_true, bne_iff_ne, ne_eq] at h
    exact fun hok => absurd hok h
  | walk lh dest prune skip => simp [hdrop, isWalk] at h

/-- the hypotheses of `chain_refines` on a history are exactly its hypotheses on the operations that did not fail -/
theorem histOK_keptOps (e : Env) (g : St) : ∀ (ops : List HOp) (s : St),
    HistOK e g s ops ↔ HistOK e g s (keptOps e s ops) := by
  intro ops
  induction ops with
  | nil => intro s; exact Iff.rfl
  | cons op rest ih =>
    intro s
    unfold keptOps at ih ⊢
    by_cases hd : hdrop e s op = true
    · rw [keepG_cons_drop _ _ s op rest hd, ← ih s]
      constructor
      · intro h; have := h.2; rw [hstep_of_hdrop e s op hd] at this; exact this
      · intro h; exact ⟨opOK_of_failed e g s op hd, by rw [hstep_of_hdrop e s op hd]; exact h⟩
    · rw [keepG_cons_keep _ _ s op rest hd]
      constructor
      · intro h; exact ⟨h.1, (ih _).mp h.2⟩
      · intro h; exact ⟨h.1, (ih _).mpr h.2⟩

/-- **C01's closing induction with the failing operations for free**: the hypotheses are asked only of the operations
that did not fail (and of the walks); the conclusion — the node shows the canonical state of its tip with the pool applied
— holds after the WHOLE history, failing operations included -/
theorem chain_refines_kept (e : Env) (g s0 : St) (ops : List HOp) (he : EnvOK e g) (h0 : Inv e g s0)
    (hh : HistOK e g s0 (keptOps e s0 ops)) : Inv e g (hrun e s0 ops) :=
  chain_refines e g s0 ops he h0 ((histOK_keptOps e g ops s0).mpr hh)

-- ------------------------------------------------------------------ example environment and history
-- block 1 = the root with the genesis transaction 0 (two outputs); blocks 2 and 3 are children of block 1, block 4 a child
-- of 3, block 5 a child of 2 whose second transaction 51 spends an output that does not exist (a block that fails in the
-- MIDDLE, after its award was applied). 21 creates key "k" and pays a fee, 22 spends an output of 21 and overwrites "k",
-- 23 spends the second genesis output; 24 spends an unknown output (refused: missing input), 25 spends the same output as
-- 23 (refused once 23 is pending), 26 cites a version of "k" that never existed (refused: stale version). Window 1.
private def xEnv : Env := {
  window := 1,
  txs := [
    (0, ⟨0, true, [], [⟨"u0", 5, 0⟩, ⟨"u9", 3, 0⟩], [], []⟩),
    (20, ⟨20, true, [], [⟨"m2", 10, 0⟩], [], []⟩),
    (21, ⟨21, false, [⟨0, 0, "u0", 5, 0, false⟩], [⟨"u1", 4, 0⟩, ⟨"$", 1, 0⟩], [⟨"k", none⟩], [⟨"k", "a", false⟩]⟩),
    (22, ⟨22, false, [⟨21, 0, "u1", 4, 0, false⟩], [⟨"u2", 4, 0⟩], [⟨"k", some (21, 0)⟩], [⟨"k", "b", false⟩]⟩),
    (23, ⟨23, false, [⟨0, 1, "u9", 3, 0, false⟩], [⟨"u8", 2, 0⟩, ⟨"$", 1, 0⟩], [], []⟩),
    (24, ⟨24, false, [⟨7, 0, "u0", 5, 0, false⟩], [⟨"u6", 5, 0⟩], [], []⟩),
    (25, ⟨25, false, [⟨0, 1, "u9", 3, 0, false⟩], [⟨"u7", 3, 0⟩], [], []⟩),
    (26, ⟨26, false, [], [], [⟨"k", some (9, 9)⟩], [⟨"k", "z", false⟩]⟩),
    (30, ⟨30, true, [], [⟨"m3", 10, 0⟩], [], []⟩),
    (31, ⟨31, false, [⟨0, 0, "u0", 5, 0, false⟩], [⟨"u3", 5, 0⟩], [⟨"j", none⟩], [⟨"j", "c", false⟩]⟩),
    (40, ⟨40, true, [], [⟨"m4", 10, 0⟩], [], []⟩),
    (41, ⟨41, false, [⟨31, 0, "u3", 5, 0, false⟩], [⟨"u4", 5, 0⟩], [⟨"j", some (31, 0)⟩], [⟨"j", "", true⟩]⟩),
    (50, ⟨50, true, [], [⟨"m5", 10, 0⟩], [], []⟩),
    (51, ⟨51, false, [⟨8, 0, "u0", 5, 0, false⟩], [⟨"u5", 5, 0⟩], [], []⟩)],
  blocks := [(1, ⟨1, none, 0, [0], "m1"⟩), (2, ⟨2, some 1, 1, [20, 21], "m2"⟩), (3, ⟨3, some 1, 1, [30, 31], "m3"⟩),
    (4, ⟨4, some 3, 2, [40, 41], "m4"⟩), (5, ⟨5, some 2, 2, [50, 51], "m5"⟩)] }
/-- the node at the root block: the canonical state of block 1 over the empty base state -/
private def xS0 : St := { canon xEnv {} 1 with pool := [], pointer := 1 }
/-- twelve operations, eight of which fail: missing input (24), block 2 played, bad parent (block 3 on tip 2), 22 accepted,
22 again (already pending), stale version (26), 23 accepted, spent input (25), block 5 failing in its middle, a miner play
on the wrong parent, a successful walk across the fork to block 3 (22 is dropped there, 23 re-admitted), 22 again (its
input is gone) -/
private def xOps : List HOp := [
  .submit 0 24, .play 0 2, .play 0 3, .submit 0 22, .submit 0 22, .submit 0 26, .submit 0 23, .submit 0 25,
  .play 0 5, .playMiner 0 3, .walk 0 3 false [], .submit 0 22]
/-- … continued with two walks that FAIL: to block 2 at ledger height -1 (block 3 is undone, block 2 refused: its input
counts as frozen; the node is left at block 1, the common ancestor), then — after blocks 3 and 4 were played, which moves
the irreversible height to 1 — to block 2 again (block 4 is undone, the undo of block 3 refused at the irreversible
height; the node is left at block 3) -/
private def xOpsW : List HOp := xOps ++ [.walk (-1) 2, .submit 0 24, .play 0 3, .play 0 4, .walk 0 2, .submit 0 25]

-- the failing operations of the history, each by its own verdict in the state in which it is reached
example : (doTx xEnv xS0 0 24).2 = .utxo ∧
    (play xEnv (hrun xEnv xS0 (xOps.take 2)) 0 (xEnv.block 3)).2 = .premismatch ∧
    (doTx xEnv (hrun xEnv xS0 (xOps.take 4)) 0 22).2 = .inpool ∧
    (doTx xEnv (hrun xEnv xS0 (xOps.take 5)) 0 26).2 = .rwset ∧
    (doTx xEnv (hrun xEnv xS0 (xOps.take 7)) 0 25).2 = .utxo ∧
    (play xEnv (hrun xEnv xS0 (xOps.take 8)) 0 (xEnv.block 5)).2 = .utxo ∧
    (playForMiner xEnv (hrun xEnv xS0 (xOps.take 9)) 0 (xEnv.block 3)).2 = .premismatch ∧
    (doTx xEnv (hrun xEnv xS0 (xOps.take 11)) 0 22).2 = .utxo := by decide
-- the sub-list of the operations that did not fail; every walk of `xOps` succeeds: hypothesis of the main theorem
example : liveOps xEnv xS0 xOps = [.play 0 2, .submit 0 22, .submit 0 23, .walk 0 3 false []] := by decide
example : walksSucceed xEnv xS0 xOps = true := by decide
example : hrun xEnv xS0 xOps = hrun xEnv xS0 [.play 0 2, .submit 0 22, .submit 0 23, .walk 0 3 false []] :=
  failed_ops_leave_no_trace xEnv xS0 xOps (by decide)
-- … and the history is that sub-list with the failing operations inserted
example : FailuresInserted xEnv xS0 [.play 0 2, .submit 0 22, .submit 0 23, .walk 0 3 false []] xOps := by
  have h : keptOps xEnv xS0 xOps = [.play 0 2, .submit 0 22, .submit 0 23, .walk 0 3 false []] := by decide
  rw [← h]; exact (keptOps_inserted xEnv xS0 xOps).1
-- a block of three failing operations between two parts of a history
example : ∀ f ∈ [HOp.submit 0 24, .play 0 3, .playMiner 0 4],
    isWalk f = false ∧ hopFails xEnv (hrun xEnv xS0 [.play 0 2, .submit 0 22]) f = true := by decide
example : hrun xEnv xS0 ([.play 0 2, .submit 0 22] ++ [.submit 0 24, .play 0 3, .playMiner 0 4] ++ [.submit 0 23]) =
    hrun xEnv xS0 ([.play 0 2, .submit 0 22] ++ [.submit 0 23]) :=
  failing_block_insertable xEnv xS0 [.play 0 2, .submit 0 22] [.submit 0 24, .play 0 3, .playMiner 0 4] [.submit 0 23]
    (by decide)
-- the final state, computed: block 3, pool [23]; with the failing walks: block 3, pool [25], irreversible height 1
example : (hrun xEnv xS0 xOps).pointer = 3 ∧ (hrun xEnv xS0 xOps).pool = [23] ∧
    (hrun xEnv xS0 xOpsW).pointer = 3 ∧ (hrun xEnv xS0 xOpsW).pool = [25] ∧ (hrun xEnv xS0 xOpsW).irrev = 1 := by decide
-- with the failing walks kept, nothing is asked
example : keptOps xEnv xS0 xOpsW = [.play 0 2, .submit 0 22, .submit 0 23, .walk 0 3 false [], .walk (-1) 2,
    .play 0 3, .play 0 4, .walk 0 2, .submit 0 25] := by decide

/-- the statement with the failing WALKS left out too -/
def failed_walks_leave_no_trace_statement : Prop :=
  ∀ (e : Env) (s : St) (ops : List HOp), hrun e s ops = hrun e s (liveOps e s ops)

/-- **it is false, as the property says it ("a failed … walk step"): a failing walk is not a no-op.** Witness: the node at
block 2 with the pending transaction 23 walks to block 3 at ledger height -1; block 2 is undone, block 3 is refused; the
walk reports failure and leaves the node at block 1 with an empty pool (section 2 says exactly where) -/
theorem failed_walk_leaves_trace : ¬ failed_walks_leave_no_trace_statement := by
  intro h
  have := congrArg St.pointer (h xEnv (hrun xEnv xS0 [.play 0 2, .submit 0 23]) [.walk (-1) 3])
  revert this
  decide

-- ====================================================================================================================
--                              2. a failing walk: its failing STEP writes nothing
-- ====================================================================================================================

open XV.Crash in
/-- **a failing walk stops at a block boundary.** If `walk` reports failure, there are a prefix `u` of the undo list and a
prefix `t` of the apply list (`undoTodo`) such that the returned state is exactly
`replayChain t (undoRun u (rolledBack s))` — the pool roll-back batch, the undo batches of `u`, the apply batches of `t`, each
of which completed (`walk.undoAll` over `u` and `walk.todoAll` over `t` report success and return these states) — with the
batch of the failing step ABSENT: either nothing was applied (`t = []`), the next block `b` of the undo list lies at or below
the irreversible height of the returned state and the walk is not pruning (undo refused); or the undo list was completed
(`ru = []`) and `todoBlock` returns nothing for the next block `b` of the apply list on the returned state (block refused:
duplicated input, or a transaction that does not pass admission, at any position of the block). The pool of the returned
state is empty (it stays rolled back) and its pointer is the last block of those steps: the id of the last applied block,
else the parent of the last undone block, else the pointer the walk started from. -/
theorem walk_fail_is_block_boundary (e : Env) (s : St) (lh : Int) (dest : Nat) (prune : Bool)
    (hf : (walk e s lh dest prune).2 = false) :
    ∃ u t ru rt,
      (undoTodo e s.pointer dest).1 = u ++ ru ∧ (undoTodo e s.pointer dest).2 = t ++ rt ∧
      (walk e s lh dest prune).1 = replayChain e t (undoRun e prune u (rolledBack e s)) ∧
      walk.undoAll e prune u (rolledBack e s) = (undoRun e prune u (rolledBack e s), true) ∧
      walk.todoAll e lh t (undoRun e prune u (rolledBack e s)) =
        (replayChain e t (undoRun e prune u (rolledBack e s)), true) ∧
      ((t = [] ∧ ∃ b r, ru = b :: r ∧ prune = false ∧
          ((e.block b).height : Int) ≤ (walk e s lh dest prune).1.irrev) ∨
       (ru = [] ∧ ∃ b r, rt = b :: r ∧ todoBlock e (walk e s lh dest prune).1 lh (e.block b) = none)) ∧
      (walk e s lh dest prune).1.pool = [] ∧
      (walk e s lh dest prune).1.pointer = stepsPointer e s.pointer u t := by
  have hc : (walkCore e s lh dest prune).2 = false := by rw [← walk_ok_iff_core]; exact hf
  have hw : (walk e s lh dest prune).1 = (walkCore e s lh dest prune).1 := by
    rw [walk_eq_core, hc]; rfl
  rw [hw]
  have hcore : walkCore e s lh dest prune =
      if (!(walk.undoAll e prune (undoTodo e s.pointer dest).1 (rolledBack e s)).2) = true then
        ((walk.undoAll e prune (undoTodo e s.pointer dest).1 (rolledBack e s)).1, false)
      else walk.todoAll e lh (undoTodo e s.pointer dest).2
        (walk.undoAll e prune (undoTodo e s.pointer dest).1 (rolledBack e s)).1 := rfl
  cases h1 : (walk.undoAll e prune (undoTodo e s.pointer dest).1 (rolledBack e s)).2 with
  | false =>
    obtain ⟨u, b, r, hl, hrun, hp, hle, hres⟩ := undoAll_fail_split e prune _ _ h1
    have hval : (walkCore e s lh dest prune).1 = undoRun e prune u (rolledBack e s) := by
      rw [hcore, h1, hres]; rfl
    rw [hval]
    refine ⟨u, [], b :: r, (undoTodo e s.pointer dest).2, hl, rfl, rfl, hrun, rfl,
      Or.inl ⟨rfl, b, r, rfl, hp, hle⟩, ?_, ?_⟩
    · rw [undoRun_pool]; rfl
    · have hptr := undoAll_pointer' e prune u (rolledBack e s) (by rw [hrun])
      rw [hrun, rolledBack_pointer] at hptr
      unfold stepsPointer
      simp only [List.getLast?_nil]
      rw [hptr]
      cases u.getLast? <;> rfl
  | true =>
    have hU := undoAll_ok_eq e prune _ _ h1
    have hval : walkCore e s lh dest prune = walk.todoAll e lh (undoTodo e s.pointer dest).2
        (undoRun e prune (undoTodo e s.pointer dest).1 (rolledBack e s)) := by
      rw [hcore, h1, hU]; rfl
    rw [hval] at hc ⊢
    obtain ⟨t, b, r, hl, hrun, hnone, hres⟩ := todoAll_fail_split e lh _ _ hc
    rw [hres]
    refine ⟨(undoTodo e s.pointer dest).1, t, [], b :: r, by simp, hl, rfl, hU, hrun,
      Or.inr ⟨rfl, b, r, rfl, hnone⟩, ?_, ?_⟩
    · show (replayChain e t _).pool = []
      rw [replayChain_pool, undoRun_pool]; rfl
    · show (replayChain e t _).pointer = _
      have hpt := todoAll_pointer e lh t _ (by rw [hrun])
      rw [hrun] at hpt
      have hpu := undoAll_pointer' e prune (undoTodo e s.pointer dest).1 (rolledBack e s) (by rw [hU])
      rw [hU, rolledBack_pointer] at hpu
      simp only at hpt hpu
      rw [hpt]
      unfold stepsPointer
      cases t.getLast? with
      | some bl => rfl
      | none =>
        simp only
        rw [hpu]
        cases (undoTodo e s.pointer dest).1.getLast? <;> rfl

open XV.Crash in
/-- **with the C01 invariant: the state after a failed walk is the canonical state of the block its pointer names, with an
empty pool** — what a fresh node obtains by playing genesis..pointer (`canon`), table by table (`TRefines`: every UTXO row,
the current version of every key, the total, the live key table row by row); so nothing a client can observe is left of
the failing step, the node is merely at an intermediate block of the path, and the invariant of `chain_refines` holds
there again. This is a COROLLARY of C01: `hstep` treats `.walk` by `walk` whatever its verdict and `step_invariant` /
`chain_refines` cover the failing case (C01 `inv_walk_fail`); what is added here is that the pool is empty (from
`walk_fail_is_block_boundary`), which turns "canonical state + pool" into "canonical state". The skip list plays no role
when the walk fails. -/
theorem failed_walk_canonical (e : Env) (g s : St) (lh : Int) (dest : Nat) (prune : Bool) (skip : List Nat)
    (he : EnvOK e g) (h : Inv e g s) (hdest : dest ∈ e.blocks.map (·.1))
    (hf : (walk (e.withSkip skip) s lh dest prune).2 = false) :
    Inv e g (walk (e.withSkip skip) s lh dest prune).1 ∧
    (walk (e.withSkip skip) s lh dest prune).1.pool = [] ∧
    (walk (e.withSkip skip) s lh dest prune).1.pointer ∈ e.blocks.map (·.1) ∧
    ChainValid e (ancestors e (e.blocks.length + 1) (walk (e.withSkip skip) s lh dest prune).1.pointer).reverse g ∧
    TRefines (walk (e.withSkip skip) s lh dest prune).1
      (canon e g (walk (e.withSkip skip) s lh dest prune).1.pointer) := by
  have hc : (walkCore e s lh dest prune).2 = false := by rw [← walk_withSkip_ok e skip]; exact hf
  have hany : ∀ l, (walk (e.withSkip l) s lh dest prune).1 = (walkCore e s lh dest prune).1 := by
    intro l; rw [walk_withSkip, hc]; rfl
  have hinv : Inv e g (hstep e s (.walk lh dest prune s.pool)) :=
    step_invariant e g s (.walk lh dest prune s.pool) he h ⟨hdest, fun i hi _ => hi⟩
  have hinv' : Inv e g (walk (e.withSkip skip) s lh dest prune).1 := by
    rw [hany skip, ← hany s.pool]; exact hinv
  obtain ⟨_, _, _, _, _, _, _, _, _, _, hpool, _⟩ := walk_fail_is_block_boundary (e.withSkip skip) s lh dest prune hf
  refine ⟨hinv', hpool, hinv'.known, hinv'.chain, ?_⟩
  have := hinv'.refines
  rw [hpool] at this
  exact this

/-- **the same inside any history**: whenever operation `k` of a history (hypotheses of `chain_refines`) is a walk that
fails, the node stands, right after it, on the canonical state of a registered block with an empty pool — and the rest of
the history continues from there under the invariant -/
theorem history_failed_walk_canonical (e : Env) (g s0 : St) (ops : List HOp) (he : EnvOK e g) (h0 : Inv e g s0)
    (hh : HistOK e g s0 ops) (k : Nat) (lh : Int) (dest : Nat) (prune : Bool) (skip : List Nat)
    (hk : ops[k]? = some (.walk lh dest prune skip))
    (hf : hopFails e (hrun e s0 (ops.take k)) (.walk lh dest prune skip) = true) :
    (hrun e s0 (ops.take (k + 1))).pool = [] ∧
    (hrun e s0 (ops.take (k + 1))).pointer ∈ e.blocks.map (·.1) ∧
    TRefines (hrun e s0 (ops.take (k + 1))) (canon e g (hrun e s0 (ops.take (k + 1))).pointer) ∧
    Inv e g (hrun e s0 (ops.take (k + 1))) := by
  obtain ⟨hpre, hop⟩ := histOK_take e g ops s0 k hh
  have hinv := chain_refines e g s0 (ops.take k) he h0 hpre
  obtain ⟨hdest, _⟩ := hop _ hk
  rw [hrun_take_succ e s0 ops k _ hk]
  simp only [hopFails, Bool.not_eq_eq_eq_not, Bool.not_true] at hf
  obtain ⟨a, b, c, _, d⟩ := failed_walk_canonical e g _ lh dest prune skip he hinv hdest hf
  exact ⟨b, c, d, a⟩

-- ------------------------------------------------------------------ examples for section 2
private theorem xEnvOK : EnvOK xEnv {} :=
  ⟨parentLower_of_blocks _ (by decide), by decide, by decide, by decide, by decide, by decide, by decide,
    KVInv_empty _ _ rfl rfl, frozenInv_of_rows _ _ (by decide)⟩
private theorem xInv0 : Inv xEnv {} xS0 :=
  genesis_inv xEnv {} 1 (by decide) (XV.Crash.ChainValidC.sound (by decide))

-- the three ways a walk fails. (a) block refused, nothing applied: from block 3 (pool [23]) to block 2 at ledger height -1
-- — undo list [3] completed, apply list [2] refused at its first block: the node is at block 1 with an empty pool;
-- (b) undo refused: from block 4 to block 2 with irreversible height 1 — undo list [4, 3], block 4 undone, block 3 refused:
-- the node is at block 3; (c) block refused after one was applied: from block 3 to block 5 — undo list [3], apply list
-- [2, 5], block 2 applied, block 5 refused at its second transaction: the node is at block 2, none of the award of block 5 stays
example :
    let a := hrun xEnv xS0 xOps
    let b := hrun xEnv xS0 (xOpsW.take 16)
    (walk xEnv a (-1) 2 false).2 = false ∧ undoTodo xEnv a.pointer 2 = ([3], [2]) ∧
      (walk xEnv a (-1) 2 false).1.pointer = stepsPointer xEnv a.pointer [3] [] ∧
      (walk xEnv a (-1) 2 false).1.pointer = 1 ∧ a.pool = [23] ∧
    (walk xEnv b 0 2 false).2 = false ∧ undoTodo xEnv b.pointer 2 = ([4, 3], [2]) ∧
      (walk xEnv b 0 2 false).1.pointer = stepsPointer xEnv b.pointer [4] [] ∧ (walk xEnv b 0 2 false).1.pointer = 3 ∧
      ((xEnv.block 3).height : Int) ≤ (walk xEnv b 0 2 false).1.irrev ∧
    (walk xEnv a 0 5 false).2 = false ∧ undoTodo xEnv a.pointer 5 = ([3], [2, 5]) ∧
      (walk xEnv a 0 5 false).1.pointer = stepsPointer xEnv a.pointer [3] [2] ∧ (walk xEnv a 0 5 false).1.pointer = 2 ∧
      (walk xEnv a 0 5 false).1.total = (canon xEnv {} 2).total ∧ (walk xEnv a 0 5 false).1.pool = [] := by decide
-- the hypotheses of the C01 corollaries on the history with the two failing walks (operations 12 and 16)
example : EnvOK xEnv {} := xEnvOK
example : Inv xEnv {} xS0 := xInv0
example : HistOK xEnv {} xS0 xOpsW := by decide
example : xOpsW[12]? = some (.walk (-1) 2) ∧ hopFails xEnv (hrun xEnv xS0 (xOpsW.take 12)) (.walk (-1) 2) = true ∧
    xOpsW[16]? = some (.walk 0 2) ∧ hopFails xEnv (hrun xEnv xS0 (xOpsW.take 16)) (.walk 0 2) = true := by decide
example : TRefines (hrun xEnv xS0 (xOpsW.take 13)) (canon xEnv {} (hrun xEnv xS0 (xOpsW.take 13)).pointer) :=
  (history_failed_walk_canonical xEnv {} xS0 xOpsW xEnvOK xInv0 (by decide) 12 (-1) 2 false [] (by decide)
    (by decide)).2.2.1
example : TRefines (hrun xEnv xS0 (xOpsW.take 17)) (canon xEnv {} (hrun xEnv xS0 (xOpsW.take 17)).pointer) :=
  (history_failed_walk_canonical xEnv {} xS0 xOpsW xEnvOK xInv0 (by decide) 16 0 2 false [] (by decide)
    (by decide)).2.2.1
-- the whole history, hypotheses asked of the operations that did not fail only
example : Inv xEnv {} (hrun xEnv xS0 xOpsW) := chain_refines_kept xEnv {} xS0 xOpsW xEnvOK xInv0 (by decide)

-- ====================================================================================================================
--                              3. the ledger: histories of confirmations and truncations
-- ====================================================================================================================

/-- the operations of a ledger history -/
inductive LOp where
  | confirm (id pre : Nat) (txs : List (Nat × Bool))    -- `ConfirmBlock`; each transaction with its coinbase flag
  | truncate (target : Nat)                              -- `Truncate`
deriving Repr, DecidableEq

def lstep (l : XV.Ledger.L) : LOp → XV.Ledger.L
  | .confirm id pre txs => (XV.Ledger.confirm l id pre txs).1
  | .truncate t => (XV.Ledger.truncate l t).1

def lrun (l : XV.Ledger.L) (ops : List LOp) : XV.Ledger.L := ops.foldl lstep l

/-- the operation reports failure on the ledger `l` -/
def lopFails (l : XV.Ledger.L) : LOp → Bool
  | .confirm id pre txs => (XV.Ledger.confirm l id pre txs).2 == .fail
  | .truncate t => !(XV.Ledger.truncate l t).2

theorem lstep_of_failed (l : XV.Ledger.L) (op : LOp) (h : lopFails l op = true) : lstep l op = l := by
  cases op with
  | confirm id pre txs =>
    simp only [lopFails, beq_iff_eq] at h
    exact confirm_fail_noop l id pre txs h
  | truncate t =>
    simp only [lopFails, Bool.not_eq_eq_eq_not, Bool.not_true] at h
    exact truncate_fail_noop l t h

/-- the sub-list of the ledger operations that did not fail when they were reached -/
def ledgerLiveOps : XV.Ledger.L → List LOp → List LOp := keepG lstep lopFails

/-- **ledger side: the failing operations of ANY list of confirmations and truncations can be deleted without changing the
final tables** — whatever made them fail: block already stored, unknown parent, a second coinbase, a transaction that the
main chain already contains below the fork point, a fork that cannot be resolved, an unknown truncation target -/
theorem ledger_failed_ops_leave_no_trace (l : XV.Ledger.L) (ops : List LOp) :
    lrun l ops = lrun l (ledgerLiveOps l ops) :=
  foldl_keepG lstep lopFails lstep_of_failed ops l

/-- `ops'` is the ledger history `ops` with failing operations inserted at any positions -/
abbrev LedgerFailuresInserted : XV.Ledger.L → List LOp → List LOp → Prop := InsertedG lstep lopFails

/-- … and failing operations can be inserted anywhere, in any number -/
theorem ledger_failing_ops_insertable (l : XV.Ledger.L) (ops ops' : List LOp) (h : LedgerFailuresInserted l ops ops') :
    lrun l ops' = lrun l ops :=
  foldl_insertedG lstep lopFails lstep_of_failed l ops ops' h

theorem ledger_failing_block_insertable (l : XV.Ledger.L) (A F B : List LOp)
    (hF : ∀ f ∈ F, lopFails (lrun l A) f = true) : lrun l (A ++ F ++ B) = lrun l (A ++ B) :=
  foldl_insert_block lstep lopFails lstep_of_failed A F B l hF

theorem ledgerLiveOps_spec (l : XV.Ledger.L) (ops : List LOp) :
    noneDropped lstep lopFails l (ledgerLiveOps l ops) = true ∧ LedgerFailuresInserted l (ledgerLiveOps l ops) ops ∧
    ledgerLiveOps l (ledgerLiveOps l ops) = ledgerLiveOps l ops :=
  ⟨keepG_noneDropped _ _ ops l, insertedG_keepG _ _ ops l, keepG_idem _ _ ops l⟩

/-- every query of the ledger is answered the same in both runs: the raw tables, tip and height, `IsTxInTrunk`,
`FindUndoAndTodoBlocks`, the path of every block, the line the driver prints for the ledger (`ledgerObs`), the verdict
of any operation run next -/
theorem ledger_failed_ops_unobservable (l : XV.Ledger.L) (ops : List LOp) :
    let a := lrun l ops
    let b := lrun l (ledgerLiveOps l ops)
    (∀ {α : Type} (q : XV.Ledger.L → α), q a = q b) ∧
    a.B = b.B ∧ a.ZH = b.ZH ∧ a.C = b.C ∧ a.ZI = b.ZI ∧ a.tip = b.tip ∧ a.trunkHeight = b.trunkHeight ∧
    (∀ t, XV.Ledger.isTxInTrunk a t = XV.Ledger.isTxInTrunk b t) ∧
    (∀ cur dest, XV.Ledger.findUndoTodo a cur dest = XV.Ledger.findUndoTodo b cur dest) ∧
    (∀ x, XV.Ledger.pathOf a x = XV.Ledger.pathOf b x) ∧
    (∀ d : XV.Drv.Chain.DS, XV.Drv.Chain.ledgerObs { d with l := a } = XV.Drv.Chain.ledgerObs { d with l := b }) ∧
    (∀ op, lopFails a op = lopFails b op) := by
  intro a b
  have hab : a = b := ledger_failed_ops_leave_no_trace l ops
  refine ⟨fun q => by rw [hab], ?_, ?_, ?_, ?_, ?_, ?_, fun _ => ?_, fun _ _ => ?_, fun _ => ?_, fun _ => ?_, fun _ => ?_⟩ <;>
    rw [hab]

-- example: on the ledger holding the root block 1, block 2 is confirmed; then five operations fail — block 2 again (already
-- stored), a block with an unknown parent, a block with two coinbase transactions, a block that repeats transaction 21 of
-- the main chain, a truncation to an unknown block —; block 3 arrives on a side branch, block 4 on top of it switches the
-- trunk; block 4 again fails; truncation to block 3
private def xL0 : XV.Ledger.L := XV.Ledger.genesis 1 [0]
private def xLOps : List LOp := [
  .confirm 2 1 [(20, true), (21, false)], .confirm 2 1 [(20, true), (21, false)], .confirm 9 8 [],
  .confirm 6 2 [(60, true), (61, true)], .confirm 6 2 [(60, true), (21, false)], .truncate 7,
  .confirm 3 1 [(30, true), (31, false)], .confirm 4 3 [(40, true), (41, false)], .confirm 4 3 [(40, true), (41, false)],
  .truncate 3]

example : ledgerLiveOps xL0 xLOps = [.confirm 2 1 [(20, true), (21, false)], .confirm 3 1 [(30, true), (31, false)],
    .confirm 4 3 [(40, true), (41, false)], .truncate 3] := by decide
example : (XV.Ledger.confirm (lrun xL0 (xLOps.take 4)) 6 2 [(60, true), (21, false)]).2 = .fail ∧
    (XV.Ledger.confirm (lrun xL0 (xLOps.take 7)) 4 3 [(40, true), (41, false)]).2 = .succSwitch ∧
    (lrun xL0 xLOps).tip = 3 ∧ (lrun xL0 xLOps).trunkHeight = 1 := by decide
example : lrun xL0 xLOps = lrun xL0 [.confirm 2 1 [(20, true), (21, false)], .confirm 3 1 [(30, true), (31, false)],
    .confirm 4 3 [(40, true), (41, false)], .truncate 3] := by
  have h : ledgerLiveOps xL0 xLOps = [.confirm 2 1 [(20, true), (21, false)], .confirm 3 1 [(30, true), (31, false)],
    .confirm 4 3 [(40, true), (41, false)], .truncate 3] := by decide
  rw [← h]; exact ledger_failed_ops_leave_no_trace xL0 xLOps

-- two failing operations (block 2 with other contents: already stored; an unknown truncation target) put after the first
example : lrun xL0 (xLOps.take 1 ++ [.confirm 2 1 [], .truncate 7] ++ xLOps.drop 1) =
    lrun xL0 (xLOps.take 1 ++ xLOps.drop 1) :=
  ledger_failing_block_insertable xL0 (xLOps.take 1) [.confirm 2 1 [], .truncate 7] (xLOps.drop 1) (by decide)
example : LedgerFailuresInserted xL0 (ledgerLiveOps xL0 xLOps) xLOps := (ledgerLiveOps_spec xL0 xLOps).2.1

-- ====================================================================================================================
--                              4. the node of the crash model: persisted image, storage write errors, restart
-- ====================================================================================================================

open XV.Crash

/-- the operation reports failure on the node `n` -/
def opFails (e : Env) (n : Node) : Op → Bool
  | .submit i => (doTx e n.s (lh n) i).2 != .ok
  | .confirm b => (XV.Ledger.confirm n.l (e.block b).id ((e.block b).pre.getD 0) (confirmArgs e b)).2 == .fail
  | .play b => (play e n.s (lh n) (e.block b)).2 != .ok
  | .playMiner b => (playForMiner e n.s (lh n) (e.block b)).2 != .ok
  | .walk dest prune => !(walk e n.s (lh n) dest prune).2
  | .truncate dest => !(XV.Ledger.truncate n.l dest).2

def opIsWalk : Op → Bool
  | .walk .. => true
  | _ => false

/-- a failing single-batch operation (everything but `walk`) -/
def ndrop (e : Env) (n : Node) (op : Op) : Bool := opFails e n op && !opIsWalk op

/-- **after a failed operation the persisted image is unchanged.** In the crash model the node IS its persisted image
(`Node` = the tables of the ledger DB and of the state DB, nothing volatile); a failing submission, confirmation, play,
miner play or truncation returns the very node, and the only element of its batch trace is that node: the one batch of
the operation was not written -/
theorem failed_op_image_unchanged (e : Env) (n : Node) (op : Op) (hf : opFails e n op = true)
    (hw : opIsWalk op = false) : runOp e n op = n ∧ opTrace e n op = [n] := by
  have h1 : runOp e n op = n := by
    cases op with
    | submit i =>
      simp only [opFails, bne_iff_ne, ne_eq] at hf
      show ({ n with s := (doTx e n.s (lh n) i).1 } : Node) = n
      rw [doTx_fail_noop e n.s (lh n) i hf]
    | confirm b =>
      simp only [opFails, beq_iff_eq] at hf
      show ({ n with l := (XV.Ledger.confirm n.l _ _ _).1 } : Node) = n
      rw [confirm_fail_noop n.l _ _ _ hf]
    | play b =>
      simp only [opFails, bne_iff_ne, ne_eq] at hf
      show ({ n with s := (play e n.s (lh n) (e.block b)).1 } : Node) = n
      rw [play_fail_noop e n.s (lh n) _ hf]
    | playMiner b =>
      simp only [opFails, bne_iff_ne, ne_eq] at hf
      show ({ n with s := (playForMiner e n.s (lh n) (e.block b)).1 } : Node) = n
      rw [playForMiner_fail_noop e n.s (lh n) _ hf]
    | walk dest prune => cases hw
    | truncate dest =>
      simp only [opFails, Bool.not_eq_eq_eq_not, Bool.not_true] at hf
      show ({ n with l := (XV.Ledger.truncate n.l dest).1 } : Node) = n
      rw [truncate_fail_noop n.l dest hf]
  refine ⟨h1, ?_⟩
  cases op with
  | walk dest prune => cases hw
  | submit i => show [runOp e n (.submit i)] = [n]; rw [h1]
  | confirm b => show [runOp e n (.confirm b)] = [n]; rw [h1]
  | play b => show [runOp e n (.play b)] = [n]; rw [h1]
  | playMiner b => show [runOp e n (.playMiner b)] = [n]; rw [h1]
  | truncate d => show [runOp e n (.truncate d)] = [n]; rw [h1]

theorem runOp_of_ndrop (e : Env) (n : Node) (op : Op) (h : ndrop e n op = true) : runOp e n op = n := by
  unfold ndrop at h
  rw [Bool.and_eq_true] at h
  exact (failed_op_image_unchanged e n op h.1 (by simpa using h.2)).1

/-- **after a failed WALK the persisted image is the image after its completed batches**: no re-admission batch was
written (the trace of the operation is the block-boundary part `walkMid`: roll-back, undone blocks, applied blocks), the
ledger is untouched, the state is the last element of that trace, and it is the state `walk_fail_is_block_boundary`
describes: prefixes `u`, `t` of the undo / apply lists replayed on the rolled-back state, nothing of the failing step -/
theorem failed_walk_image (e : Env) (n : Node) (dest : Nat) (prune : Bool)
    (hf : opFails e n (.walk dest prune) = true) :
    opTrace e n (.walk dest prune) = (walkMid e n.s (lh n) dest prune).map (fun s => { n with s := s }) ∧
    (runOp e n (.walk dest prune)).l = n.l ∧
    (walkMid e n.s (lh n) dest prune).getLast? = some (runOp e n (.walk dest prune)).s ∧
    (runOp e n (.walk dest prune)).s.pool = [] ∧
    ∃ u t ru rt, (undoTodo e n.s.pointer dest).1 = u ++ ru ∧ (undoTodo e n.s.pointer dest).2 = t ++ rt ∧
      (ru ≠ [] ∨ rt ≠ []) ∧
      (runOp e n (.walk dest prune)).s = replayChain e t (undoRun e prune u (rolledBack e n.s)) := by
  simp only [opFails, Bool.not_eq_eq_eq_not, Bool.not_true] at hf
  have hc : (walkCore e n.s (lh n) dest prune).2 = false := by rw [← walk_ok_iff_core]; exact hf
  have hrep : walkRepost e n.s (lh n) dest prune = [] := by
    cases hr : walkRepost e n.s (lh n) dest prune with
    | nil => rfl
    | cons a r =>
      have := (mem_walkRepost e n.s (lh n) dest prune a (by rw [hr]; exact List.mem_cons_self)).1
      rw [hc] at this; cases this
  have hw : (walk e n.s (lh n) dest prune).1 = (walkCore e n.s (lh n) dest prune).1 := by
    rw [walk_eq_core, hc]; rfl
  obtain ⟨u, t, ru, rt, h1, h2, h3, _, _, h6, h7, _⟩ := walk_fail_is_block_boundary e n.s (lh n) dest prune hf
  refine ⟨?_, rfl, ?_, h7, u, t, ru, rt, h1, h2, ?_, h3⟩
  · show (walkTrace e n.s (lh n) dest prune).map _ = _
    unfold walkTrace
    rw [hrep, List.append_nil]
  · show _ = some (walk e n.s (lh n) dest prune).1
    rw [hw]; exact walkMid_getLast e n.s (lh n) dest prune
  · rcases h6 with ⟨_, b, r, hb, _⟩ | ⟨_, b, r, hb, _⟩
    · left; rw [hb]; simp
    · right; rw [hb]; simp

/-- the sub-list of a node history without its failing single-batch operations -/
def nodeKeptOps (e : Env) : Node → List Op → List Op := keepG (runOp e) (ndrop e)

/-- **node histories: the failing submissions, confirmations, plays, miner plays and truncations of any history can be
deleted (or inserted, in any number, anywhere) without changing the node the uninterrupted run ends in** -/
theorem node_failed_ops_leave_no_trace (e : Env) (n : Node) (ops : List Op) :
    run e n ops = run e n (nodeKeptOps e n ops) :=
  foldl_keepG (runOp e) (ndrop e) (runOp_of_ndrop e) ops n

theorem node_failing_ops_insertable (e : Env) (n : Node) (ops ops' : List Op)
    (h : InsertedG (runOp e) (ndrop e) n ops ops') : run e n ops' = run e n ops :=
  foldl_insertedG (runOp e) (ndrop e) (runOp_of_ndrop e) n ops ops' h

/-- **… and they add no crash state**: whatever batch the process dies after, the image it leaves behind is one the
history without the failing operations can leave behind too, and conversely -/
theorem node_failed_ops_no_new_crash_state (e : Env) : ∀ (ops : List Op) (n x : Node),
    x ∈ crashStates e n ops ↔ x ∈ crashStates e n (nodeKeptOps e n ops) := by
  intro ops
  induction ops with
  | nil => intro n x; exact Iff.rfl
  | cons op rest ih =>
    intro n x
    unfold nodeKeptOps at ih ⊢
    by_cases hd : ndrop e n op = true
    · rw [keepG_cons_drop _ _ n op rest hd, ← ih n x]
      have hd' := hd
      unfold ndrop at hd'
      rw [Bool.and_eq_true] at hd'
      obtain ⟨h1, h2⟩ := failed_op_image_unchanged e n op hd'.1 (by simpa using hd'.2)
      have hcs : crashStates e n (op :: rest) = n :: (opTrace e n op ++ crashStates e (runOp e n op) rest) := rfl
      rw [hcs, h1, h2]
      obtain ⟨tl, htl⟩ := crashStates_head e n rest
      constructor
      · intro hx
        rcases List.mem_cons.mp hx with rfl | hx
        · rw [htl]; exact List.mem_cons_self
        · rcases List.mem_append.mp hx with hx | hx
          · simp only [List.mem_cons, List.not_mem_nil, or_false] at hx
            rw [hx, htl]; exact List.mem_cons_self
          · exact hx
      · intro hx
        exact List.mem_cons_of_mem _ (List.mem_append_right _ hx)
    · rw [keepG_cons_keep _ _ n op rest hd]
      have hcs : ∀ l, crashStates e n (op :: l) = n :: (opTrace e n op ++ crashStates e (runOp e n op) l) :=
        fun _ => rfl
      rw [hcs, hcs]
      simp only [List.mem_cons, List.mem_append]
      rw [ih (runOp e n op) x]

-- ------------------------------------------------------------------ injected storage write errors

/-- **the persisted image after an injected storage write error at write point `k` of an operation** (`FailAt` of the
engine): the first `k` batches of the operation are written, the storage engine refuses batch `k` — a refused batch
writes nothing (the engine contract, checked by the harness) — and the operation reports the error and stops. An
operation with at most `k` batches has no write point `k` and completes -/
def faultImage (e : Env) (n : Node) (op : Op) (k : Nat) : Node := ((opTrace e n op).take k).getLast?.getD n

/-- the operation does reach write point `k` -/
def faultHits (e : Env) (n : Node) (op : Op) (k : Nat) : Bool := k < (opTrace e n op).length

theorem opTrace_single (e : Env) (n : Node) (op : Op) (hw : opIsWalk op = false) : opTrace e n op = [runOp e n op] := by
  cases op with
  | walk dest prune => cases hw
  | submit i => rfl
  | confirm b => rfl
  | play b => rfl
  | playMiner b => rfl
  | truncate d => rfl

/-- a write error at the first write point of ANY operation (for a walk: the roll-back batch) leaves the image as it was -/
theorem fault_image_first_write (e : Env) (n : Node) (op : Op) : faultImage e n op 0 = n := rfl

/-- **a write error in a submission, confirmation, play, miner play or truncation — at their one write point — leaves the
persisted image unchanged** -/
theorem fault_image_unchanged (e : Env) (n : Node) (op : Op) (k : Nat) (hw : opIsWalk op = false)
    (hk : faultHits e n op k = true) : faultImage e n op k = n := by
  unfold faultHits at hk
  rw [opTrace_single e n op hw] at hk
  simp only [List.length_cons, List.length_nil, Nat.zero_add, Nat.lt_one_iff, decide_eq_true_eq] at hk
  rw [hk]; rfl

/-- without a write point `k` the operation completes -/
theorem fault_image_completed (e : Env) (n : Node) (op : Op) (k : Nat) (hk : faultHits e n op k = false) :
    faultImage e n op k = runOp e n op := by
  unfold faultHits at hk
  simp only [decide_eq_false_iff_not, Nat.not_lt] at hk
  unfold faultImage
  rw [List.take_of_length_le hk, opTrace_getLast]
  rfl

/-- **a write error inside a walk leaves the image after its completed batches**: the ledger is untouched, the state is the
one after the first `k` batches of the walk (`walkTrace`), the state before the walk when `k = 0` -/
theorem fault_walk_image (e : Env) (n : Node) (dest : Nat) (prune : Bool) (k : Nat) :
    faultImage e n (.walk dest prune) k =
      { n with s := lastD ((walkTrace e n.s (lh n) dest prune).take k) n.s } := by
  unfold faultImage opTrace lastD
  rw [← List.map_take, List.getLast?_map]
  cases ((walkTrace e n.s (lh n) dest prune).take k).getLast? <;> rfl

/-- the image a write error leaves is the node before the operation or an element of its batch trace … -/
theorem fault_image_mem (e : Env) (n : Node) (op : Op) (k : Nat) :
    faultImage e n op k = n ∨ faultImage e n op k ∈ opTrace e n op := by
  unfold faultImage
  cases h : ((opTrace e n op).take k).getLast? with
  | none => left; rfl
  | some x => right; exact List.mem_of_mem_take (List.mem_of_getLast? h)

theorem opTrace_mem_crashStates (e : Env) : ∀ (ops : List Op) (n : Node) (j : Nat) (op : Op), ops[j]? = some op →
    ∀ x ∈ opTrace e (run e n (ops.take j)) op, x ∈ crashStates e n ops := by
  intro ops
  induction ops with
  | nil => intro n j op h; simp at h
  | cons o rest ih =>
    intro n j op h x hx
    cases j with
    | zero =>
      simp only [List.getElem?_cons_zero, Option.some.injEq] at h
      subst h
      unfold crashStates
      exact List.mem_cons_of_mem _ (List.mem_append_left _ hx)
    | succ j =>
      rw [List.getElem?_cons_succ] at h
      rw [List.take_succ_cons, run_cons] at hx
      unfold crashStates
      exact List.mem_cons_of_mem _ (List.mem_append_right _ (ih _ j op h x hx))

/-- **… hence a crash state of the history**: a storage write error at any write point of any operation of any history
leaves an image that a crash of the same history leaves too — everything C06 proves of crash states (block boundary,
state and ledger invariants, the restart reaches the tables of the uninterrupted run) holds of it -/
theorem fault_image_is_crash_state (e : Env) (n : Node) (ops : List Op) (j : Nat) (op : Op) (k : Nat)
    (hj : ops[j]? = some op) : faultImage e (run e n (ops.take j)) op k ∈ crashStates e n ops := by
  rcases fault_image_mem e (run e n (ops.take j)) op k with h | h
  · rw [h]; exact run_take_mem_crashStates e ops n j
  · exact opTrace_mem_crashStates e ops n j op hj _ h

/-- histories with injected write errors: an operation runs to its end, or with a write error at write point `k` -/
inductive FOp where
  | run (op : Op)
  | fault (op : Op) (k : Nat)
deriving Repr, DecidableEq

def fstep (e : Env) (n : Node) : FOp → Node
  | .run op => runOp e n op
  | .fault op k => faultImage e n op k

def frun (e : Env) (n : Node) (ops : List FOp) : Node := ops.foldl (fstep e) n

/-- the entries of such a history that leave no trace: a failing single-batch operation, a write error at the first write
point of any operation, a write error "at" a later write point of a failing single-batch operation (it has none) -/
def fdrop (e : Env) (n : Node) : FOp → Bool
  | .run op => ndrop e n op
  | .fault op k => k == 0 || ndrop e n op

theorem fstep_of_fdrop (e : Env) (n : Node) (f : FOp) (h : fdrop e n f = true) : fstep e n f = n := by
  cases f with
  | run op => exact runOp_of_ndrop e n op h
  | fault op k =>
    simp only [fdrop, Bool.or_eq_true, beq_iff_eq] at h
    rcases h with h | h
    · rw [h]; rfl
    · show faultImage e n op k = n
      have hw : opIsWalk op = false := by
        unfold ndrop at h; rw [Bool.and_eq_true] at h; simpa using h.2
      by_cases hk : faultHits e n op k = true
      · exact fault_image_unchanged e n op k hw hk
      · rw [fault_image_completed e n op k (by simpa using hk)]; exact runOp_of_ndrop e n op h

/-- **histories with failing operations AND injected storage write errors**: the entries that fail in a single batch —
refused operations and write errors at a first write point — can be deleted (or inserted anywhere) without changing the
persisted image the history ends with -/
theorem fault_history_leaves_no_trace (e : Env) (n : Node) (ops : List FOp) :
    frun e n ops = frun e n (keepG (fstep e) (fdrop e) n ops) :=
  foldl_keepG (fstep e) (fdrop e) (fstep_of_fdrop e) ops n

theorem fault_history_insertable (e : Env) (n : Node) (ops ops' : List FOp)
    (h : InsertedG (fstep e) (fdrop e) n ops ops') : frun e n ops' = frun e n ops :=
  foldl_insertedG (fstep e) (fdrop e) (fstep_of_fdrop e) n ops ops' h

theorem frun_of_run (e : Env) (n : Node) (ops : List Op) : frun e n (ops.map .run) = run e n ops := by
  unfold frun run
  rw [List.foldl_map]
  rfl

-- ------------------------------------------------------------------ a running node answers like a reopened one

/-- the state machine has caught up with the ledger: the resting point of the node between two rounds of its loop (a
moment between `ConfirmBlock` and the play / walk that follows it is inside the processing of a block) -/
def Synced (n : Node) : Prop := n.s.pointer = n.l.tip

instance (n : Node) : Decidable (Synced n) := by unfold Synced; exact inferInstance

/-- the restart in one formula: the reopened node is the node itself when it is synchronised, and otherwise the node after
the synchronising walk — the very operation the RUNNING node performs next -/
theorem reopen_is_next_sync (e : Env) (n : Node) :
    (recover e n).1 = (if n.s.pointer = n.l.tip then n else runOp e n (.walk n.l.tip false)) ∧
    (recover e n).1.l = n.l := by
  unfold recover
  by_cases h : n.s.pointer = n.l.tip
  · rw [if_pos h, if_pos h]; exact ⟨rfl, rfl⟩
  · rw [if_neg h, if_neg h]; exact ⟨rfl, rfl⟩

/-- **a running node answers like a reopened one.** For every history of node operations run to completion — any number
of failing operations included —, at a quiescent moment (`Synced`), the restart procedure applied to the persisted image
of the node (in the crash model: the node, there is no volatile part) succeeds and returns that very node: every
observation of the reopened node equals the running node's — every function of the node, in particular both lines the
driver prints (`observe`, `ledgerObs`) and the pool —, and every continuation of the history gives the same node from the
reopened instance as from the running one. (The statement is a fact about every synchronised node, reached by a history
or not: the content of "running == reopened" for the IMPLEMENTATION, with its caches, is the correspondence of the
cache-free model with the code after every operation, which the harness checks; see the header of `C05.lean`.) -/
theorem quiescent_reopen_same (e : Env) (n : Node) (ops : List Op) (hq : Synced (run e n ops)) :
    recover e (run e n ops) = (run e n ops, true) ∧
    (∀ {α : Type} (q : Node → α), q (recover e (run e n ops)).1 = q (run e n ops)) ∧
    (∀ d : XV.Drv.Chain.DS,
      XV.Drv.Chain.observe { d with l := (recover e (run e n ops)).1.l, s := (recover e (run e n ops)).1.s } =
        XV.Drv.Chain.observe { d with l := (run e n ops).l, s := (run e n ops).s } ∧
      XV.Drv.Chain.ledgerObs { d with l := (recover e (run e n ops)).1.l } =
        XV.Drv.Chain.ledgerObs { d with l := (run e n ops).l }) ∧
    (∀ more, run e (recover e (run e n ops)).1 more = run e n (ops ++ more)) := by
  have h : recover e (run e n ops) = (run e n ops, true) := by
    have hq' : (run e n ops).s.pointer = (run e n ops).l.tip := hq
    unfold recover; rw [if_pos hq']
  refine ⟨h, fun q => by rw [h], fun d => by rw [h]; exact ⟨rfl, rfl⟩, fun more => ?_⟩
  rw [h, run_append]

/-- the same after a history with injected storage write errors -/
theorem quiescent_reopen_same_faults (e : Env) (n : Node) (ops : List FOp) (hq : Synced (frun e n ops)) :
    recover e (frun e n ops) = (frun e n ops, true) ∧
    (∀ {α : Type} (q : Node → α), q (recover e (frun e n ops)).1 = q (frun e n ops)) := by
  have h : recover e (frun e n ops) = (frun e n ops, true) := by
    have hq' : (frun e n ops).s.pointer = (frun e n ops).l.tip := hq
    unfold recover; rw [if_pos hq']
  exact ⟨h, fun q => by rw [h]⟩

/-- a failed operation does not move the node out of (or into) a quiescent moment, and the reopened node after it is the
reopened node before it -/
theorem failed_op_reopen_same (e : Env) (n : Node) (op : Op) (hf : opFails e n op = true) (hw : opIsWalk op = false) :
    recover e (runOp e n op) = recover e n ∧ (Synced (runOp e n op) ↔ Synced n) := by
  rw [(failed_op_image_unchanged e n op hf hw).1]
  exact ⟨rfl, Iff.rfl⟩

/-- the statement without the quiescence hypothesis: after EVERY history the reopened node shows the state of the running
one -/
def quiescent_reopen_same_statement : Prop :=
  ∀ (e : Env) (n : Node) (ops : List Op), (recover e (run e n ops)).1.s.pointer = (run e n ops).s.pointer

/-- **it is false**: between the confirmation of a block and its play the running node still shows the old tip, while the
restart walks the state machine to the ledger tip first (`reopen_is_next_sync`). Witness: the node at the root block
confirms block 2 -/
theorem quiescent_reopen_same_needs_sync : ¬ quiescent_reopen_same_statement := by
  intro h
  have := h xEnv { l := XV.Ledger.genesis 1 [0], s := xS0 } [.confirm 2]
  revert this
  decide

-- ------------------------------------------------------------------ examples for section 4
/-- the node at the root block -/
private def xN0 : Node := { l := XV.Ledger.genesis 1 [0], s := xS0 }
/-- fourteen node operations, eight of which fail: a submission with a missing input, block 2 confirmed and played, block 2
confirmed again (already stored), block 3 played on the wrong parent, 22 accepted, 22 again, a truncation to an unknown
block, block 3 confirmed (side branch: the tip stays 2), a miner play of block 3 on the wrong parent, block 5 confirmed (the
LEDGER takes it: it does not execute transactions) and played (refused in its middle), a walk to the new ledger tip 5 that
fails (block 5 cannot be applied: the node stays at block 2 with the pool rolled back), 25 accepted -/
private def xNOps : List Op := [.submit 24, .confirm 2, .play 2, .confirm 2, .play 3, .submit 22, .submit 22, .truncate 9,
  .confirm 3, .playMiner 3, .confirm 5, .play 5, .walk 5 false, .submit 25]

example : nodeKeptOps xEnv xN0 xNOps = [.confirm 2, .play 2, .submit 22, .confirm 3, .confirm 5, .walk 5 false,
    .submit 25] := by decide
example : opFails xEnv (run xEnv xN0 (xNOps.take 12)) (.walk 5 false) = true ∧
    (run xEnv xN0 (xNOps.take 12)).s.pool = [22] ∧ (run xEnv xN0 (xNOps.take 13)).s.pool = [] ∧
    (run xEnv xN0 (xNOps.take 13)).s.pointer = 2 ∧ (run xEnv xN0 xNOps).s.pool = [25] ∧
    (run xEnv xN0 xNOps).l.tip = 5 := by decide
-- a failing operation in the middle (block 2 confirmed a second time): the node, i.e. the persisted image, is unchanged
example : runOp xEnv (run xEnv xN0 (xNOps.take 3)) (.confirm 2) = run xEnv xN0 (xNOps.take 3) :=
  (failed_op_image_unchanged xEnv (run xEnv xN0 (xNOps.take 3)) (.confirm 2) (by decide) rfl).1
-- the failing walk (operation 12): one batch was written, the roll-back of the pool (nothing to undo, block 5 refused)
example : (opTrace xEnv (run xEnv xN0 (xNOps.take 12)) (.walk 5 false)).length = 1 ∧
    undoTodo xEnv (run xEnv xN0 (xNOps.take 12)).s.pointer 5 = ([], [5]) := by decide
-- quiescent moments of the history: after the first ten operations (six of them failed) the node is synchronised
example : Synced (run xEnv xN0 (xNOps.take 10)) ∧ ¬ Synced (run xEnv xN0 (xNOps.take 2)) ∧
    ¬ Synced (run xEnv xN0 xNOps) := by decide
example : recover xEnv (run xEnv xN0 (xNOps.take 10)) = (run xEnv xN0 (xNOps.take 10), true) :=
  (quiescent_reopen_same xEnv xN0 (xNOps.take 10) (by decide)).1
-- write errors: in the play of block 2 (image unchanged: still at block 1), at write points 0, 1, 2 of a walk from block 2
-- (pool [22]) to block 3 (image: untouched / pool rolled back at block 2 / block 2 undone, at block 1), and a write
-- point the walk does not have (it completes: block 3, nothing re-admitted)
example :
    let m := run xEnv xN0 (xNOps.take 9)
    faultHits xEnv (run xEnv xN0 [.confirm 2]) (.play 2) 0 = true ∧
    (faultImage xEnv (run xEnv xN0 [.confirm 2]) (.play 2) 0).s.pointer = 1 ∧
    (opTrace xEnv m (.walk 3 false)).length = 3 ∧
    ((faultImage xEnv m (.walk 3 false) 0).s.pointer, (faultImage xEnv m (.walk 3 false) 0).s.pool) = (2, [22]) ∧
    ((faultImage xEnv m (.walk 3 false) 1).s.pointer, (faultImage xEnv m (.walk 3 false) 1).s.pool) = (2, []) ∧
    ((faultImage xEnv m (.walk 3 false) 2).s.pointer, (faultImage xEnv m (.walk 3 false) 2).s.pool) = (1, []) ∧
    ((faultImage xEnv m (.walk 3 false) 3).s.pointer, (faultImage xEnv m (.walk 3 false) 3).s.pool) = (3, []) := by decide
-- a history with refused operations and write errors that ends at a quiescent moment
example : Synced (frun xEnv xN0 [.run (.submit 24), .run (.confirm 2), .fault (.play 2) 0, .run (.play 2),
    .fault (.submit 22) 0, .run (.play 3)]) := by decide
example : recover xEnv (frun xEnv xN0 [.run (.submit 24), .run (.confirm 2), .fault (.play 2) 0, .run (.play 2),
      .fault (.submit 22) 0, .run (.play 3)]) =
    (frun xEnv xN0 [.run (.submit 24), .run (.confirm 2), .fault (.play 2) 0, .run (.play 2), .fault (.submit 22) 0,
      .run (.play 3)], true) :=
  (quiescent_reopen_same_faults xEnv xN0 _ (by decide)).1
-- a history with refused operations and write errors; what is kept
example : keepG (fstep xEnv) (fdrop xEnv) xN0
      [.run (.submit 24), .run (.confirm 2), .fault (.play 2) 0, .run (.play 2), .fault (.submit 22) 0, .run (.play 3),
        .fault (.submit 24) 3, .run (.submit 22), .fault (.walk 3 false) 0, .run (.confirm 3), .fault (.walk 3 false) 2] =
    [.run (.confirm 2), .run (.play 2), .run (.submit 22), .run (.confirm 3), .fault (.walk 3 false) 2] := by decide

end XV.C05
