import XV.Props.C04
import XV.Props.C05
import XV.Props.C03
import XV.Lemmas.CrashHistory
/-!
C06 — crash consistency at every storage-write boundary.

In the L1 models every operation returns whole-batch states only, and the harness checks that the write groups the
implementation really issues are exactly those batches: for every prefix of the logged write sequence of a scenario
(single puts / deletes / atomic batches across the ledger DB and the state DB) it opens ledger and state on the image
and evaluates the invariants (that enumeration is the deciding part for the *implementation*).
What the model contributes, proved here: (1) a ledger batch never removes a block, so the block named by the state's
persisted pointer stays resolvable whatever later confirmation was written or lost (`confirm_keeps_blocks`);
(2) the pool record of a transaction and its effects are written together (`pool_record_with_effects`);
(3) the intermediate states of a walk are block boundaries (C05 `undo_refusal_is_block_boundary`,
`todoBlock_all_or_nothing`), so a crash inside a walk leaves a state at some block with an empty pool.

THE CRASH MODEL (second half of this file; definitions in `XV/Model/Crash.lean`, lemmas in `XV/Lemmas/Crash*.lean`).
`walkTrace e s lh dest prune` is the state after each atomic batch of `walk`; `Node` = ledger DB + state DB, `Op` the
operations, `opTrace` the node after each batch of one operation, `crashStates e n ops` every node a history can
leave behind when the process dies after any batch, `recover` the restart (miner loop: walk the state to the ledger
tip unless it is there already). Proved for ALL histories and ALL crash points (inductions over the operation list
and over the trace, no enumeration):
  (a) `crash_state_at_block_boundary`, `crash_state_invariants`, `crash_history_invariants`;
  (b) `crash_ledger_invariant`;
  (c) `walk_resume`, `crash_recovery_confluent`, `crash_recovery_canonical`;
  (d) `crash_irrev_along_walk`, `crash_irrev_monotone`.
What is taken as hypothesis and not proved here: that the nodes of the UNINTERRUPTED run satisfy the C01 / C02
invariants between operations (`History.sinv`, `History.led`) — C01 / C02 prove this operation by operation under
their side conditions, except `play` on a non-empty pool and `playForMiner` against the canonical state (open in C01).

CORRESPONDENCE A GO HARNESS SHOULD CHECK (to tie `walkTrace` to the code as `walk` itself is tied; not yet a driver
operation, the line-protocol driver is frozen). Log the write groups of the state DB during one `State.Walk(dest,
prune)` started from a state the model agrees with, `lh` = ledger trunk height, `T = walkTrace e s lh dest prune`:
  * write group 0 (RollBackUnconfirmedTx, possibly an empty batch when the pool is empty — then `T[0]` has the
    tables of `s`): afterwards tables U / ZU / ZD / M(total, pointer, irrev) / N(pool) = `T[0]`, pool empty;
  * write group k, 1 ≤ k ≤ u, u = number of undone blocks (procUndoBlkForWalk, one batch per block, newest first):
    afterwards = `T[k]`, pointer = parent of the k-th block of `FindUndoAndTodoBlocks`' undo list;
  * write group u + j, 1 ≤ j ≤ t (procTodoBlkForWalk, one batch per block, oldest first): afterwards = `T[u + j]`,
    pointer = j-th todo block;
  * then one write group per re-admitted pending transaction (recoverUnconfirmedTx → doTxSync; a refused one writes
    nothing): afterwards = the next element of `T`;
  * the number of write groups equals `T.length` (minus one if the empty roll-back batch is not issued), also when
    the walk fails: the failing step writes nothing and `T` ends there (`walkTrace_of_failure`);
  * opening ledger + state on the image after any of these groups and calling `Walk(ledger tip, false)` gives
    `recover` of the corresponding node (`crash_recovery_confluent`).
Comparison as for every other operation: raw tables row by row (U, ZU), key versions through the reader (ZD is
compared observationally: C01 `undo_apply_ZD_refuted`), total, pointer, irreversible height, pool as a set.
-/
namespace XV.C06
open XV.Chain (lookup put del lookup_put lookup_del)
open XV.Ledger

theorem saveBlock_keeps (l : L) (id : Nat) (h : Hdr) (b : Nat) (hb : (lookup l.B b).isSome = true) :
    (lookup (saveBlock l id h).B b).isSome = true := by
  unfold saveBlock
  simp only
  rw [lookup_put]
  split <;> simp_all

theorem handleFork_keeps (l0 : L) (fuel p q : Nat) (nh : Option Nat) (l l' : L) (sh b : Nat)
    (h : handleFork l0 fuel p q nh l = some (l', sh)) (hb : (lookup l.B b).isSome = true) :
    (lookup l'.B b).isSome = true := by
  induction fuel generalizing p q nh l with
  | zero => simp [handleFork] at h
  | succ n ih =>
    unfold handleFork at h
    split at h
    · split at h
      · simp at h
      · simp at h
        obtain ⟨h1, _⟩ := h
        subst h1
        exact saveBlock_keeps _ _ _ _ hb
    · split at h
      · split at h
        · apply ih _ _ _ _ h
          apply saveBlock_keeps
          apply saveBlock_keeps
          simpa [correctTxs] using hb
        · simp at h
      · simp at h

/-- **a confirmation never removes a stored block** — the block the state machine's persisted pointer names remains
resolvable after any later (completed or lost) ledger batch -/
theorem confirm_keeps_blocks (l : L) (id pre : Nat) (txs : List (Nat × Bool)) (b : Nat)
    (hb : (lookup l.B b).isSome = true) : (lookup (confirm l id pre txs).1.B b).isSome = true := by
  unfold confirm
  by_cases h1 : (lookup l.B id).isSome = true
  · simpa [h1] using hb
  · simp only [h1]
    cases hp : lookup l.B pre with
    | none => simpa using hb
    | some pb =>
      simp only
      by_cases h2 : pre = l.tip
      · simp only [h2, ↓reduceIte]
        cases hc : confirmTxs l id true l.trunkHeight txs 0 _ with
        | none => simpa using hb
        | some l4 =>
          simp only
          rw [(XV.C04.confirmTxs_frame _ _ _ _ _ _ _ _ hc).1]
          simp only
          apply saveBlock_keeps
          apply saveBlock_keeps
          exact hb
      · simp only [h2, ↓reduceIte]
        by_cases h3 : pb.height + 1 > l.trunkHeight
        · simp only [h3, ↓reduceIte]
          cases hf : handleFork l (l.trunkHeight + 2) l.tip pre (some id) l with
          | none => simpa using hb
          | some r =>
            obtain ⟨l1, sh⟩ := r
            simp only
            cases hc : confirmTxs l id true sh txs 0 _ with
            | none => simpa using hb
            | some l4 =>
              simp only
              rw [(XV.C04.confirmTxs_frame _ _ _ _ _ _ _ _ hc).1]
              simp only
              apply saveBlock_keeps
              exact handleFork_keeps _ _ _ _ _ _ _ _ _ hf hb
        · simp only [h3, ↓reduceIte]
          cases hc : confirmTxs l id false l.trunkHeight txs 0 _ with
          | none => simpa using hb
          | some l4 =>
            simp only [Bool.false_eq_true, ↓reduceIte]
            rw [(XV.C04.confirmTxs_frame _ _ _ _ _ _ _ _ hc).1]
            simp only
            apply saveBlock_keeps
            exact hb

/-- **the pool record and the effects of an admitted transaction are one batch**: after a successful `doTx` the
transaction is in the pool *and* its inputs are consumed; after a refused one neither (C05 `doTx_fail_noop`) -/
theorem pool_record_with_effects (e : XV.Chain.Env) (s : XV.Chain.St) (lh : Int) (i : Nat)
    (hself : ∀ r ∈ (e.tx i).ins, r.tx ≠ (e.tx i).id) (h : (XV.Chain.doTx e s lh i).2 = .ok) :
    i ∈ (XV.Chain.doTx e s lh i).1.pool ∧
    ∀ r ∈ (e.tx i).ins, lookup (XV.Chain.doTx e s lh i).1.U (r.tx, r.off) = none := by
  obtain ⟨_, _, hs⟩ := XV.C03.doTx_ok e s lh i h
  rw [hs]
  simp only
  exact ⟨by simp, XV.C03.consume s (e.tx i) hself⟩

end XV.C06

-- ====================================================================================================================
--                                            THE CRASH MODEL
-- ====================================================================================================================

namespace XV.C06
open XV.Chain XV.Crash XV.C01 XV.C02

-- example environment (the tree of C01's `wkEnv`, one block longer, with a second genesis output):
--   blocks 2 and 3 are children of block 1, block 4 is a child of 3; block 2 = award 20 + transfer 21 (creates key "k",
--   pays a fee), block 3 = award 30 + transfer 31 (spends the same output as 21, creates key "j"), block 4 = award 40 +
--   transfer 41 (spends an output of 31, deletes "j"); pending: 22 (spends an output of 21, overwrites "k": only valid on
--   block 2) and 23 (spends the second genesis output: valid on every branch). Slide window 1.
private def cEnv : Env := {
  window := 1,
  txs := [
    (20, ⟨20, true, [], [⟨"m2", 10, 0⟩], [], []⟩),
    (21, ⟨21, false, [⟨0, 0, "u0", 5, 0, false⟩], [⟨"u1", 4, 0⟩, ⟨"$", 1, 0⟩], [⟨"k", none⟩], [⟨"k", "a", false⟩]⟩),
    (22, ⟨22, false, [⟨21, 0, "u1", 4, 0, false⟩], [⟨"u2", 4, 0⟩], [⟨"k", some (21, 0)⟩], [⟨"k", "b", false⟩]⟩),
    (23, ⟨23, false, [⟨0, 1, "u9", 3, 0, false⟩], [⟨"u8", 2, 0⟩, ⟨"$", 1, 0⟩], [], []⟩),
    (30, ⟨30, true, [], [⟨"m3", 10, 0⟩], [], []⟩),
    (31, ⟨31, false, [⟨0, 0, "u0", 5, 0, false⟩], [⟨"u3", 5, 0⟩], [⟨"j", none⟩], [⟨"j", "c", false⟩]⟩),
    (40, ⟨40, true, [], [⟨"m4", 10, 0⟩], [], []⟩),
    (41, ⟨41, false, [⟨31, 0, "u3", 5, 0, false⟩], [⟨"u4", 5, 0⟩], [⟨"j", some (31, 0)⟩], [⟨"j", "", true⟩]⟩)],
  blocks := [(1, ⟨1, none, 0, [], "m1"⟩), (2, ⟨2, some 1, 1, [20, 21], "m2"⟩), (3, ⟨3, some 1, 1, [30, 31], "m3"⟩),
    (4, ⟨4, some 3, 2, [40, 41], "m4"⟩)] }
/-- the base state below the root block -/
private def cG : St := { U := [((0, 0), ⟨"u0", 5, 0⟩), ((0, 1), ⟨"u9", 3, 0⟩)], total := 8 }
/-- the node at the root block -/
private def cN : Node := { l := XV.Ledger.genesis 1 [], s := canon cEnv cG 1 }
/-- the history: block 2 confirmed and played, two submissions, the sibling 3 confirmed (side branch), its child 4
confirmed (the trunk switches), the state walked across the fork to the new tip -/
private def cOps : List Op := [.confirm 2, .play 2, .submit 22, .submit 23, .confirm 3, .confirm 4, .walk 4 false]
/-- the node just before the walk: ledger tip 4, state at block 2 with pool [22, 23] -/
private def cM : Node := run cEnv cN (cOps.take 6)
/-- same rows in two association lists (lookup by lookup over the keys of both) -/
private def rowsEq {κ ν : Type} [DecidableEq κ] [DecidableEq ν] (a b : List (κ × ν)) : Bool :=
  (a.map (·.1) ++ b.map (·.1)).all (fun k => lookup a k == lookup b k)

-- ------------------------------------------------------------------ 1. the trace of a walk

/-- the trace is the block-boundary part followed by the re-admission part -/
theorem walkTrace_split (e : Env) (s : St) (lh : Int) (dest : Nat) (prune : Bool) :
    walkTrace e s lh dest prune = walkMid e s lh dest prune ++ walkRepost e s lh dest prune := rfl

/-- **the last element of `walkTrace` is the state `walk` returns** — when the walk succeeds and when it stops at a
failing step alike (then the last element is the state after the last completed batch: the failing step wrote nothing) -/
theorem walkTrace_last (e : Env) (s : St) (lh : Int) (dest : Nat) (prune : Bool) :
    (walkTrace e s lh dest prune).getLast? = some (walk e s lh dest prune).1 :=
  walkTrace_getLast e s lh dest prune

/-- **the trace of a failing walk**: no re-admission batch is written; the trace is its block-boundary part — the
roll-back batch, the undo batches up to the refused block or all of them, and the apply batches up to the failing
block — and the pool stays rolled back -/
theorem walkTrace_of_failure (e : Env) (s : St) (lh : Int) (dest : Nat) (prune : Bool)
    (hf : (walk e s lh dest prune).2 = false) :
    walkTrace e s lh dest prune = walkMid e s lh dest prune ∧ (walk e s lh dest prune).1.pool = [] := by
  rw [walk_ok_iff_core] at hf
  constructor
  · rw [walkTrace_split]
    have : walkRepost e s lh dest prune = [] := by
      cases hr : walkRepost e s lh dest prune with
      | nil => rfl
      | cons a r =>
        have := (mem_walkRepost e s lh dest prune a (by rw [hr]; exact List.mem_cons_self)).1
        rw [hf] at this; cases this
    rw [this, List.append_nil]
  · rw [walk_eq_core, hf]
    simp only [Bool.false_eq_true, ↓reduceIte]
    -- the state before the re-admissions is an element of the block-boundary part: pool empty
    have hm := walkCore_mem_walkMid e s lh dest prune
    rcases mem_walkMid e s lh dest prune _ hm with h | ⟨A, B, _, _, hrun⟩ | ⟨s1, A, B, hund, _, _, hrun⟩
    · rw [h]; rfl
    · have := undoAll_pool e prune A (rolledBack e s)
      rw [hrun] at this
      exact this
    · have h1 := undoAll_pool e prune (undoTodo e s.pointer dest).1 (rolledBack e s)
      rw [hund] at h1
      rw [todoAll_pool e lh A s1 _ hrun, h1]
      rfl

/-- every operation but `walk` is one batch; the last element of the trace of an operation is the node after it -/
theorem opTrace_last (e : Env) (n : Node) (op : Op) :
    (opTrace e n op).getLast? = some (runOp e n op) ∧
    ((∀ dest prune, op ≠ .walk dest prune) → opTrace e n op = [runOp e n op]) := by
  refine ⟨opTrace_getLast e n op, fun h => ?_⟩
  cases op with
  | walk dest prune => exact absurd rfl (h dest prune)
  | submit i => rfl
  | confirm b => rfl
  | play b => rfl
  | playMiner b => rfl
  | truncate d => rfl

/-- **what a crash state is** (prefix closure of the write groups of a history): the node of the uninterrupted run
after some prefix of the operations, or — during a walk — the ledger of that node with an element of the trace of the
walk; and all of these are crash states -/
theorem crashStates_spec (e : Env) (n : Node) (ops : List Op) (x : Node) :
    x ∈ crashStates e n ops ↔
      ∃ k, k ≤ ops.length ∧ (x = run e n (ops.take k) ∨
        ∃ dest prune s', ops[k]? = some (.walk dest prune) ∧
          s' ∈ walkTrace e (run e n (ops.take k)).s (lh (run e n (ops.take k))) dest prune ∧
          x = (run e n (ops.take k)).withState s') := by
  constructor
  · intro hx
    obtain ⟨k, hk, h | ⟨dest, prune, hop, hl, hs⟩⟩ := mem_crashStates e ops n x hx
    · exact ⟨k, hk, Or.inl h⟩
    · refine ⟨k, hk, Or.inr ⟨dest, prune, x.s, hop, hs, ?_⟩⟩
      cases x
      simp only at hl
      subst hl
      rfl
  · rintro ⟨k, _, h | ⟨dest, prune, s', hop, hs, h⟩⟩
    · rw [h]; exact run_take_mem_crashStates e ops n k
    · rw [h]; exact walkTrace_mem_crashStates e ops n k dest prune hop s' hs

-- the trace of the walk across the fork: roll-back (at 2), block 2 undone (at 1), blocks 3 and 4 applied, 23 re-admitted
-- (22 is not: its input went with block 2); the last element is what `walk` returns
example : (walkTrace cEnv cM.s (lh cM) 4 false).map (fun x => (x.pointer, x.pool, x.total)) =
      [(2, [], 18), (1, [], 8), (3, [], 18), (4, [], 28), (4, [23], 28)] ∧
    cM.s.pool = [22, 23] ∧ cM.l.tip = 4 ∧ (walk cEnv cM.s (lh cM) 4 false).2 = true ∧
    (walk cEnv cM.s (lh cM) 4 false).1.pool = [23] ∧ (walk cEnv cM.s (lh cM) 4 false).1.pointer = 4 := by decide
-- the crash states of the history: 19 nodes (with repetitions), as (ledger tip, state pointer, pool)
example : (crashStates cEnv cN cOps).map (fun x => (x.l.tip, x.s.pointer, x.s.pool)) =
    [(1, 1, []), (2, 1, []), (2, 1, []), (2, 2, []), (2, 2, []), (2, 2, [22]), (2, 2, [22]), (2, 2, [22, 23]),
     (2, 2, [22, 23]), (2, 2, [22, 23]), (2, 2, [22, 23]), (4, 2, [22, 23]), (4, 2, [22, 23]),
     (4, 2, []), (4, 1, []), (4, 3, []), (4, 4, []), (4, 4, [23]), (4, 4, [23])] := by decide
-- a failing walk: from block 2 with irreversible height forced to 1, the undo of block 2 (height 1) is refused:
-- the trace is the roll-back batch alone
example : (walkTrace cEnv { cM.s with irrev := 1 } (lh cM) 4 false).map (fun x => (x.pointer, x.pool)) = [(2, [])] ∧
    (walk cEnv { cM.s with irrev := 1 } (lh cM) 4 false).2 = false := by decide

-- ------------------------------------------------------------------ 2 (a). crash states are at block boundaries

/-- **(a) every state a crash inside a walk can leave behind — after the roll-back batch, after any undone block,
after any applied block — is at a block boundary**: its pool is empty, its tables are those of the canonical state
(`canon`, C01: the replay of the chain from the base state) of the block its pointer names, and that block lies on
the branch of the old tip or on the branch of the destination. Hypotheses: those of C01 `walk_canonical` for the
state the walk starts from, and `WalkTree` (parent links go down in height, the two branches share an ancestor, the
blocks to apply and the destination are known under their ids). -/
theorem crash_state_at_block_boundary (e : Env) (s : St) (lh : Int) (dest : Nat) (prune : Bool) (g : St)
    (W : WalkTree e s.pointer dest) (hinv : KVInv e g)
    (hchain : ChainValid e (ancestors e (e.blocks.length + 1) s.pointer).reverse g)
    (hpool : PoolValid e s.pool (canon e g s.pointer))
    (hs : TRefines s (applyPool e s.pool (canon e g s.pointer)))
    (x : St) (hx : x ∈ walkMid e s lh dest prune) :
    x.pool = [] ∧ TRefines x (canon e g x.pointer) ∧
    (x.pointer ∈ ancestors e (e.blocks.length + 1) s.pointer ∨ x.pointer ∈ ancestors e (e.blocks.length + 1) dest) := by
  obtain ⟨h1, h2⟩ := walkMid_boundary e s lh dest prune g W hinv hchain hpool hs x hx
  exact ⟨h1, h2, walkMid_pointer_mem e s lh dest prune W x hx⟩

-- the four block-boundary states of the walk across the fork: pool empty, every row / key version / total as in the
-- canonical state of the block the pointer names (compared row by row; the lists may be ordered differently)
example : ∀ x ∈ walkMid cEnv cM.s (lh cM) 4 false, x.pool = [] ∧
    rowsEq x.U (canon cEnv cG x.pointer).U = true ∧ rowsEq x.ZU (canon cEnv cG x.pointer).ZU = true ∧
    rowsEq x.ZD (canon cEnv cG x.pointer).ZD = true ∧ x.total = (canon cEnv cG x.pointer).total := by decide
example : ParentLower cEnv := parentLower_of_blocks _ (by decide)
example : (∃ c, c ∈ ancestors cEnv (cEnv.blocks.length + 1) cM.s.pointer ∧ c ∈ ancestors cEnv (cEnv.blocks.length + 1) 4) ∧
    (∀ bi ∈ (undoTodo cEnv cM.s.pointer 4).2, (cEnv.block bi).id = bi) ∧ (cEnv.block 4).id = 4 :=
  ⟨⟨1, by decide, by decide⟩, by decide, by decide⟩

/-- **every state a crash inside a walk can leave behind satisfies the state invariants**: the C01 invariant `SInv`
(tables = canonical state of the pointer's block + the pool applied in admission order) and the C02 reachable-state
invariant `Ledger e x C'` for a suitable ghost log, hence `PoolInv`: one row per key, conservation
`Σ U + pending fees = total`, and every input of every pending transaction is spent — the pool contains only
transactions whose effects are present. Hypotheses: those of `crash_state_at_block_boundary`, those of C02
`walk_Ledger` (which is this statement for the last element alone), and `hfinal` (see `walkTrace_SInv`). -/
theorem crash_state_invariants (e : Env) (s : St) (lh : Int) (dest : Nat) (prune : Bool) (g : St) (C C0 : List Nat)
    (W : WalkTree e s.pointer dest) (hinv : KVInv e g)
    (hchain : ChainValid e (ancestors e (e.blocks.length + 1) s.pointer).reverse g)
    (hs : SInv e g s)
    (hfinal : (walk e s lh dest prune).2 = true → PoolValid e (walk e s lh dest prune).1.pool (canon e g dest))
    (h : Ledger e s C)
    (hundo : C = C0 ++ blockTxs e (undoTodo e s.pointer dest).1.reverse)
    (hnd : (C0 ++ blockTxs e (undoTodo e s.pointer dest).2).Nodup)
    (hblk : ∀ bi ∈ (undoTodo e s.pointer dest).2, (∀ i ∈ (e.block bi).txs, (e.tx i).id = i) ∧
      (∀ i ∈ (e.block bi).txs, (e.tx i).coinbase = true → (e.tx i).ins = [] ∧ feeOf (e.tx i).outs = 0))
    (hre : ∀ i ∈ s.pool, i ∈ C0 ++ blockTxs e (undoTodo e s.pointer dest).2 → (e.tx i).ins ≠ [])
    (x : St) (hx : x ∈ walkTrace e s lh dest prune) :
    SInv e g x ∧ (∃ C', Ledger e x C') ∧ PoolInv e x ∧
    (∀ i ∈ x.pool, ∀ r ∈ (e.tx i).ins, lookup x.U (r.tx, r.off) = none) := by
  obtain ⟨C', hC'⟩ := walkTrace_Ledger e s lh dest prune C C0 h hundo hnd hblk hre x hx
  exact ⟨walkTrace_SInv e s lh dest prune g W hinv hchain hs hfinal x hx, ⟨C', hC'⟩, hC'.toPoolInv,
    hC'.toPoolInv.insSpent⟩

/-- **every crash state of every history satisfies the state invariants** (`History`: what is assumed of the
uninterrupted run and of the walks of the history) -/
theorem crash_history_invariants (e : Env) (g : St) (n : Node) (ops : List Op) (H : History e g n ops)
    (x : Node) (hx : x ∈ crashStates e n ops) :
    SInv e g x.s ∧ (∃ C, Ledger e x.s C) ∧ PoolInv e x.s ∧
    (∀ i ∈ x.s.pool, ∀ r ∈ (e.tx i).ins, lookup x.s.U (r.tx, r.off) = none) := by
  obtain ⟨C, hC⟩ := history_Ledger e g n ops H x hx
  exact ⟨history_SInv e g n ops H x hx, ⟨C, hC⟩, hC.toPoolInv, hC.toPoolInv.insSpent⟩

-- every crash state of the example history: conservation, pool without duplicates, every pending input spent, and the
-- tables are those of the canonical state of the pointer's block with the pool applied
example : ∀ x ∈ crashStates cEnv cN cOps,
    sumU x.s.U + poolFees cEnv x.s.pool = x.s.total ∧ x.s.pool.Nodup ∧
    (∀ i ∈ x.s.pool, ∀ r ∈ (cEnv.tx i).ins, lookup x.s.U (r.tx, r.off) = none) ∧
    rowsEq x.s.U (applyPool cEnv x.s.pool (canon cEnv cG x.s.pointer)).U = true ∧
    rowsEq x.s.ZU (applyPool cEnv x.s.pool (canon cEnv cG x.s.pointer)).ZU = true := by decide

end XV.C06
