import XV.Props.C04
import XV.Props.C05
import XV.Props.C03
/-!
C06 — crash consistency at every storage-write boundary.

In the L1 models every operation returns whole-batch states only, and the harness checks that the write groups the
implementation really issues are exactly those batches: for every prefix of the logged write sequence of a scenario
(single puts / deletes / atomic batches across the ledger DB and the state DB) it opens ledger and state on the image
and evaluates the invariants (that enumeration is the deciding part for the *implementation*).
What the model contributes, proved here: (1) a ledger batch never removes a block, so the block named by the state's
persisted pointer stays resolvable whatever later confirmation was written or lost (`confirm_keeps_blocks`);
(2) the pool record of a transaction and its effects are written together (`pool_record_with_effects`);
(3) the intermediate states of a walk are block boundaries (C05 `undo_refusal_is_block_boundary`,
`todoBlock_all_or_nothing`), so a crash inside a walk leaves a state at some block with an empty pool.
-/
namespace XV.C06
open XV.Chain (lookup put del lookup_put lookup_del)
open XV.Ledger

theorem saveBlock_keeps (l : L) (id : Nat) (h : Hdr) (b : Nat) (hb : (lookup l.B b).isSome = true) :
    (lookup (saveBlock l id h).B b).isSome = true := by
  unfold saveBlock
  simp only
  rw [lookup_put]
  split <;> simp_all

theorem handleFork_keeps (l0 : L) (fuel p q : Nat) (nh : Option Nat) (l l' : L) (sh b : Nat)
    (h : handleFork l0 fuel p q nh l = some (l', sh)) (hb : (lookup l.B b).isSome = true) :
    (lookup l'.B b).isSome = true := by
  induction fuel generalizing p q nh l with
  | zero => simp [handleFork] at h
  | succ n ih =>
    unfold handleFork at h
    split at h
    · split at h
      · simp at h
      · simp at h
        obtain ⟨h1, _⟩ := h
        subst h1
        exact saveBlock_keeps _ _ _ _ hb
    · split at h
      · split at h
        · apply ih _ _ _ _ h
          apply saveBlock_keeps
          apply saveBlock_keeps
          simpa [correctTxs] using hb
        · simp at h
      · simp at h

/-- **a confirmation never removes a stored block** — the block the state machine's persisted pointer names remains
resolvable after any later (completed or lost) ledger batch -/
theorem confirm_keeps_blocks (l : L) (id pre : Nat) (txs : List (Nat × Bool)) (b : Nat)
    (hb : (lookup l.B b).isSome = true) : (lookup (confirm l id pre txs).1.B b).isSome = true := by
  unfold confirm
  by_cases h1 : (lookup l.B id).isSome = true
  · simpa [h1] using hb
  · simp only [h1]
    cases hp : lookup l.B pre with
    | none => simpa using hb
    | some pb =>
      simp only
      by_cases h2 : pre = l.tip
      · simp only [h2, ↓reduceIte]
        cases hc : confirmTxs l id true l.trunkHeight txs 0 _ with
        | none => simpa using hb
        | some l4 =>
          simp only
          rw [(XV.C04.confirmTxs_frame _ _ _ _ _ _ _ _ hc).1]
          simp only
          apply saveBlock_keeps
          apply saveBlock_keeps
          exact hb
      · simp only [h2, ↓reduceIte]
        by_cases h3 : pb.height + 1 > l.trunkHeight
        · simp only [h3, ↓reduceIte]
          cases hf : handleFork l (l.trunkHeight + 2) l.tip pre (some id) l with
          | none => simpa using hb
          | some r =>
            obtain ⟨l1, sh⟩ := r
            simp only
            cases hc : confirmTxs l id true sh txs 0 _ with
            | none => simpa using hb
            | some l4 =>
              simp only
              rw [(XV.C04.confirmTxs_frame _ _ _ _ _ _ _ _ hc).1]
              simp only
              apply saveBlock_keeps
              exact handleFork_keeps _ _ _ _ _ _ _ _ _ hf hb
        · simp only [h3, ↓reduceIte]
          cases hc : confirmTxs l id false l.trunkHeight txs 0 _ with
          | none => simpa using hb
          | some l4 =>
            simp only [Bool.false_eq_true, ↓reduceIte]
            rw [(XV.C04.confirmTxs_frame _ _ _ _ _ _ _ _ hc).1]
            simp only
            apply saveBlock_keeps
            exact hb

/-- **the pool record and the effects of an admitted transaction are one batch**: after a successful `doTx` the
transaction is in the pool *and* its inputs are consumed; after a refused one neither (C05 `doTx_fail_noop`) -/
theorem pool_record_with_effects (e : XV.Chain.Env) (s : XV.Chain.St) (lh : Int) (i : Nat)
    (hself : ∀ r ∈ (e.tx i).ins, r.tx ≠ (e.tx i).id) (h : (XV.Chain.doTx e s lh i).2 = .ok) :
    i ∈ (XV.Chain.doTx e s lh i).1.pool ∧
    ∀ r ∈ (e.tx i).ins, lookup (XV.Chain.doTx e s lh i).1.U (r.tx, r.off) = none := by
  obtain ⟨_, _, hs⟩ := XV.C03.doTx_ok e s lh i h
  rw [hs]
  simp only
  exact ⟨by simp, XV.C03.consume s (e.tx i) hself⟩

end XV.C06
