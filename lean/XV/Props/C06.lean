import XV.Props.C04
import XV.Props.C05
import XV.Props.C03
import XV.Lemmas.CrashCheck
import XV.Lemmas.CrashSteps
import XV.Lemmas.CrashRestart
import XV.Lemmas.SkipLedger
/-!
C06 — crash consistency at every storage-write boundary.

In the L1 models every operation returns whole-batch states only, and the harness checks that the write groups the
implementation really issues are exactly those batches: for every prefix of the logged write sequence of a scenario
(single puts / deletes / atomic batches across the ledger DB and the state DB) it opens ledger and state on the image
and evaluates the invariants (that enumeration is the deciding part for the *implementation*).
What the model contributes, proved here: (1) a ledger batch never removes a block, so the block named by the state's
persisted pointer stays resolvable whatever later confirmation was written or lost (`confirm_keeps_blocks`);
(2) the pool record of a transaction and its effects are written together (`pool_record_with_effects`);
(3) the intermediate states of a walk are block boundaries (C05 `undo_refusal_is_block_boundary`,
`todoBlock_all_or_nothing`), so a crash inside a walk leaves a state at some block with an empty pool.

THE CRASH MODEL (second half of this file; definitions in `XV/Model/Crash.lean`, lemmas in `XV/Lemmas/Crash*.lean`).
`walkTrace e s lh dest prune` is the state after each atomic batch of `walk`; `Node` = ledger DB + state DB, `Op` the
operations, `opTrace` the node after each batch of one operation, `crashStates e n ops` every node a history can
leave behind when the process dies after any batch, `recover` the restart (miner loop: walk the state to the ledger
tip unless it is there already). Proved for ALL histories and ALL crash points (inductions over the operation list
and over the trace, no enumeration):
  (a) `crash_state_at_block_boundary`, `crash_state_invariants`, `crash_history_invariants`,
      `crash_history_canonical`;
  (b) `crash_ledger_invariant`;
  (c) `crash_walk_resume`, `crash_during_restart`, `crash_recovery_confluent`, `crash_recovery_canonical`,
      `crash_recovery_same_tables`; refuted: `crash_recovery_same_state_statement` (the pool is NOT recovered);
  (d) `crash_irrev_along_walk`, `crash_irrev_monotone`;
  (e) the skip list of a walk (repaired `recoverUnconfirmedTx`): `node_walk_skip_complete` — the list a node's ledger
      supplies (`ledgerSkip`, the filter of the driver's `walkEnv`) names every pending transaction the chain walked to
      confirms, by the ledger invariant of C04 —, `node_walk_keeps_invariants`. The walk theorems take the hypothesis
      `SkipsConfirmed` where they took "a pending transaction that the new branch confirms has a token input" (`hre`).
      In `runOp` / `opTrace` / `crashStates` the environment of a history is fixed, so its skip list is the same for every
      walk of the history; `SkipsConfirmed` only asks completeness, which a list that names too much also meets (naming
      a transaction that is not confirmed on the chain walked to merely drops it from the pool). Supplying the list per
      walk from the node's ledger (as C01 `chain_refines` does with `HOp.walk … skip`) is open for the crash model.
What is taken as hypothesis: the crash theorems reduce "every crash state is good" to "the nodes of the UNINTERRUPTED
run between two operations are good" plus side conditions of the walks. For the C01 half (`SInv`) the uninterrupted
run is handled here too, from per-operation side conditions (`SStep`, `crash_history_canonical`); the one place
where the step condition is the conclusion itself is `play` on a non-empty pool and `playForMiner` (that they keep
the node on the canonical state is open in C01). For the C02 half (`Ledger`, ghost logs) `History.led` asks the
invariant of the uninterrupted run as a hypothesis: C02 proves it operation by operation, threading the ghost log
through arbitrary histories (`hundo` of `walk_Ledger`) is open there. Section 3 shows on a fork history that all
hypotheses can be met.

CORRESPONDENCE A GO HARNESS SHOULD CHECK (to tie `walkTrace` to the code as `walk` itself is tied; not yet a driver
operation, the line-protocol driver is frozen). Log the write groups of the state DB during one `State.Walk(dest,
prune)` started from a state the model agrees with, `lh` = ledger trunk height, `T = walkTrace e s lh dest prune`:
  * write group 0 (RollBackUnconfirmedTx: its `batch.Write()` is unconditional, an empty batch when the pool is
    empty — then `T[0]` has the tables of `s`): afterwards tables U / ZU / ZD / M(total, pointer, irrev) / N(pool) = `T[0]`, pool empty;
  * write group k, 1 ≤ k ≤ u, u = number of undone blocks (procUndoBlkForWalk, one batch per block, newest first):
    afterwards = `T[k]`, pointer = parent of the k-th block of `FindUndoAndTodoBlocks`' undo list;
  * write group u + j, 1 ≤ j ≤ t (procTodoBlkForWalk, one batch per block, oldest first): afterwards = `T[u + j]`,
    pointer = j-th todo block;
  * then one write group per re-admitted pending transaction (recoverUnconfirmedTx → doTxSync; a refused one writes
    nothing): afterwards = the next element of `T`;
  * the number of write groups equals `T.length` (minus one if the empty roll-back batch is not issued), also when
    the walk fails: the failing step writes nothing and `T` ends there (`walkTrace_of_failure`);
  * opening ledger + state on the image after any of these groups and calling `Walk(ledger tip, false)` gives
    `recover` of the corresponding node (`crash_recovery_confluent`).
Comparison as for every other operation: raw tables row by row (U, ZU), key versions through the reader (ZD is
compared observationally: C01 `undo_apply_ZD_refuted`), total, pointer, irreversible height, pool as a set.
-/
namespace XV.C06
open XV.Chain (lookup put del lookup_put lookup_del)
open XV.Ledger

theorem saveBlock_keeps (l : L) (id : Nat) (h : Hdr) (b : Nat) (hb : (lookup l.B b).isSome = true) :
    (lookup (saveBlock l id h).B b).isSome = true := by
  unfold saveBlock
  simp only
  rw [lookup_put]
  split <;> simp_all

theorem handleFork_keeps (l0 : L) (fuel p q : Nat) (nh : Option Nat) (l l' : L) (sh b : Nat)
    (h : handleFork l0 fuel p q nh l = some (l', sh)) (hb : (lookup l.B b).isSome = true) :
    (lookup l'.B b).isSome = true := by
  induction fuel generalizing p q nh l with
  | zero => simp [handleFork] at h
  | succ n ih =>
    unfold handleFork at h
    split at h
    · split at h
      · simp at h
      · simp at h
        obtain ⟨h1, _⟩ := h
        subst h1
        exact saveBlock_keeps _ _ _ _ hb
    · split at h
      · split at h
        · apply ih _ _ _ _ h
          apply saveBlock_keeps
          apply saveBlock_keeps
          simpa [correctTxs] using hb
        · simp at h
      · simp at h

/-- **a confirmation never removes a stored block** — the block the state machine's persisted pointer names remains
resolvable after any later (completed or lost) ledger batch -/
theorem confirm_keeps_blocks (l : L) (id pre : Nat) (txs : List (Nat × Bool)) (b : Nat)
    (hb : (lookup l.B b).isSome = true) : (lookup (confirm l id pre txs).1.B b).isSome = true := by
  unfold confirm
  by_cases h1 : (lookup l.B id).isSome = true
  · simpa [h1] using hb
  · simp only [h1]
    cases hp : lookup l.B pre with
    | none => simpa using hb
    | some pb =>
      simp only
      by_cases h2 : pre = l.tip
      · simp only [h2, ↓reduceIte]
        cases hc : confirmTxs l id true l.trunkHeight txs 0 _ with
        | none => simpa using hb
        | some l4 =>
          simp only
          rw [(XV.C04.confirmTxs_frame _ _ _ _ _ _ _ _ hc).1]
          simp only
          apply saveBlock_keeps
          apply saveBlock_keeps
          exact hb
      · simp only [h2, ↓reduceIte]
        by_cases h3 : pb.height + 1 > l.trunkHeight
        · simp only [h3, ↓reduceIte]
          cases hf : handleFork l (l.trunkHeight + 2) l.tip pre (some id) l with
          | none => simpa using hb
          | some r =>
            obtain ⟨l1, sh⟩ := r
            simp only
            cases hc : confirmTxs l id true sh txs 0 _ with
            | none => simpa using hb
            | some l4 =>
              simp only
              rw [(XV.C04.confirmTxs_frame _ _ _ _ _ _ _ _ hc).1]
              simp only
              apply saveBlock_keeps
              exact handleFork_keeps _ _ _ _ _ _ _ _ _ hf hb
        · simp only [h3, ↓reduceIte]
          cases hc : confirmTxs l id false l.trunkHeight txs 0 _ with
          | none => simpa using hb
          | some l4 =>
            simp only [Bool.false_eq_true, ↓reduceIte]
            rw [(XV.C04.confirmTxs_frame _ _ _ _ _ _ _ _ hc).1]
            simp only
            apply saveBlock_keeps
            exact hb

/-- **the pool record and the effects of an admitted transaction are one batch**: after a successful `doTx` the
transaction is in the pool *and* its inputs are consumed; after a refused one neither (C05 `doTx_fail_noop`) -/
theorem pool_record_with_effects (e : XV.Chain.Env) (s : XV.Chain.St) (lh : Int) (i : Nat)
    (hself : ∀ r ∈ (e.tx i).ins, r.tx ≠ (e.tx i).id) (h : (XV.Chain.doTx e s lh i).2 = .ok) :
    i ∈ (XV.Chain.doTx e s lh i).1.pool ∧
    ∀ r ∈ (e.tx i).ins, lookup (XV.Chain.doTx e s lh i).1.U (r.tx, r.off) = none := by
  obtain ⟨_, _, hs⟩ := XV.C03.doTx_ok e s lh i h
  rw [hs]
  simp only
  exact ⟨by simp, XV.C03.consume s (e.tx i) hself⟩

end XV.C06

-- ====================================================================================================================
--                                            THE CRASH MODEL
-- ====================================================================================================================

namespace XV.C06
open XV.Chain XV.Crash XV.C01 XV.C02

-- example environment (the tree of C01's `wkEnv`, one block longer, with a genesis transaction that has two outputs):
--   block 1 = the root with the genesis transaction 0; blocks 2 and 3 are children of block 1, block 4 is a child of 3;
--   block 2 = award 20 + transfer 21 (creates key "k", pays a fee), block 3 = award 30 + transfer 31 (spends the same
--   output as 21, creates key "j"), block 4 = award 40 + transfer 41 (spends an output of 31, deletes "j"); pending: 22
--   (spends an output of 21, overwrites "k": only valid on block 2) and 23 (spends the second genesis output: valid on
--   every branch). Slide window 1. The base state below the root is empty.
private def cEnv : Env := {
  window := 1,
  txs := [
    (0, ⟨0, true, [], [⟨"u0", 5, 0⟩, ⟨"u9", 3, 0⟩], [], []⟩),
    (20, ⟨20, true, [], [⟨"m2", 10, 0⟩], [], []⟩),
    (21, ⟨21, false, [⟨0, 0, "u0", 5, 0, false⟩], [⟨"u1", 4, 0⟩, ⟨"$", 1, 0⟩], [⟨"k", none⟩], [⟨"k", "a", false⟩]⟩),
    (22, ⟨22, false, [⟨21, 0, "u1", 4, 0, false⟩], [⟨"u2", 4, 0⟩], [⟨"k", some (21, 0)⟩], [⟨"k", "b", false⟩]⟩),
    (23, ⟨23, false, [⟨0, 1, "u9", 3, 0, false⟩], [⟨"u8", 2, 0⟩, ⟨"$", 1, 0⟩], [], []⟩),
    (30, ⟨30, true, [], [⟨"m3", 10, 0⟩], [], []⟩),
    (31, ⟨31, false, [⟨0, 0, "u0", 5, 0, false⟩], [⟨"u3", 5, 0⟩], [⟨"j", none⟩], [⟨"j", "c", false⟩]⟩),
    (40, ⟨40, true, [], [⟨"m4", 10, 0⟩], [], []⟩),
    (41, ⟨41, false, [⟨31, 0, "u3", 5, 0, false⟩], [⟨"u4", 5, 0⟩], [⟨"j", some (31, 0)⟩], [⟨"j", "", true⟩]⟩)],
  blocks := [(1, ⟨1, none, 0, [0], "m1"⟩), (2, ⟨2, some 1, 1, [20, 21], "m2"⟩), (3, ⟨3, some 1, 1, [30, 31], "m3"⟩),
    (4, ⟨4, some 3, 2, [40, 41], "m4"⟩)] }
/-- the (empty) base state below the root block -/
private def cG : St := {}
/-- the node at the root block: ledger with the genesis block, state = canonical state of block 1 -/
private def cN : Node := { l := XV.Ledger.genesis 1 [0], s := canon cEnv cG 1 }
/-- the history: block 2 confirmed and played, two submissions, the sibling 3 confirmed (side branch), its child 4
confirmed (the trunk switches), the state walked across the fork to the new tip -/
private def cOps : List Op := [.confirm 2, .play 2, .submit 22, .submit 23, .confirm 3, .confirm 4, .walk 4 false]
/-- the node of the uninterrupted run after `k` operations -/
private def cNd (k : Nat) : Node := run cEnv cN (cOps.take k)
/-- the node just before the walk: ledger tip 4, state at block 2 with pool [22, 23] -/
private def cM : Node := cNd 6

-- ------------------------------------------------------------------ 1. the trace of a walk

/-- the trace is the block-boundary part followed by the re-admission part -/
theorem walkTrace_split (e : Env) (s : St) (lh : Int) (dest : Nat) (prune : Bool) :
    walkTrace e s lh dest prune = walkMid e s lh dest prune ++ walkRepost e s lh dest prune := rfl

/-- **the last element of `walkTrace` is the state `walk` returns** — when the walk succeeds and when it stops at a
failing step alike (then the last element is the state after the last completed batch: the failing step wrote nothing) -/
theorem walkTrace_last (e : Env) (s : St) (lh : Int) (dest : Nat) (prune : Bool) :
    (walkTrace e s lh dest prune).getLast? = some (walk e s lh dest prune).1 :=
  walkTrace_getLast e s lh dest prune

/-- **the trace of a failing walk**: no re-admission batch is written; the trace is its block-boundary part — the
roll-back batch, the undo batches up to the refused block or all of them, and the apply batches up to the failing
block — and the pool stays rolled back -/
theorem walkTrace_of_failure (e : Env) (s : St) (lh : Int) (dest : Nat) (prune : Bool)
    (hf : (walk e s lh dest prune).2 = false) :
    walkTrace e s lh dest prune = walkMid e s lh dest prune ∧ (walk e s lh dest prune).1.pool = [] := by
  rw [walk_ok_iff_core] at hf
  constructor
  · rw [walkTrace_split]
    have : walkRepost e s lh dest prune = [] := by
      cases hr : walkRepost e s lh dest prune with
      | nil => rfl
      | cons a r =>
        have := (mem_walkRepost e s lh dest prune a (by rw [hr]; exact List.mem_cons_self)).1
        rw [hf] at this; cases this
    rw [this, List.append_nil]
  · rw [walk_eq_core, hf]
    simp only [Bool.false_eq_true, ↓reduceIte]
    -- the state before the re-admissions is an element of the block-boundary part: pool empty
    have hm := walkCore_mem_walkMid e s lh dest prune
    rcases mem_walkMid e s lh dest prune _ hm with h | ⟨A, B, _, _, hrun⟩ | ⟨s1, A, B, hund, _, _, hrun⟩
    · rw [h]; rfl
    · have := undoAll_pool e prune A (rolledBack e s)
      rw [hrun] at this
      exact this
    · have h1 := undoAll_pool e prune (undoTodo e s.pointer dest).1 (rolledBack e s)
      rw [hund] at h1
      rw [todoAll_pool e lh A s1 _ hrun, h1]
      rfl

/-- every operation but `walk` is one batch; the last element of the trace of an operation is the node after it -/
theorem opTrace_last (e : Env) (n : Node) (op : Op) :
    (opTrace e n op).getLast? = some (runOp e n op) ∧
    ((∀ dest prune, op ≠ .walk dest prune) → opTrace e n op = [runOp e n op]) := by
  refine ⟨opTrace_getLast e n op, fun h => ?_⟩
  cases op with
  | walk dest prune => exact absurd rfl (h dest prune)
  | submit i => rfl
  | confirm b => rfl
  | play b => rfl
  | playMiner b => rfl
  | truncate d => rfl

/-- **what a crash state is** (prefix closure of the write groups of a history): the node of the uninterrupted run
after some prefix of the operations, or — during a walk — the ledger of that node with an element of the trace of the
walk; and all of these are crash states -/
theorem crashStates_spec (e : Env) (n : Node) (ops : List Op) (x : Node) :
    x ∈ crashStates e n ops ↔
      ∃ k, k ≤ ops.length ∧ (x = run e n (ops.take k) ∨
        ∃ dest prune s', ops[k]? = some (.walk dest prune) ∧
          s' ∈ walkTrace e (run e n (ops.take k)).s (lh (run e n (ops.take k))) dest prune ∧
          x = (run e n (ops.take k)).withState s') := by
  constructor
  · intro hx
    obtain ⟨k, hk, h | ⟨dest, prune, hop, hl, hs⟩⟩ := mem_crashStates e ops n x hx
    · exact ⟨k, hk, Or.inl h⟩
    · refine ⟨k, hk, Or.inr ⟨dest, prune, x.s, hop, hs, ?_⟩⟩
      cases x
      simp only at hl
      subst hl
      rfl
  · rintro ⟨k, _, h | ⟨dest, prune, s', hop, hs, h⟩⟩
    · rw [h]; exact run_take_mem_crashStates e ops n k
    · rw [h]; exact walkTrace_mem_crashStates e ops n k dest prune hop s' hs

-- the trace of the walk across the fork: roll-back (at 2), block 2 undone (at 1), blocks 3 and 4 applied, 23 re-admitted
-- (22 is not: its input went with block 2); the last element is what `walk` returns
example : (walkTrace cEnv cM.s (lh cM) 4 false).map (fun x => (x.pointer, x.pool, x.total)) =
      [(2, [], 18), (1, [], 8), (3, [], 18), (4, [], 28), (4, [23], 28)] ∧
    cM.s.pool = [22, 23] ∧ cM.l.tip = 4 ∧ (walk cEnv cM.s (lh cM) 4 false).2 = true ∧
    (walk cEnv cM.s (lh cM) 4 false).1.pool = [23] ∧ (walk cEnv cM.s (lh cM) 4 false).1.pointer = 4 := by decide
-- the crash states of the history: 19 nodes (with repetitions), as (ledger tip, state pointer, pool)
example : (crashStates cEnv cN cOps).map (fun x => (x.l.tip, x.s.pointer, x.s.pool)) =
    [(1, 1, []), (2, 1, []), (2, 1, []), (2, 2, []), (2, 2, []), (2, 2, [22]), (2, 2, [22]), (2, 2, [22, 23]),
     (2, 2, [22, 23]), (2, 2, [22, 23]), (2, 2, [22, 23]), (4, 2, [22, 23]), (4, 2, [22, 23]),
     (4, 2, []), (4, 1, []), (4, 3, []), (4, 4, []), (4, 4, [23]), (4, 4, [23])] := by decide
-- a failing walk: from block 2 with irreversible height forced to 1, the undo of block 2 (height 1) is refused:
-- the trace is the roll-back batch alone
example : (walkTrace cEnv { cM.s with irrev := 1 } (lh cM) 4 false).map (fun x => (x.pointer, x.pool)) = [(2, [])] ∧
    (walk cEnv { cM.s with irrev := 1 } (lh cM) 4 false).2 = false := by decide

-- ------------------------------------------------------------------ 2 (a). crash states are at block boundaries

/-- **(a) every state a crash inside a walk can leave behind — after the roll-back batch, after any undone block,
after any applied block — is at a block boundary**: its pool is empty, its tables are those of the canonical state
(`canon`, C01: the replay of the chain from the base state) of the block its pointer names, and that block lies on
the branch of the old tip or on the branch of the destination. Hypotheses: those of C01 `walk_canonical` for the
state the walk starts from, and `WalkTree` (parent links go down in height, the two branches share an ancestor, the
blocks to apply and the destination are known under their ids). -/
theorem crash_state_at_block_boundary (e : Env) (s : St) (lh : Int) (dest : Nat) (prune : Bool) (g : St)
    (W : WalkTree e s.pointer dest) (hinv : KVInv e g)
    (hchain : ChainValid e (ancestors e (e.blocks.length + 1) s.pointer).reverse g)
    (hpool : PoolValid e s.pool (canon e g s.pointer))
    (hs : TRefines s (applyPool e s.pool (canon e g s.pointer)))
    (x : St) (hx : x ∈ walkMid e s lh dest prune) :
    x.pool = [] ∧ TRefines x (canon e g x.pointer) ∧
    (x.pointer ∈ ancestors e (e.blocks.length + 1) s.pointer ∨ x.pointer ∈ ancestors e (e.blocks.length + 1) dest) := by
  obtain ⟨h1, h2⟩ := walkMid_boundary e s lh dest prune g W hinv hchain hpool hs x hx
  exact ⟨h1, h2, walkMid_pointer_mem e s lh dest prune W x hx⟩

-- the four block-boundary states of the walk across the fork: pool empty, every row / key version / total as in the
-- canonical state of the block the pointer names (compared row by row; the lists may be ordered differently)
example : ∀ x ∈ walkMid cEnv cM.s (lh cM) 4 false, x.pool = [] ∧
    rowsEq x.U (canon cEnv cG x.pointer).U = true ∧ rowsEq x.ZU (canon cEnv cG x.pointer).ZU = true ∧
    rowsEq x.ZD (canon cEnv cG x.pointer).ZD = true ∧ x.total = (canon cEnv cG x.pointer).total := by decide
example : ParentLower cEnv := parentLower_of_blocks _ (by decide)
example : (∃ c, c ∈ ancestors cEnv (cEnv.blocks.length + 1) cM.s.pointer ∧ c ∈ ancestors cEnv (cEnv.blocks.length + 1) 4) ∧
    (∀ bi ∈ (undoTodo cEnv cM.s.pointer 4).2, (cEnv.block bi).id = bi) ∧ (cEnv.block 4).id = 4 :=
  ⟨⟨1, by decide, by decide⟩, by decide, by decide⟩

/-- **every state a crash inside a walk can leave behind satisfies the state invariants**: the C01 invariant `SInv`
(tables = canonical state of the pointer's block + the pool applied in admission order) and the C02 reachable-state
invariant `Ledger e x C'` for a suitable ghost log, hence `PoolInv`: one row per key, conservation
`Σ U + pending fees = total`, and every input of every pending transaction is spent — the pool contains only
transactions whose effects are present. Hypotheses: those of `crash_state_at_block_boundary`, those of C02
`walk_Ledger` (which is this statement for the last element alone; after the repair of `recoverUnconfirmedTx`: `hskip`, the
ledger's skip list names every pending transaction the chain walked to confirms, instead of the former dynamic hypothesis
`hre`), and `hfinal` (see `walkTrace_SInv`). -/
theorem crash_state_invariants (e : Env) (s : St) (lh : Int) (dest : Nat) (prune : Bool) (g : St) (C C0 : List Nat)
    (W : WalkTree e s.pointer dest) (hinv : KVInv e g)
    (hchain : ChainValid e (ancestors e (e.blocks.length + 1) s.pointer).reverse g)
    (hs : SInv e g s)
    (hfinal : (walk e s lh dest prune).2 = true → PoolValid e (walk e s lh dest prune).1.pool (canon e g dest))
    (h : Ledger e s C)
    (hundo : C = C0 ++ blockTxs e (undoTodo e s.pointer dest).1.reverse)
    (hnd : (C0 ++ blockTxs e (undoTodo e s.pointer dest).2).Nodup)
    (hblk : ∀ bi ∈ (undoTodo e s.pointer dest).2, (∀ i ∈ (e.block bi).txs, (e.tx i).id = i) ∧
      (∀ i ∈ (e.block bi).txs, (e.tx i).coinbase = true → (e.tx i).ins = [] ∧ feeOf (e.tx i).outs = 0))
    (hskip : SkipsConfirmed e s (C0 ++ blockTxs e (undoTodo e s.pointer dest).2))
    (x : St) (hx : x ∈ walkTrace e s lh dest prune) :
    SInv e g x ∧ (∃ C', Ledger e x C') ∧ PoolInv e x ∧
    (∀ i ∈ x.pool, ∀ r ∈ (e.tx i).ins, lookup x.U (r.tx, r.off) = none) := by
  obtain ⟨C', hC'⟩ := walkTrace_Ledger e s lh dest prune C C0 h hundo hnd hblk hskip x hx
  exact ⟨walkTrace_SInv e s lh dest prune g W hinv hchain hs hfinal x hx, ⟨C', hC'⟩, hC'.toPoolInv,
    hC'.toPoolInv.insSpent⟩

/-- **every crash state of every history satisfies the state invariants** (`History`: what is assumed of the
uninterrupted run and of the walks of the history) -/
theorem crash_history_invariants (e : Env) (g : St) (n : Node) (ops : List Op) (H : History e g n ops)
    (x : Node) (hx : x ∈ crashStates e n ops) :
    SInv e g x.s ∧ (∃ C, Ledger e x.s C) ∧ PoolInv e x.s ∧
    (∀ i ∈ x.s.pool, ∀ r ∈ (e.tx i).ins, lookup x.s.U (r.tx, r.off) = none) := by
  obtain ⟨C, hC⟩ := history_Ledger e g n ops H x hx
  exact ⟨history_SInv e g n ops H x hx, ⟨C, hC⟩, hC.toPoolInv, hC.toPoolInv.insSpent⟩

/-- **every crash state of every history is the canonical state of the block its pointer names plus its pool — from
per-operation side conditions alone** (`SStep`): for `submit` the side conditions of the C01 transaction theorems, for
`walk` `WalkTree` and `PoolValid` of the re-admitted pool, for `play` an empty pool; ledger operations ask nothing.
PARTIAL in exactly one place: for `play` on a NON-EMPTY pool and for `playForMiner` the step condition is the
conclusion itself (that they keep the node on the canonical state is open in C01: it needs the commutation of the
block's transactions with the independent pending ones). -/
theorem crash_history_canonical (e : Env) (g : St) (n : Node) (ops : List Op) (hpl : ParentLower e) (hinv : KVInv e g)
    (htree : TreeValid e g) (h0 : SInv e g n.s)
    (hsteps : ∀ k op, ops[k]? = some op → SStep e g (run e n (ops.take k)) op)
    (x : Node) (hx : x ∈ crashStates e n ops) : SInv e g x.s := by
  refine crashStates_SInv e g n ops hinv htree (run_SInv e g n ops hpl hinv htree h0 hsteps) ?_ x hx
  intro k dest prune hop
  exact (hsteps k _ hop).1

-- every crash state of the example history: conservation, pool without duplicates, every pending input spent, and the
-- tables are those of the canonical state of the pointer's block with the pool applied
example : ∀ x ∈ crashStates cEnv cN cOps,
    sumU x.s.U + poolFees cEnv x.s.pool = x.s.total ∧ x.s.pool.Nodup ∧
    (∀ i ∈ x.s.pool, ∀ r ∈ (cEnv.tx i).ins, lookup x.s.U (r.tx, r.off) = none) ∧
    rowsEq x.s.U (applyPool cEnv x.s.pool (canon cEnv cG x.s.pointer)).U = true ∧
    rowsEq x.s.ZU (applyPool cEnv x.s.pool (canon cEnv cG x.s.pointer)).ZU = true := by decide

end XV.C06

namespace XV.C06
open XV.Chain XV.Crash XV.C01 XV.C02

-- ------------------------------------------------------------------ 2 (b). the ledger in a crash state

/-- `b` is a stored block of ledger `l` -/
def Stored (l : XV.Ledger.L) (b : Nat) : Prop := (lookup l.B b).isSome = true

instance (l : XV.Ledger.L) (b : Nat) : Decidable (Stored l b) := by unfold Stored; exact inferInstance

/-- side conditions of one operation for the ledger part, at the node of the uninterrupted run it starts from:
* `confirm`: the hypotheses of C04 `confirm_inv` (a valid block repeats no transaction of its own branch; a re-confirmed
  truncated id carries its old transactions);
* `play` / `playForMiner`: the block has been confirmed before (the node's sequence is ConfirmBlock, then play);
* `walk`: `WalkTree`, and the ledger stores both branches (`FindUndoAndTodoBlocks` reads them from the ledger);
* `truncate`: the target is on the main chain (C04 `truncate_inv`) and THE STATE HAS BEEN WALKED BACK FIRST: the block
  its pointer names is not higher than the target (`truncateForMiner`: `State.Walk(target)`, then `Ledger.Truncate`). -/
def LedgerStep (e : Env) (n : Node) : Op → Prop
  | .submit _ => True
  | .confirm b =>
    (∀ t, t ∈ (confirmArgs e b).map (·.1) → t ∉ XV.Ledger.branchTxs n.l ((e.block b).pre.getD 0)) ∧
    (∀ p, p ∈ n.l.C → p.2 = (e.block b).id → p.1 ∈ (confirmArgs e b).map (·.1))
  | .play b => Stored n.l (e.block b).id
  | .playMiner b => Stored n.l (e.block b).id
  | .walk dest _ => WalkTree e n.s.pointer dest ∧
    ∀ b ∈ ancestors e (e.blocks.length + 1) n.s.pointer ++ ancestors e (e.blocks.length + 1) dest, Stored n.l b
  | .truncate dest => dest ∈ XV.Ledger.pathOf n.l n.l.tip ∧
    ∃ hp hd, lookup n.l.B n.s.pointer = some hp ∧ lookup n.l.B dest = some hd ∧ hp.height ≤ hd.height

/-- **(b) the ledger in a crash state.** Ledger batches are atomic, so the ledger of every crash state is the ledger
after a completed prefix of the history; it satisfies the full main-chain invariant `LedgerInv` of C04; and the block
the state's persisted pointer names is stored in it — whatever ledger batch was written or lost, and wherever inside a
walk the state machine stopped. Hypotheses: the invariant and the stored pointer at the start, and `LedgerStep` for
every operation of the history (in particular: truncation only after the state has been walked back). -/
theorem crash_ledger_invariant (e : Env) (n : Node) (ops : List Op) (I : XV.Ledger.LedgerInv n.l)
    (hp : Stored n.l n.s.pointer)
    (hsteps : ∀ k op, ops[k]? = some op → LedgerStep e (run e n (ops.take k)) op)
    (x : Node) (hx : x ∈ crashStates e n ops) :
    (∃ k, k ≤ ops.length ∧ x.l = (run e n (ops.take k)).l) ∧ XV.Ledger.LedgerInv x.l ∧ Stored x.l x.s.pointer := by
  -- along the uninterrupted run
  have hrun : ∀ k, k ≤ ops.length →
      XV.Ledger.LedgerInv (run e n (ops.take k)).l ∧ Stored (run e n (ops.take k)).l (run e n (ops.take k)).s.pointer := by
    intro k
    induction k with
    | zero => intro _; exact ⟨I, hp⟩
    | succ k ih =>
      intro hk
      have hlt : k < ops.length := by omega
      obtain ⟨I', hp'⟩ := ih (by omega)
      have hop : ops[k]? = some ops[k] := List.getElem?_eq_getElem hlt
      have hstep := hsteps k _ hop
      rw [run_take_succ e n ops k _ hop]
      generalize run e n (ops.take k) = m at I' hp' hstep
      generalize ops[k] = op at hstep
      cases op with
      | submit i =>
        refine ⟨I', ?_⟩
        show Stored m.l (doTx e m.s (lh m) i).1.pointer
        rw [doTx_pointer]; exact hp'
      | confirm b =>
        exact ⟨XV.C04.confirm_inv m.l _ _ _ I' hstep.1 hstep.2, confirm_keeps_blocks m.l _ _ _ _ hp'⟩
      | play b =>
        refine ⟨I', ?_⟩
        show Stored m.l (play e m.s (lh m) (e.block b)).1.pointer
        rcases play_pointer e m.s (lh m) (e.block b) with h | h
        · rw [h]; exact hp'
        · rw [h]; exact hstep
      | playMiner b =>
        refine ⟨I', ?_⟩
        show Stored m.l (playForMiner e m.s (lh m) (e.block b)).1.pointer
        rcases playForMiner_pointer e m.s (lh m) (e.block b) with h | h
        · rw [h]; exact hp'
        · rw [h]; exact hstep
      | walk dest prune =>
        refine ⟨I', ?_⟩
        show Stored m.l (walk e m.s (lh m) dest prune).1.pointer
        exact hstep.2 _ (List.mem_append.mpr (walkTrace_pointer_mem e m.s (lh m) dest prune hstep.1 _
          (List.mem_of_getLast? (walkTrace_getLast e m.s (lh m) dest prune))))
      | truncate dest =>
        obtain ⟨hon, hph, hdh, s1, s2, hle⟩ := hstep
        exact ⟨XV.C04.truncate_inv m.l dest I' hon, XV.Ledger.truncate_keeps_low I' dest s2 s1 hle⟩
  obtain ⟨k, hk, h | ⟨dest, prune, hop, hl, hs⟩⟩ := mem_crashStates e ops n x hx
  · rw [h]; exact ⟨⟨k, hk, rfl⟩, hrun k hk⟩
  · refine ⟨⟨k, hk, hl⟩, by rw [hl]; exact (hrun k hk).1, ?_⟩
    obtain ⟨W, hst⟩ := hsteps k _ hop
    rw [hl]
    exact hst _ (List.mem_append.mpr (walkTrace_pointer_mem e _ _ dest prune W x.s hs))

-- every crash state of the example history: the pointer's block is stored, and the ledger is one of the four ledgers of
-- the uninterrupted run (tips 1, 2, 2 with the side block 3, 4)
example : ∀ x ∈ crashStates cEnv cN cOps, Stored x.l x.s.pointer ∧
    (x.l.tip, x.l.B.length) ∈ [(1, 1), (2, 2), (2, 3), (4, 4)] := by decide
example : XV.Ledger.LedgerInv cM.l := by
  have I0 := XV.C04.genesis_inv 1 [0]
  have I1 := XV.C04.confirm_inv _ 2 1 (confirmArgs cEnv 2) I0 (by decide) (by decide)
  have I2 := XV.C04.confirm_inv _ 3 1 (confirmArgs cEnv 3) I1 (by decide) (by decide)
  exact XV.C04.confirm_inv _ 4 3 (confirmArgs cEnv 4) I2 (by decide) (by decide)
-- truncation before the state is walked back leaves the pointer dangling (why the hypothesis is there): ledger
-- truncated to block 1 while the state still stands on block 2
example : ¬ Stored (runOp cEnv (run cEnv cN (cOps.take 2)) (.truncate 1)).l
    (runOp cEnv (run cEnv cN (cOps.take 2)) (.truncate 1)).s.pointer := by decide

-- ------------------------------------------------------------------ 2 (c). recovery

/-- **an interrupted walk can be resumed**: from every block-boundary state `x` of the trace of a walk, the walk to
the same destination (same ledger height, same prune flag) performs exactly the remaining batches and returns what
the interrupted walk would have returned before re-admitting its pool (`repostList e s`: the old pool without the
transactions the ledger records as confirmed on the chain walked to; the statement formerly said `s.pool`) — same
verdict, same state, field by field -/
theorem crash_walk_resume (e : Env) (s : St) (lh : Int) (dest : Nat) (prune : Bool) (W : WalkTree e s.pointer dest)
    (x : St) (hx : x ∈ walkMid e s lh dest prune) :
    walk e x lh dest prune = walkCore e s lh dest prune ∧
    (walk e x lh dest prune).2 = (walk e s lh dest prune).2 ∧
    ((walk e s lh dest prune).2 = true →
      (walk e s lh dest prune).1 =
        (repostList e s).foldl (fun st i => (doTx e st lh i).1) (walk e x lh dest prune).1) ∧
    ((walk e s lh dest prune).2 = false → (walk e x lh dest prune).1 = (walk e s lh dest prune).1) := by
  have h := XV.Crash.walk_resume e s lh dest prune W x hx
  refine ⟨h, by rw [h, walk_ok_iff_core], ?_, ?_⟩
  · intro hok
    rw [walk_ok_iff_core] at hok
    rw [h, walk_eq_core, if_pos hok]
  · intro hok
    rw [walk_ok_iff_core] at hok
    rw [h, walk_eq_core, hok]
    rfl

-- the walk across the fork resumed from each of its four block-boundary states: same verdict and same state as the
-- interrupted walk before its re-admissions (pointer 4, empty pool, irreversible height 1, total 28)
example : ∀ x ∈ walkMid cEnv cM.s (lh cM) 4 false,
    (walk cEnv x (lh cM) 4 false).2 = true ∧ (walk cEnv x (lh cM) 4 false).1.pointer = 4 ∧
    (walk cEnv x (lh cM) 4 false).1.pool = [] ∧ (walk cEnv x (lh cM) 4 false).1.irrev = 1 ∧
    (walk cEnv x (lh cM) 4 false).1.U = (walkCore cEnv cM.s (lh cM) 4 false).1.U ∧
    (walk cEnv x (lh cM) 4 false).1.ZU = (walkCore cEnv cM.s (lh cM) 4 false).1.ZU ∧
    (walk cEnv x (lh cM) 4 false).1.ZD = (walkCore cEnv cM.s (lh cM) 4 false).1.ZD ∧
    (walk cEnv x (lh cM) 4 false).1.total = 28 := by decide

/-- **dying again during the restart leaves nothing new** (the write sequence of a scenario with restarts): every
element of the trace of the walk that resumes an interrupted walk from one of its block-boundary states is again a
block-boundary state of the ORIGINAL walk — so everything proved for the crash states of a walk holds for the crash
states of its restarts, and of the restarts of those -/
theorem crash_during_restart (e : Env) (s : St) (lh : Int) (dest : Nat) (prune : Bool) (W : WalkTree e s.pointer dest)
    (x : St) (hx : x ∈ walkMid e s lh dest prune) (x' : St) (hx' : x' ∈ walkTrace e x lh dest prune) :
    x' ∈ walkMid e s lh dest prune :=
  walkTrace_restart_closed e s lh dest prune W x hx x' hx'

-- the restarts of the walk across the fork, interrupted again: only the four block-boundary states occur
example : ∀ x ∈ walkMid cEnv cM.s (lh cM) 4 false, ∀ x' ∈ walkTrace cEnv x (lh cM) 4 false,
    (x'.pointer, x'.pool, x'.total, x'.irrev) ∈ [(2, [], 18, 0), (1, [], 8, 0), (3, [], 18, 0), (4, [], 28, 1)] := by
  decide

/-- **(c) recovery after a crash inside the synchronisation walk reaches the state of the uninterrupted run.**
Operation `k` of the history walks the state to the ledger tip (`walk tip false`, the node's step after
`ConfirmBlock` switched the trunk, and the restart itself); the process dies after any batch of it, leaving
`x = (ledger of the run, s')` with `s'` any element of the trace. Then `x` is a crash state of the history and, with
`B` the part of the re-admission list `A ++ B` (`repostList`: the old pool without the transactions the ledger records
as confirmed on the chain walked to; formerly the old pool) whose batches had not been written (the whole list when the
crash hit before the first re-admission batch):
* the restart succeeds exactly when the uninterrupted walk succeeds;
* on success the state of the uninterrupted run is the recovered state with `B` re-admitted on it, oldest first: all
  seven fields equal when `B = []`; in general the pool differs exactly by the transactions of `B` that pass
  admission, and the tables (U, ZU, ZD, total) by the effects of those — pointer and irreversible height are equal
  (`doTx` touches neither);
* on failure both stop in the same state;
* the ledger is that of the uninterrupted run. -/
theorem crash_recovery_confluent (e : Env) (n : Node) (ops : List Op) (k : Nat)
    (hop : ops[k]? = some (.walk (run e n (ops.take k)).l.tip false))
    (W : WalkTree e (run e n (ops.take k)).s.pointer (run e n (ops.take k)).l.tip)
    (s' : St)
    (hs' : s' ∈ walkTrace e (run e n (ops.take k)).s (lh (run e n (ops.take k))) (run e n (ops.take k)).l.tip false) :
    (run e n (ops.take k)).withState s' ∈ crashStates e n ops ∧
    run e n (ops.take (k + 1)) = (run e n (ops.take k)).withState
      (walk e (run e n (ops.take k)).s (lh (run e n (ops.take k))) (run e n (ops.take k)).l.tip false).1 ∧
    ∃ A B, repostList e (run e n (ops.take k)).s = A ++ B ∧
      (recover e ((run e n (ops.take k)).withState s')).1.l = (run e n (ops.take (k + 1))).l ∧
      (recover e ((run e n (ops.take k)).withState s')).2 =
        (walk e (run e n (ops.take k)).s (lh (run e n (ops.take k))) (run e n (ops.take k)).l.tip false).2 ∧
      ((walk e (run e n (ops.take k)).s (lh (run e n (ops.take k))) (run e n (ops.take k)).l.tip false).2 = true →
        (run e n (ops.take (k + 1))).s =
          B.foldl (fun st i => (doTx e st (lh (run e n (ops.take k))) i).1)
            (recover e ((run e n (ops.take k)).withState s')).1.s) ∧
      ((walk e (run e n (ops.take k)).s (lh (run e n (ops.take k))) (run e n (ops.take k)).l.tip false).2 = false →
        (recover e ((run e n (ops.take k)).withState s')).1.s = (run e n (ops.take (k + 1))).s) := by
  have hmem := walkTrace_mem_crashStates e ops n k _ false hop s' hs'
  have hy := run_take_succ e n ops k _ hop
  refine ⟨hmem, hy, ?_⟩
  obtain ⟨A, B, h1, h2, h3, h4, h5⟩ := recover_sync e (run e n (ops.take k)) W s' hs'
  refine ⟨A, B, h1, ?_, h3, ?_, ?_⟩
  · rw [h2, hy]; rfl
  · intro hok; rw [hy]; exact h4 hok
  · intro hf; rw [hy]; exact h5 hf

-- the walk across the fork, interrupted after each of its five batches: the restart succeeds, ends at the ledger tip 4,
-- and re-admitting the rest of the old pool [22, 23] on the recovered state gives the state of the uninterrupted run —
-- rows, key tables, total, pointer, irreversible height, pool
example : ∀ s' ∈ walkTrace cEnv cM.s (lh cM) 4 false,
    (recover cEnv (cM.withState s')).2 = true ∧ (recover cEnv (cM.withState s')).1.s.pointer = 4 ∧
    (let y := (run cEnv cN cOps).s
     let r := [22, 23].foldl (fun st i => (doTx cEnv st (lh cM) i).1) (recover cEnv (cM.withState s')).1.s
     r.U = y.U ∧ r.ZU = y.ZU ∧ r.ZD = y.ZD ∧ r.total = y.total ∧ r.pointer = y.pointer ∧ r.irrev = y.irrev ∧
       r.pool = y.pool) := by decide
-- what the restart itself leaves in the pool: nothing, unless the re-admission batch of 23 had been written
example : (walkTrace cEnv cM.s (lh cM) 4 false).map (fun s' => (recover cEnv (cM.withState s')).1.s.pool) =
    [[], [], [], [], [23]] ∧ (run cEnv cN cOps).s.pool = [23] := by decide

/-- the full statement "the restart reaches the same state as the uninterrupted run, pool included" -/
def crash_recovery_same_state_statement : Prop :=
  ∀ (e : Env) (m : Node), WalkTree e m.s.pointer m.l.tip →
    ∀ s' ∈ walkTrace e m.s (lh m) m.l.tip false,
      (recover e (m.withState s')).1.s.pool = (walk e m.s (lh m) m.l.tip false).1.pool

/-- **it is false of the model** (and the model is the code's batch structure): a pending transaction that was rolled
back by batch (1) of the walk and whose re-admission batch had not been written when the process died is gone from the
pool table — after the restart nobody re-submits it. Witness (`cEnv`, node `cM`: ledger tip 4, state at block 2, pool
[22, 23]; `Walk(4)`): die after the batch that applies block 4 (write group 3 of the walk, counting the roll-back as
0) and before the `DoTx` batch of 23. On disk: pointer 4, pool table empty. Restart: the pointer is the ledger tip,
nothing to do; pool = []. Uninterrupted run: pool = [23]. To replay on the real code: node at the tip of a branch with a
pending transaction that is valid on both branches, `ConfirmBlock` of a longer sibling branch, `Walk(new tip)` with the
write log cut right after the last block batch; reopen, `Walk(ledger tip)`, read the unconfirmed table. The tables below
the pool are the same (`crash_recovery_confluent`); only the pending transactions are lost, none of their effects stays. -/
theorem crash_recovery_same_state_refuted : ¬ crash_recovery_same_state_statement := by
  intro h
  have W : WalkTree cEnv cM.s.pointer cM.l.tip :=
    ⟨parentLower_of_blocks _ (by decide), ⟨1, by decide, by decide⟩, by decide, by decide⟩
  have := h cEnv cM W
  revert this
  decide

-- ------------------------------------------------------------------ the restart itself can fail (known finding)

-- A chain 1 → 2 → 3 → 4 (heights 0..3); block 2 creates an output of u0 frozen until height 3. At ledger height 3 the
-- spender 40 of that output is admitted. The miner's truncation (`Walk(2)`, then `Truncate(2)`) re-admits 40 while the
-- ledger is still at height 3 and only then lowers it to height 1. The node packs 40 into its next block 5 (height 2):
-- `ConfirmBlock(5)`, `PlayForMiner(5)` (which verifies nothing).
private def fEnv : Env := {
  txs := [
    (0, ⟨0, true, [], [⟨"u0", 5, 0⟩], [], []⟩),
    (10, ⟨10, true, [], [⟨"m", 1, 0⟩], [], []⟩),
    (11, ⟨11, false, [⟨0, 0, "u0", 5, 0, false⟩], [⟨"u0", 3, 3⟩, ⟨"u0", 2, 0⟩], [], []⟩),
    (20, ⟨20, true, [], [⟨"m", 1, 0⟩], [], []⟩),
    (30, ⟨30, true, [], [⟨"m", 1, 0⟩], [], []⟩),
    (40, ⟨40, false, [⟨11, 0, "u0", 3, 3, false⟩], [⟨"u1", 3, 0⟩], [], []⟩),
    (50, ⟨50, true, [], [⟨"m", 1, 0⟩], [], []⟩)],
  blocks := [(1, ⟨1, none, 0, [0], "m"⟩), (2, ⟨2, some 1, 1, [10, 11], "m"⟩), (3, ⟨3, some 2, 2, [20], "m"⟩),
    (4, ⟨4, some 3, 3, [30], "m"⟩), (5, ⟨5, some 2, 2, [50, 40], "m"⟩)] }
private def fN : Node := { l := XV.Ledger.genesis 1 [0], s := canon fEnv {} 1 }
private def fOps : List Op := [.confirm 2, .play 2, .confirm 3, .play 3, .confirm 4, .play 4, .submit 40,
  .walk 2 false, .truncate 2, .confirm 5, .playMiner 5]

/-- the full statement "whatever batch was the last one written, the restart succeeds" for histories all of whose
operations succeeded -/
def crash_restart_succeeds_statement : Prop :=
  ∀ (e : Env) (n : Node) (ops : List Op), (run e n ops).s.pointer = (run e n ops).l.tip →
    ∀ x ∈ crashStates e n ops, (recover e x).2 = true

/-- **it is false of the model and of the code** (known finding
`crash-sync-failed:block-spends-output-frozen-above-ledger-height`, replay
`corpus/C06/frozen-spend-kept-across-truncation.ops`): in the history `fOps` every operation succeeds — the uninterrupted
run ends with ledger and state at block 5 — but the node that dies between `ConfirmBlock(5)` and `PlayForMiner(5)` holds
the state of block 2 with 40 pending under a ledger of height 2; its restart walk rolls 40 back and cannot apply block 5:
the output 40 spends is frozen until height 3. The frozen-height rule reads the ledger's CURRENT height, which the
truncation lowered after the pending transactions had been re-admitted. -/
theorem crash_restart_succeeds_refuted : ¬ crash_restart_succeeds_statement := by
  intro h
  have := h fEnv fN fOps (by decide)
  revert this
  decide

-- the uninterrupted run: every operation took effect (pool [40] after the truncation, block 5 applied, pool empty)
example : (run fEnv fN (fOps.take 9)).s.pool = [40] ∧ (run fEnv fN (fOps.take 9)).l.trunkHeight = 1 ∧
    (run fEnv fN fOps).s.pointer = 5 ∧ (run fEnv fN fOps).l.tip = 5 ∧ (run fEnv fN fOps).s.pool = [] := by decide
-- the crash state that fails is the node after the first ten operations (between `ConfirmBlock(5)` and `PlayForMiner(5)`)
example : (recover fEnv (run fEnv fN (fOps.take 10))).2 = false ∧ (run fEnv fN (fOps.take 10)).s.pointer = 2 ∧
    (run fEnv fN (fOps.take 10)).l.tip = 5 := by decide
-- without the truncation in between (ledger still at height 3) the very same crash point restarts fine
example : (recover fEnv (run fEnv fN [.confirm 2, .play 2, .confirm 3, .play 3, .confirm 4, .play 4, .submit 40,
    .walk 2 false])).2 = true := by decide

/-- **(c), every crash state of every history: a successful restart lands on the canonical state of the ledger
tip.** The recovered state points at the ledger tip and its tables are those of the canonical state of the tip (the
replay of the tip's chain from the base state) with the recovered pool applied; the ledger is untouched. The same
holds for the end of the uninterrupted run (it is one of the crash states), so both show the same tables below
their pools — whatever batch was the last one written. -/
theorem crash_recovery_canonical (e : Env) (g : St) (n : Node) (ops : List Op) (H : History e g n ops)
    (hpl : ParentLower e) (x : Node) (hx : x ∈ crashStates e n ops) (hid : (e.block x.l.tip).id = x.l.tip)
    (hok : (recover e x).2 = true) :
    (recover e x).1.l = x.l ∧ (recover e x).1.s.pointer = x.l.tip ∧
    TRefines (recover e x).1.s (applyPool e (recover e x).1.s.pool (canon e g x.l.tip)) := by
  have hS := history_SInv e g n ops H x hx
  unfold recover at hok ⊢
  by_cases hp : x.s.pointer = x.l.tip
  · rw [if_pos hp]
    refine ⟨rfl, hp, ?_⟩
    have := hS.tables
    rw [hp] at this
    exact this
  · rw [if_neg hp] at hok ⊢
    obtain ⟨h1, h2⟩ := hS.recover hpl H.kv (H.tree _) (lh x) x.l.tip false hid hok
    exact ⟨rfl, h1, h2⟩

/-- two crash states of a history with the same ledger tip — e.g. what a crash left and the end of the uninterrupted
run — whose restarts succeed with empty pools show the same tables: every row, every key version, the total -/
theorem crash_recovery_same_tables (e : Env) (g : St) (n : Node) (ops : List Op) (H : History e g n ops)
    (hpl : ParentLower e) (x y : Node) (hx : x ∈ crashStates e n ops) (hy : y ∈ crashStates e n ops)
    (htip : x.l.tip = y.l.tip) (hid : (e.block x.l.tip).id = x.l.tip)
    (hokx : (recover e x).2 = true) (hoky : (recover e y).2 = true)
    (hpx : (recover e x).1.s.pool = []) (hpy : (recover e y).1.s.pool = []) :
    ObsT (recover e x).1.s (recover e y).1.s ∧ (recover e x).1.s.pointer = (recover e y).1.s.pointer := by
  obtain ⟨_, a2, a3⟩ := crash_recovery_canonical e g n ops H hpl x hx hid hokx
  obtain ⟨_, b2, b3⟩ := crash_recovery_canonical e g n ops H hpl y hy (by rw [← htip]; exact hid) hoky
  rw [hpx] at a3
  rw [hpy, ← htip] at b3
  exact ⟨a3.obs.trans b3.obs.symm, by rw [a2, b2, htip]⟩

-- every crash state of the example history: the restart succeeds, ends at the ledger tip of that crash state, and the
-- rows / live keys / total are those of the canonical state of that tip with the recovered pool applied
example : ∀ x ∈ crashStates cEnv cN cOps, (recover cEnv x).2 = true ∧ (recover cEnv x).1.s.pointer = x.l.tip ∧
    rowsEq (recover cEnv x).1.s.U (applyPool cEnv (recover cEnv x).1.s.pool (canon cEnv cG x.l.tip)).U = true ∧
    rowsEq (recover cEnv x).1.s.ZU (applyPool cEnv (recover cEnv x).1.s.pool (canon cEnv cG x.l.tip)).ZU = true ∧
    (recover cEnv x).1.s.total = (applyPool cEnv (recover cEnv x).1.s.pool (canon cEnv cG x.l.tip)).total := by decide

-- all crash states with ledger tip 4 whose restart ends with an empty pool show, after the restart, the very same rows,
-- key tables and total (here even as lists)
example : ∀ x ∈ crashStates cEnv cN cOps, ∀ y ∈ crashStates cEnv cN cOps,
    x.l.tip = 4 → y.l.tip = 4 → (recover cEnv x).1.s.pool = [] → (recover cEnv y).1.s.pool = [] →
    (recover cEnv x).1.s.U = (recover cEnv y).1.s.U ∧ (recover cEnv x).1.s.ZU = (recover cEnv y).1.s.ZU ∧
    (recover cEnv x).1.s.ZD = (recover cEnv y).1.s.ZD ∧ (recover cEnv x).1.s.total = (recover cEnv y).1.s.total := by
  decide
-- the history continued by a truncation done in the right order (`truncateForMiner`): the state is walked back to
-- block 3, then the ledger is truncated to block 3. In all 25 crash states the pointer's block is stored, and the
-- restart succeeds and ends at the ledger tip (4 before the truncation batch, 3 after it)
example : (crashStates cEnv cN (cOps ++ [.walk 3 false, .truncate 3])).length = 25 ∧
    ∀ x ∈ crashStates cEnv cN (cOps ++ [.walk 3 false, .truncate 3]),
      Stored x.l x.s.pointer ∧ (recover cEnv x).2 = true ∧ (recover cEnv x).1.s.pointer = x.l.tip ∧
      rowsEq (recover cEnv x).1.s.U (applyPool cEnv (recover cEnv x).1.s.pool (canon cEnv cG x.l.tip)).U = true := by
  decide

-- ------------------------------------------------------------------ 2 (d). the irreversible height

/-- **(d) along a consensus walk the irreversible height never decreases from batch to batch**: the list "state before
the walk, then the trace" is sorted, and every element is at most the value the walk ends with — the value a crash
leaves behind is one the uninterrupted walk passes through, between the value before and the value after (C17) -/
theorem crash_irrev_along_walk (e : Env) (s : St) (lh : Int) (dest : Nat) :
    IrrevSorted (s :: walkTrace e s lh dest false) ∧
    ∀ x ∈ walkTrace e s lh dest false, s.irrev ≤ x.irrev ∧ x.irrev ≤ (walk e s lh dest false).1.irrev := by
  obtain ⟨h1, h2⟩ := walkTrace_irrev_sorted e s lh dest
  exact ⟨h1, fun x hx => ⟨(List.pairwise_cons.mp h1).1 x hx, h2 x hx⟩⟩

/-- **(d) along a history without pruning walks the irreversible height never decreases from one crash state to the
next** (in the order in which the write groups are issued), and in every crash state it lies between the value the
history starts with and the value the uninterrupted run ends with; a restart never lowers it either
(C17 `walk_irrev_mono`) -/
theorem crash_irrev_monotone (e : Env) (n : Node) (ops : List Op) (hpf : PruneFree ops) :
    (crashStates e n ops).Pairwise (fun a b => a.s.irrev ≤ b.s.irrev) ∧
    (∀ x ∈ crashStates e n ops, n.s.irrev ≤ x.s.irrev ∧ x.s.irrev ≤ (run e n ops).s.irrev) ∧
    (∀ x ∈ crashStates e n ops, x.s.irrev ≤ (recover e x).1.s.irrev) := by
  refine ⟨crashStates_irrev_sorted e ops n hpf, crashStates_irrev_bounds e ops n hpf, ?_⟩
  intro x _
  unfold recover
  split
  · exact Int.le_refl _
  · exact XV.C17.walk_irrev_mono e x.s (lh x) x.l.tip

-- the irreversible height along the crash states of the example history (window 1: it moves to 1 when block 4, height
-- 2, is applied inside the walk), and after the restart from each of them
example : PruneFree cOps ∧
    (crashStates cEnv cN cOps).map (·.s.irrev) = [0, 0, 0, 0, 0, 0, 0, 0, 0, 0, 0, 0, 0, 0, 0, 0, 1, 1, 1] ∧
    (crashStates cEnv cN cOps).map (fun x => (recover cEnv x).1.s.irrev) =
      [0, 0, 0, 0, 0, 0, 0, 0, 0, 0, 0, 1, 1, 1, 1, 1, 1, 1, 1] := by decide
-- a pruning walk lowers it (why `PruneFree` is asked): from block 4 (irreversible height 1) back to block 1; the last
-- batch re-admits 23
example : (walkTrace cEnv (run cEnv cN cOps).s 2 1 true).map (fun x => (x.pointer, x.irrev, x.pool)) =
    [(4, 1, []), (3, 1, []), (1, 0, []), (1, 0, [23])] := by decide

-- ------------------------------------------------------------------ 3. the hypotheses can be met

-- The hypotheses of the history-level theorems (`History`, `LedgerStep`) hold for the example history: the
-- uninterrupted run satisfies the C01 invariant (checked row by row, `SInvC`) and the C02 invariant (through the C02
-- theorems, operation by operation), every chain of the environment is valid, the walk meets its side conditions.

private theorem cTree : WalkTree cEnv cM.s.pointer 4 :=
  ⟨parentLower_of_blocks _ (by decide), ⟨1, by decide, by decide⟩, by decide, by decide⟩

private theorem cL0 : Ledger cEnv (cNd 0).s [0] :=
  (todoBlock_Ledger cEnv {} (cNd 0).s 0 (cEnv.block 1) [] rfl (Ledger_genesis cEnv) rfl (by decide) (by decide)
    (by decide) (by decide)).1
private theorem cL2 : Ledger cEnv (cNd 2).s [0, 20, 21] := by
  have := play_Ledger_repaired cEnv (cNd 1).s (lh (cNd 1)) (cEnv.block 2) [0] cL0 (by decide) (by decide) (by decide)
    (by decide) (by decide) (by decide)
  rw [if_pos (by decide)] at this
  exact this
private theorem cL3 : Ledger cEnv (cNd 3).s [0, 20, 21] :=
  doTx_Ledger cEnv (cNd 2).s (lh (cNd 2)) 22 _ cL2 (fun _ => by decide)
private theorem cL4 : Ledger cEnv (cNd 4).s [0, 20, 21] :=
  doTx_Ledger cEnv (cNd 3).s (lh (cNd 3)) 23 _ cL3 (fun _ => by decide)
private theorem cL7 : Ledger cEnv (cNd 7).s [0, 30, 31, 40, 41] := by
  obtain ⟨C', c1, c2⟩ := walk_Ledger cEnv (cNd 6).s (lh (cNd 6)) 4 false [0, 20, 21] [0] cL4 (by decide) (by decide)
    (by decide) (by decide)
  rw [c2 (by decide)] at c1
  exact c1

private theorem cSInv : ∀ k ∈ List.range 8, SInvC cEnv cG (cNd k).s := by decide

private theorem cHistory : History cEnv cG cN cOps where
  kv := KVInv_empty cEnv cG rfl rfl
  tree := treeValid_of_blocks _ _ (by decide)
  sinv := fun k hk => (cSInv k (List.mem_range.mpr (Nat.lt_succ_of_le hk))).sound
  led := fun k hk =>
    match k, hk with
    | 0, _ => ⟨_, cL0⟩
    | 1, _ => ⟨_, cL0⟩
    | 2, _ => ⟨_, cL2⟩
    | 3, _ => ⟨_, cL3⟩
    | 4, _ => ⟨_, cL4⟩
    | 5, _ => ⟨_, cL4⟩
    | 6, _ => ⟨_, cL4⟩
    | 7, _ => ⟨_, cL7⟩
    | k + 8, h => absurd h (by simp [cOps])
  walks := fun k dest prune hop =>
    match k, hop with
    | 6, hop => by
      cases hop
      exact ⟨cTree, [0, 20, 21], [0], cL4, by decide, by decide, by decide, by decide⟩
    | k + 7, hop => by simp [cOps] at hop

private theorem cLedgerSteps : ∀ k op, cOps[k]? = some op → LedgerStep cEnv (run cEnv cN (cOps.take k)) op := by
  intro k op hop
  match k, hop with
  | 0, hop => cases hop; exact ⟨by decide, by decide⟩
  | 1, hop => cases hop; exact (by decide : Stored (cNd 1).l 2)
  | 2, hop => cases hop; exact trivial
  | 3, hop => cases hop; exact trivial
  | 4, hop => cases hop; exact ⟨by decide, by decide⟩
  | 5, hop => cases hop; exact ⟨by decide, by decide⟩
  | 6, hop => cases hop; exact ⟨cTree, by decide⟩
  | k + 7, hop => simp [cOps] at hop

private theorem cSSteps : ∀ k op, cOps[k]? = some op → SStep cEnv cG (run cEnv cN (cOps.take k)) op := by
  intro k op hop
  match k, hop with
  | 0, hop => cases hop; exact trivial
  | 1, hop => cases hop; exact Or.inl ⟨by decide, by decide⟩
  | 2, hop =>
    cases hop
    exact fun _ => ⟨(by decide : TxWFC cEnv 22).sound, absent_of_rows _ _ (by decide), by decide⟩
  | 3, hop =>
    cases hop
    exact fun _ => ⟨(by decide : TxWFC cEnv 23).sound, absent_of_rows _ _ (by decide), by decide⟩
  | 4, hop => cases hop; exact trivial
  | 5, hop => cases hop; exact trivial
  | 6, hop =>
    cases hop
    exact ⟨cTree, fun _ => (by decide : PoolValidC cEnv (walk cEnv cM.s (lh cM) 4 false).1.pool (canon cEnv cG 4)).sound⟩
  | k + 7, hop => simp [cOps] at hop

-- the per-operation side conditions `SStep` hold as well: `crash_history_canonical` applies
example : ∀ x ∈ crashStates cEnv cN cOps, SInv cEnv cG x.s :=
  crash_history_canonical cEnv cG cN cOps (parentLower_of_blocks _ (by decide)) (KVInv_empty cEnv cG rfl rfl)
    (treeValid_of_blocks _ _ (by decide)) (cSInv 0 (by decide)).sound cSSteps

-- so the history-level theorems apply to it: every crash state satisfies the C01 and C02 invariants, carries a ledger
-- with the main-chain invariant that stores the pointer's block, and a successful restart lands on the canonical state
-- of its ledger tip
example : ∀ x ∈ crashStates cEnv cN cOps,
    SInv cEnv cG x.s ∧ (∃ C, Ledger cEnv x.s C) ∧ PoolInv cEnv x.s ∧
    XV.Ledger.LedgerInv x.l ∧ Stored x.l x.s.pointer :=
  fun x hx =>
    have h1 := crash_history_invariants cEnv cG cN cOps cHistory x hx
    have h2 := crash_ledger_invariant cEnv cN cOps (XV.C04.genesis_inv 1 [0]) (by decide) cLedgerSteps x hx
    ⟨h1.1, h1.2.1, h1.2.2.1, h2.2.1, h2.2.2⟩

-- ------------------------------------------------------------------ 4. the skip list the ledger supplies for a walk

/-- **the skip list a node's ledger supplies for a walk is complete** (repaired `recoverUnconfirmedTx`,
`isConfirmedOnCurrentChain`; `ledgerSkip` is the filter of the driver's `walkEnv`: `XV.Chain.walkEnv_eq`): if the ledger
satisfies the invariant of C04 and stores the chain of `dest` as main-chain blocks with the transactions and heights of
the environment, then every pending transaction that the chain of `dest` confirms is in the list — which is the
hypothesis `SkipsConfirmed` of the walk theorems of C01 / C02, for the environment the walk runs in -/
theorem node_walk_skip_complete (e : Env) (n : Node) (dest : Nat) (hpl : ParentLower e)
    (I : XV.Ledger.LedgerInv n.l)
    (hm : XV.Snapshot.LedgerMatches n.l e (ancestors e (e.blocks.length + 1) dest)) :
    SkipsConfirmed (e.withSkip (ledgerSkip n.l n.s.pool dest)) n.s
      (blockTxs e (ancestors e (e.blocks.length + 1) dest).reverse) :=
  fun i hi hc => ledgerSkip_skipsConfirmed n.l e n.s dest hpl I hm i hi hc

/-- **a node that walks with the list its ledger supplies keeps the joint invariant** — tokens, key versions and chain
shape over one ghost log (C01 `walk_LedgerAll_chain_full_withSkip`), in every outcome of the walk, with NO hypothesis on
the re-submitted transactions and none on the skip list: it is discharged by the ledger invariant of C04. Of the code as
found (nothing skipped) this was false: C01 `walk_as_found_readmits_confirmed`. -/
theorem node_walk_keeps_invariants (e : Env) (n : Node) (lh : Int) (dest : Nat) (prune : Bool) (C : List Nat)
    (hpl : ParentLower e) (hgen : ChainLog e {} []) (h : LedgerAll e n.s C) (hc : ChainLog e n.s C)
    (hids : ∀ bi ∈ (undoTodo e n.s.pointer dest).2, (e.block bi).id = bi)
    (hnd : (blockTxs e (ancestors e (e.blocks.length + 1) dest).reverse).Nodup)
    (hblk : ∀ bi ∈ (undoTodo e n.s.pointer dest).2, (∀ i ∈ (e.block bi).txs, (e.tx i).id = i) ∧
      (∀ i ∈ (e.block bi).txs, (e.tx i).coinbase = true → (e.tx i).ins = [] ∧ feeOf (e.tx i).outs = 0) ∧
      (∀ i ∈ (e.block bi).txs, ((e.tx i).kout.map (·.key)).Nodup))
    (I : XV.Ledger.LedgerInv n.l)
    (hm : XV.Snapshot.LedgerMatches n.l e (ancestors e (e.blocks.length + 1) dest)) :
    ∃ C', LedgerAll e (walk (e.withSkip (ledgerSkip n.l n.s.pool dest)) n.s lh dest prune).1 C' ∧
      ChainLog e (walk (e.withSkip (ledgerSkip n.l n.s.pool dest)) n.s lh dest prune).1 C' ∧
      ((walk (e.withSkip (ledgerSkip n.l n.s.pool dest)) n.s lh dest prune).2 = true →
        C' = blockTxs e (ancestors e (e.blocks.length + 1) dest).reverse) :=
  walk_LedgerAll_chain_full_withSkip e _ n.s lh dest prune C hpl hgen h hc hids hnd hblk
    (fun i hi hcf => ledgerSkip_skipsConfirmed n.l e n.s dest hpl I hm i hi hcf)

-- the scenario of defect (1) at the level of the ledger tables: genesis block 1 = [10]; the pending transaction 50; the
-- peer's block 3 = [30 (award), 50] on 1 is confirmed and becomes the tip. For the walk to 3 the ledger supplies [50]; for
-- a walk to 1 (before the confirmation, or back) nothing — 50 is not on that chain, it has to be re-admitted
example :
    let l0 := XV.Ledger.genesis 1 [10]
    let l1 := (XV.Ledger.confirm l0 3 1 [(30, true), (50, false)]).1
    l1.tip = 3 ∧ ledgerSkip l1 [50] 3 = [50] ∧ ledgerSkip l0 [50] 1 = [] ∧ ledgerSkip l1 [50] 1 = [] := by decide

end XV.C06
