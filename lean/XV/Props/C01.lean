import XV.Lemmas.Repost
import XV.Lemmas.WalkSkip
import XV.Props.C02
import XV.Lemmas.UndoKeys
import XV.Lemmas.UndoObs
import XV.Lemmas.UndoFee
import XV.Lemmas.UndoBlock
import XV.Lemmas.UndoWalk
import XV.Lemmas.PlayWalk
import XV.Lemmas.RefinePlay
import XV.Lemmas.RefineReplay
/-!
C01 — the state at a block is a pure function of its chain: undoing exactly cancels playing.

Transaction level. `undoTx (applyTx s t) t` restores every row of the UTXO table and the total (`undo_apply_U`,
`undo_apply_total`, `undo_apply_frame`), for every admitted transaction whose inputs cite the frozen height of the
output they spend; it restores the current version of every key as the reader `curVer` sees it (`undo_apply_keys`)
and, on a well-formed state (`KVInv`), the live key table row by row, with no new recycle row (`undo_apply_rows`,
`undo_apply_KVInv`, `applyTx_KVInv`). The raw recycle table ZD is NOT restored in general (`undo_apply_ZD_refuted`).

Equivalence. `≈` (`Obs`) = same UTXO rows, key versions, total, pointer, irreversible height, pool; an equivalence
(`obs_equiv`) respected by admission and every table operation (`admission_congr`, `applyTx_congr`, `payFee_congr`,
`undoPayFee_congr`; `undoTx_congr` needs `UndoSafe`, and is false without: `undoTx_congr_needs_safe`). `Refines` /
`TRefines` (Lemmas/UndoObs.lean) is the one-directional strengthening that apply-then-undo establishes and that all
operations are monotone for; it is what chains.

Fees, blocks. `undoPayFee_payFee`; `undo_fee_apply_refines` (one block step and its undo); `undoBlock_todoBlock`
(+ `_obs`, `_tip`): a non-pruning `undoBlock` after `todoBlock` gives back the state, pointer at the parent, the
irreversible height NOT restored; `undoBlock_play` the same after `play` with an empty pool.

Walks. `ancestors_chain`, `undoTodo_spec` (the two lists are the branches above the lowest common ancestor),
`walk_reaches` (a successful walk ends at its destination), `rollback_applyPool`, `undoAll_replayChain`,
`walk_refines` / `walk_refines_full` (the result is the replay of the destination branch from the common ancestor,
then the old pool re-admitted), and with the canonical state `canon` of a block (replay of its chain from the root):
`walk_canonical`, `walk_invariant`, `walk_confluent` — after a successful walk the tables are those of the canonical
state of the destination, whatever branch the node came from.

The walk theorems hold for pruning and non-pruning walks alike (the refinement does not look at the irreversible
height; what a walk does to it is C17). `play_invariant`: `play` with an empty pool keeps the node on the canonical
state.

The ghost log and the chain. `ChainLog e s C`: the ghost log `C` of `XV.C02.Ledger` is the transactions of the blocks on
the path root..pointer. It holds at genesis and is kept by `doTx`, `play`, `playForMiner` (`ChainLog_genesis`,
`doTx_ChainLog`, `play_ChainLog`, `playForMiner_ChainLog`) and by `walk` together with `Ledger`: `walk_Ledger_chain`
(success; the hypothesis `hundo` of `XV.C02.walk_Ledger` is discharged) and `walk_Ledger_chain_full` (every outcome: a
refused undo or a failing block leaves the node at an intermediate block whose path explains its tables). So
(`Ledger`, `ChainLog`) is an inductive invariant of the reachable states. The walk theorems ask `SkipsConfirmed` of the
environment (the ledger's skip list names every pending transaction the chain walked to confirms; repaired
`recoverUnconfirmedTx`) instead of the former dynamic hypothesis `hre`; it is needed: `walk_Ledger_needs_skip`,
`walk_Ledger_chain_needs_skip`, `walk_as_found_readmits_confirmed` (with nothing skipped — the code as found — a pending
transaction without token input that the new branch confirms is re-admitted), `walk_repaired_skips_confirmed`.
The joint invariant — `XV.C02.LedgerAll` (tokens and key versions over one ghost log) together with `ChainLog` — is kept
by every operation: `LedgerAll_chain_genesis`, `doTx_LedgerAll_chain`, `play_LedgerAll_chain`,
`playForMiner_LedgerAll_chain`, and `walk_LedgerAll_chain_full` (every outcome of a walk; `hre` in the weaker form "token
input or key write").
state.

The refinement layer and the closing induction (helper lemmas in Lemmas/Refine*.lean: the table operations as a "swap
system" — adjacent independent operations commute, validity included — and what a list of operations can do to a row / a
key version). `play_refines`: `play` with a NON-EMPTY pool — eviction of the conflicting transactions and their
dependents, pending members skipped, rolled-back members re-applied — takes "state refines canon(tip) + pool, pool valid"
to the same at the new tip with the surviving pool; `playForMiner_refines`: the same for the miner's own block (award +
a prefix of the pool); `doTx_refines`: one admission. `chain_refines` (`EnvOK`, `Inv`, `HOp`, `hrun`, `OpOK` / `HistOK`,
`step_invariant`, `genesis_inv`, `chain_observables`): after ANY history of submissions, peers' blocks, own blocks and
walks — refused operations and failing walks included — the node's observable tables are those of the replay of the chain
genesis..tip on a fresh node followed by the pending pool in admission order — and that chain CAN be replayed
(`Inv.chain`). `undo_cancels_apply_history`: walking away and back restores the observables. `accepted_block_replayable`:
a block that `play` accepts is accepted by a fresh replica (at every sufficiently high ledger height) — after the repair
of `processUnconfirmTxs` (guard `staleMember`); of the code as found it was false (a pending member that only reads a key
an earlier new transaction of the block overwrites was skipped by the node: the witness block is now refused). With it,
`EnvOK` no longer assumes "every chain of the tree can be replayed": for peers' blocks accepted through `play` and for
blocks applied by walks this is proved; only the node's own block (`playForMiner`) still carries the condition, in
`OpOK`. Every walk of a history carries the skip list the ledger supplies for it (`HOp.walk … skip`, `Env.withSkip`).
-/
namespace XV.C01
open XV.Chain XV.C02

/-- an output of `t` that materialises at offset `o` (not the fee placeholder, not zero) -/
def materialises (outs : List Out) (base o : Nat) : Bool :=
  match outs[o - base]? with
  | some x => decide (base ≤ o) && !(x.addr == "$" || x.amt == 0)
  | none => false

theorem applyOuts_lookup (t : Tx) (outs : List Out) (off : Nat) (s : St) (k : Ver) :
    lookup (applyOuts t outs off s).U k =
      if k.1 = t.id ∧ materialises outs off k.2 = true then
        (outs[k.2 - off]?).map (fun x => ⟨x.addr, x.amt, x.frozen⟩)
      else lookup s.U k := by
  induction outs generalizing off s with
  | nil => simp [applyOuts, materialises]
  | cons o r ih =>
    unfold applyOuts
    rw [ih]
    by_cases hk : k.1 = t.id
    · by_cases hlt : k.2 < off
      · -- below this offset: neither this output nor the rest
        have h1 : materialises r (off + 1) k.2 = false := by
          unfold materialises; split <;> simp; omega
        have h2 : materialises (o :: r) off k.2 = false := by
          unfold materialises; split <;> simp; omega
        simp only [hk, h1, h2, Bool.false_eq_true, and_false, ↓reduceIte]
        split
        · rfl
        · simp only; rw [lookup_put]
          have : ¬ (t.id, off) = k := by intro e; rw [← e] at hlt; simp at hlt
          simp [this]
      · by_cases heq : k.2 = off
        · have h1 : materialises r (off + 1) k.2 = false := by
            unfold materialises; split <;> simp; omega
          simp only [hk, h1, Bool.false_eq_true, and_false, ↓reduceIte, true_and]
          have hk' : k = (t.id, off) := by cases k; simp_all
          unfold materialises
          simp only [heq, Nat.sub_self, List.getElem?_cons_zero, Nat.le_refl, decide_true, Bool.true_and]
          by_cases hz : (o.addr == "$" || o.amt == 0) = true
          · simp [hz]
          · simp only [hz, Bool.false_eq_true, ↓reduceIte, Bool.not_false, Option.map_some]
            rw [hk', lookup_put_same]
        · have hgt : off < k.2 := by omega
          have hm : materialises (o :: r) off k.2 = materialises r (off + 1) k.2 := by
            unfold materialises
            have : k.2 - off = (k.2 - (off + 1)) + 1 := by omega
            rw [this, List.getElem?_cons_succ]
            have d1 : decide (off ≤ k.2) = true := by simp; omega
            have d2 : decide (off + 1 ≤ k.2) = true := by simp; omega
            simp [d1, d2]
          have hi : (o :: r)[k.2 - off]? = r[k.2 - (off + 1)]? := by
            have : k.2 - off = (k.2 - (off + 1)) + 1 := by omega
            rw [this, List.getElem?_cons_succ]
          rw [hm, hi]
          split
          · rfl
          · split
            · rfl
            · simp only; rw [lookup_put]
              have : ¬ (t.id, off) = k := by intro e; rw [← e] at hgt; simp at hgt
              simp [this]
    · simp only [hk, false_and, ↓reduceIte]
      split
      · rfl
      · simp only; rw [lookup_put]
        have : ¬ (t.id, off) = k := by intro e; exact hk (by rw [← e])
        simp [this]

theorem undoOuts_lookup (t : Tx) (outs : List Out) (off : Nat) (s : St) (k : Ver) :
    lookup (undoOuts t outs off s).U k =
      if k.1 = t.id ∧ materialises outs off k.2 = true then none else lookup s.U k := by
  induction outs generalizing off s with
  | nil => simp [undoOuts, materialises]
  | cons o r ih =>
    unfold undoOuts
    rw [ih]
    by_cases hk : k.1 = t.id
    · by_cases hlt : k.2 < off
      · have h1 : materialises r (off + 1) k.2 = false := by
          unfold materialises; split <;> simp; omega
        have h2 : materialises (o :: r) off k.2 = false := by
          unfold materialises; split <;> simp; omega
        simp only [hk, h1, h2, Bool.false_eq_true, and_false, ↓reduceIte]
        split
        · rfl
        · simp only; rw [lookup_del]
          have : ¬ (t.id, off) = k := by intro e; rw [← e] at hlt; simp at hlt
          simp [this]
      · by_cases heq : k.2 = off
        · have h1 : materialises r (off + 1) k.2 = false := by
            unfold materialises; split <;> simp; omega
          simp only [hk, h1, Bool.false_eq_true, and_false, ↓reduceIte, true_and]
          have hk' : k = (t.id, off) := by cases k; simp_all
          unfold materialises
          simp only [heq, Nat.sub_self, List.getElem?_cons_zero, Nat.le_refl, decide_true, Bool.true_and]
          by_cases hz : (o.addr == "$" || o.amt == 0) = true
          · simp [hz]
          · simp only [hz, Bool.false_eq_true, ↓reduceIte, Bool.not_false]
            rw [hk', lookup_del_same]
        · have hgt : off < k.2 := by omega
          have hm : materialises (o :: r) off k.2 = materialises r (off + 1) k.2 := by
            unfold materialises
            have : k.2 - off = (k.2 - (off + 1)) + 1 := by omega
            rw [this, List.getElem?_cons_succ]
            have d1 : decide (off ≤ k.2) = true := by simp; omega
            have d2 : decide (off + 1 ≤ k.2) = true := by simp; omega
            simp [d1, d2]
          rw [hm]
          split
          · rfl
          · split
            · rfl
            · simp only; rw [lookup_del]
              have : ¬ (t.id, off) = k := by intro e; rw [← e] at hgt; simp at hgt
              simp [this]
    · simp only [hk, false_and, ↓reduceIte]
      split
      · rfl
      · simp only; rw [lookup_del]
        have : ¬ (t.id, off) = k := by intro e; exact hk (by rw [← e])
        simp [this]

private theorem foldl_del_lookup (ins : List InRef) (u : List (Ver × UItem)) (k : Ver) :
    lookup (ins.foldl (fun u r => del u (r.tx, r.off)) u) k =
      if k ∈ ins.map (fun r => (r.tx, r.off)) then none else lookup u k := by
  induction ins generalizing u with
  | nil => simp
  | cons r rest ih =>
    simp only [List.foldl_cons, List.map_cons, List.mem_cons]
    rw [ih, lookup_del]
    by_cases h1 : k ∈ rest.map (fun r => (r.tx, r.off))
    · simp [h1]
    · by_cases h2 : (r.tx, r.off) = k
      · simp [h1, h2]
      · have : ¬ k = (r.tx, r.off) := fun e => h2 e.symm
        simp [h1, h2, this]

private theorem foldl_put_lookup (ins : List InRef) (u : List (Ver × UItem)) (k : Ver)
    (hnd : (ins.map (fun r => (r.tx, r.off))).Nodup) :
    lookup (ins.foldl (fun u r => put u (r.tx, r.off) ⟨r.addr, r.amt, r.frozen⟩) u) k =
      match ins.find? (fun r => (r.tx, r.off) = k) with
      | some r => some ⟨r.addr, r.amt, r.frozen⟩
      | none => lookup u k := by
  induction ins generalizing u with
  | nil => simp
  | cons r rest ih =>
    simp only [List.map_cons, List.nodup_cons] at hnd
    simp only [List.foldl_cons]
    rw [ih _ hnd.2]
    by_cases h2 : (r.tx, r.off) = k
    · have hnf : rest.find? (fun x => decide ((x.tx, x.off) = k)) = none := by
        apply List.find?_eq_none.mpr
        intro x hx
        have : (x.tx, x.off) ≠ (r.tx, r.off) := fun e => hnd.1 (List.mem_map.mpr ⟨x, hx, e⟩)
        rw [h2] at this
        simpa using this
      simp only [hnf, List.find?_cons, h2, decide_true]
      rw [← h2, lookup_put_same]
    · simp only [List.find?_cons, h2, decide_false]
      cases hf : rest.find? (fun x => decide ((x.tx, x.off) = k)) with
      | some x => rfl
      | none => simp only; rw [lookup_put]; simp [h2]

/-- the inputs of `t` cite the frozen height of the outputs they spend (the code restores the cited value on undo
and does not compare it on admission; see DESIGN.md) -/
def citesFrozen (s : St) (t : Tx) : Prop :=
  ∀ r ∈ t.ins, ∀ u, lookup s.U (r.tx, r.off) = some u → u.frozen = r.frozen

/-- **undoing an admitted transaction restores every row of the UTXO table** -/
theorem undo_apply_U (e : Env) (s : St) (lh : Int) (t : Tx) (hadm : admitTx s lh t = .ok)
    (hfresh : ∀ o, lookup s.U (t.id, o) = none) (hself : ∀ r ∈ t.ins, r.tx ≠ t.id) (hfz : citesFrozen s t) :
    ∀ k, lookup (undoTx e (applyTx s t) t).U k = lookup s.U k := by
  intro k
  obtain ⟨hcur, hnd, _, _⟩ := XV.C03.admit_sound s lh t hadm
  unfold undoTx
  rw [undoOuts_lookup]
  simp only
  by_cases hk : k.1 = t.id
  · -- a key of this transaction: absent before (fresh) and after
    have hf : lookup s.U k = none := by
      have := hfresh k.2
      rw [← hk] at this
      simpa using this
    by_cases hm : materialises t.outs 0 k.2 = true
    · simp [hk, hm, hf]
    · simp only [hk, hm, Bool.false_eq_true, and_false, ↓reduceIte]
      rw [foldl_put_lookup _ _ _ hnd]
      have hnf : t.ins.find? (fun r => decide ((r.tx, r.off) = k)) = none := by
        apply List.find?_eq_none.mpr
        intro x hx
        have := hself x hx
        simp only [decide_eq_true_eq]
        intro e2
        exact this (by rw [← hk, ← e2])
      simp only [hnf]
      rw [(undoKOut_frame e t t.kout (applyTx s t)).1]
      unfold applyTx
      rw [applyOuts_lookup]
      simp only [hk, hm, Bool.false_eq_true, and_false, ↓reduceIte]
      rw [foldl_del_lookup, (applyKOut_frame t t.kout 0 s).1, hf]
      split <;> rfl
  · simp only [hk, false_and, ↓reduceIte]
    rw [foldl_put_lookup _ _ _ hnd, (undoKOut_frame e t t.kout (applyTx s t)).1]
    cases hfind : t.ins.find? (fun r => decide ((r.tx, r.off) = k)) with
    | some r =>
      simp only
      have hr := List.mem_of_find?_eq_some hfind
      have hrk : (r.tx, r.off) = k := by simpa using List.find?_some hfind
      obtain ⟨u, hu, ha, hamt, _, _, _⟩ := hcur r hr
      rw [← hrk, hu]
      have := hfz r hr u hu
      cases u; simp_all
    | none =>
      simp only
      unfold applyTx
      rw [applyOuts_lookup]
      simp only [hk, false_and, ↓reduceIte]
      rw [foldl_del_lookup, (applyKOut_frame t t.kout 0 s).1]
      have : k ∉ t.ins.map (fun r => (r.tx, r.off)) := by
        intro hm
        obtain ⟨x, hx, he⟩ := List.mem_map.mp hm
        have := List.find?_eq_none.mp hfind x hx
        simp [he] at this
      simp [this]

theorem applyOuts_total (t : Tx) (outs : List Out) (off : Nat) (s : St) :
    (applyOuts t outs off s).total = s.total + (if t.coinbase then paidOf outs else 0) := by
  induction outs generalizing off s with
  | nil => simp [applyOuts, paidOf]
  | cons o r ih =>
    unfold applyOuts
    rw [ih]
    unfold paidOf
    simp only [List.filter_cons]
    by_cases hz : (o.addr == "$" || o.amt == 0) = true
    · simp only [hz, ↓reduceIte]
      by_cases hd : (o.addr == "$") = true
      · simp [hd]
      · have : o.amt = 0 := by simpa [hd] using hz
        simp [hd, this]
    · have hd : (o.addr == "$") = false := by cases h : (o.addr == "$") <;> simp_all
      simp only [hz, Bool.false_eq_true, ↓reduceIte]
      simp only [hd, Bool.false_eq_true, ↓reduceIte, Bool.not_false, List.map_cons, List.sum_cons]
      by_cases hc : t.coinbase = true
      · simp only [hc, ↓reduceIte]; omega
      · simp only [hc, Bool.false_eq_true, ↓reduceIte]

theorem undoOuts_total (t : Tx) (outs : List Out) (off : Nat) (s : St) :
    (undoOuts t outs off s).total = s.total - (if t.coinbase then paidOf outs else 0) := by
  induction outs generalizing off s with
  | nil => simp [undoOuts, paidOf]
  | cons o r ih =>
    unfold undoOuts
    rw [ih]
    unfold paidOf
    simp only [List.filter_cons]
    by_cases hz : (o.addr == "$" || o.amt == 0) = true
    · simp only [hz, ↓reduceIte]
      by_cases hd : (o.addr == "$") = true
      · simp [hd]
      · have : o.amt = 0 := by simpa [hd] using hz
        simp [hd, this]
    · have hd : (o.addr == "$") = false := by cases h : (o.addr == "$") <;> simp_all
      simp only [hz, Bool.false_eq_true, ↓reduceIte]
      simp only [hd, Bool.false_eq_true, ↓reduceIte, Bool.not_false, List.map_cons, List.sum_cons]
      by_cases hc : t.coinbase = true
      · simp only [hc, ↓reduceIte]; omega
      · simp only [hc, Bool.false_eq_true, ↓reduceIte]

/-- **undoing a transaction restores the total supply** (coinbase + / −) — for every transaction, admitted or not -/
theorem undo_apply_total (e : Env) (s : St) (t : Tx) : (undoTx e (applyTx s t) t).total = s.total := by
  unfold undoTx applyTx
  rw [undoOuts_total]
  simp only
  rw [(undoKOut_frame e t t.kout _).2.1, applyOuts_total]
  simp only
  rw [(applyKOut_frame t t.kout 0 s).2.1]
  omega

/-- pointer, irreversible height and pool are untouched by apply + undo -/
theorem undo_apply_frame (e : Env) (s : St) (t : Tx) :
    (undoTx e (applyTx s t) t).pointer = s.pointer ∧ (undoTx e (applyTx s t) t).irrev = s.irrev ∧
    (undoTx e (applyTx s t) t).pool = s.pool := by
  obtain ⟨a1, a2, a3⟩ := applyTx_frame s t
  obtain ⟨u1, u2, u3⟩ := undoTx_frame e (applyTx s t) t
  exact ⟨u1.trans a1, u2.trans a2, u3.trans a3⟩

-- non-vacuity: a concrete admitted transfer with a zero output and a fee, undone: every row is back
example :
    let t : Tx := ⟨1, false, [⟨0, 0, "u0", 5, 0, false⟩], [⟨"u1", 3, 0⟩, ⟨"u2", 0, 0⟩, ⟨"$", 2, 0⟩], [], []⟩
    let s : St := { U := [((0, 0), ⟨"u0", 5, 0⟩)] }
    admitTx s 0 t = .ok ∧ (undoTx {} (applyTx s t) t).U = s.U := by decide

-- ================================================================== key tables (ZU / ZD)

/-- the keys a transaction writes are pairwise distinct (the sandbox produces one write per key) -/
def koutDistinct (t : Tx) : Prop := (t.kout.map (·.key)).Nodup
/-- the keys a transaction reads are pairwise distinct -/
def kinDistinct (t : Tx) : Prop := (t.kin.map (·.key)).Nodup

instance (t : Tx) : Decidable (koutDistinct t) := by unfold koutDistinct; exact inferInstance
instance (t : Tx) : Decidable (kinDistinct t) := by unfold kinDistinct; exact inferInstance

/-- **applying a transaction keeps the key tables well-formed** (`KVInv`, defined in Lemmas/UndoKeys.lean: a live
row never names a delete marker, a visible recycle row always does). Needs only that the environment knows `t`
under its own id; `koutDistinct` is listed for uniformity and is not used. -/
theorem applyTx_KVInv (e : Env) (s : St) (t : Tx) (hself : e.tx t.id = t) (_hnd : koutDistinct t)
    (hinv : KVInv e s) : KVInv e (applyTx s t) :=
  applyTx_KVInv' e s t hself hinv

/-- **undoing an admitted transaction restores the version of every key, as the reader `curVer` sees it.**
Observational: the raw recycle table ZD may have lost a stale marker that was hidden behind a live ZU row
(`undo_apply_rows` says exactly what holds for the raw tables). `e.tx t.id = t`, `KVInv` and `kinDistinct` are not
needed for this half (any read entry of a written key cites the same, current, version); they are kept in the
statement so that it is the conjunction asked for and are used by `undo_apply_rows` / `undo_apply_KVInv`. -/
theorem undo_apply_keys (e : Env) (s : St) (lh : Int) (t : Tx) (hadm : admitTx s lh t = .ok)
    (_hself : e.tx t.id = t) (_hinv : KVInv e s) (hnd : koutDistinct t) (_hkin : kinDistinct t) :
    ∀ key, curVer (undoTx e (applyTx s t) t) key = curVer s key := by
  obtain ⟨_, _, hread, hwr⟩ := XV.C03.admit_sound s lh t hadm
  exact undo_apply_curVer e s t hread hwr hnd

/-- raw tables after apply-then-undo of an admitted transaction on a well-formed state: the live table ZU is back
row by row; every row of the recycle table ZD that is there afterwards was there before (rows can only be lost, and
only behind a live ZU row — otherwise `undo_apply_keys` would fail) -/
theorem undo_apply_rows (e : Env) (s : St) (lh : Int) (t : Tx) (hadm : admitTx s lh t = .ok)
    (hinv : KVInv e s) (hnd : koutDistinct t) :
    ∀ key, lookup (undoTx e (applyTx s t) t).ZU key = lookup s.ZU key ∧
      ∀ m, lookup (undoTx e (applyTx s t) t).ZD key = some m → lookup s.ZD key = some m := by
  obtain ⟨_, _, hread, hwr⟩ := XV.C03.admit_sound s lh t hadm
  exact undo_apply_tables e s t hinv hread hwr hnd

/-- **well-formedness survives apply-then-undo** -/
theorem undo_apply_KVInv (e : Env) (s : St) (lh : Int) (t : Tx) (hadm : admitTx s lh t = .ok)
    (hinv : KVInv e s) (hnd : koutDistinct t) : KVInv e (undoTx e (applyTx s t) t) := by
  obtain ⟨_, _, hread, hwr⟩ := XV.C03.admit_sound s lh t hadm
  exact undo_apply_KVInv' e s t hinv hread hwr hnd

-- non-vacuity: key "a" live at (1,0), key "b" deleted (marker (2,0)), key "c" never written; the transaction
-- deletes "a", re-creates "b", creates "c" and only reads "d"; it is admitted, the state is well-formed, and after
-- undo every key reads as before
private def kvEnv : Env := { txs := [
  (1, ⟨1, false, [], [], [⟨"a", none⟩], [⟨"a", "x", false⟩]⟩),
  (2, ⟨2, false, [], [], [⟨"b", some (1, 1)⟩], [⟨"b", "", true⟩]⟩),
  (3, ⟨3, false, [], [], [⟨"a", some (1, 0)⟩, ⟨"b", some (2, 0)⟩, ⟨"c", none⟩, ⟨"d", none⟩],
       [⟨"a", "", true⟩, ⟨"b", "y", false⟩, ⟨"c", "z", false⟩]⟩)] }
private def kvSt : St := { ZU := [("a", (1, 0))], ZD := [("b", (2, 0))] }

example : admitTx kvSt 0 (kvEnv.tx 3) = .ok ∧ kvEnv.tx (kvEnv.tx 3).id = kvEnv.tx 3 ∧
    koutDistinct (kvEnv.tx 3) ∧ kinDistinct (kvEnv.tx 3) := by decide
example : KVInv kvEnv kvSt := by
  apply KVInv_of_rows <;> decide
example : ∀ key ∈ ["a", "b", "c", "d"],
    curVer (applyTx kvSt (kvEnv.tx 3)) key ≠ curVer kvSt key ∨ key = "d" := by decide
example : ∀ key ∈ ["a", "b", "c", "d"],
    curVer (undoTx kvEnv (applyTx kvSt (kvEnv.tx 3)) (kvEnv.tx 3)) key = curVer kvSt key := by decide
-- the raw recycle table is not restored in general: a stale marker hidden behind the live row of "a" is lost
example :
    let s : St := { ZU := [("a", (1, 0))], ZD := [("a", (9, 9))] }
    lookup (undoTx kvEnv (applyTx s (kvEnv.tx 3)) (kvEnv.tx 3)).ZD "a" = none ∧ lookup s.ZD "a" = some (9, 9) ∧
    curVer (undoTx kvEnv (applyTx s (kvEnv.tx 3)) (kvEnv.tx 3)) "a" = curVer s "a" := by decide

-- ================================================================== observational equivalence

/-- **`≈` (`Obs`, Lemmas/UndoObs.lean: same UTXO rows, same current version of every key, same total, pointer,
irreversible height and pool) is an equivalence relation** -/
theorem obs_equiv : (∀ s : St, s ≈ s) ∧ (∀ s s' : St, s ≈ s' → s' ≈ s) ∧
    (∀ a b c : St, a ≈ b → b ≈ c → a ≈ c) :=
  ⟨Obs.refl, fun _ _ h => Obs.symm h, fun _ _ _ h1 h2 => Obs.trans h1 h2⟩

/-- **admission cannot tell equivalent states apart** -/
theorem admission_congr (s s' : St) (lh : Int) (t : Tx) (h : s ≈ s') : admitTx s lh t = admitTx s' lh t :=
  admission_congr' s s' lh t h

/-- **applying a transaction respects `≈`** -/
theorem applyTx_congr (s s' : St) (t : Tx) (h : s ≈ s') : applyTx s t ≈ applyTx s' t :=
  applyTx_congr' s s' t h

/-- **undoing a transaction respects `≈`** on states where the undo is safe (`UndoSafe`: no recycle row under a key
that `t` cites as never written and writes without deleting — the only raw ZD read of `undoKOut`; it holds right
after `applyTx`, `undoSafe_applyTx`, and is inherited along `Refines`). Without it the statement is false:
`undoTx_congr_needs_safe` below. -/
theorem undoTx_congr (e : Env) (s s' : St) (t : Tx) (hnd : koutDistinct t)
    (h1 : UndoSafe s t) (h2 : UndoSafe s' t) (h : s ≈ s') : undoTx e s t ≈ undoTx e s' t :=
  undoTx_congr' e s s' t hnd h1 h2 h

/-- the unconditional congruence of `undoTx` for `≈` -/
def undoTx_congr_statement : Prop :=
  ∀ (e : Env) (s s' : St) (t : Tx), koutDistinct t → s ≈ s' → undoTx e s t ≈ undoTx e s' t

/-- **`payFee` respects `≈`** -/
theorem payFee_congr (t : Tx) (prop : String) (l : List Out) (off : Nat) (s s' : St) (h : s ≈ s') :
    payFee t prop l off s ≈ payFee t prop l off s' :=
  payFee_congr' t prop l off s s' h

/-- **`undoPayFee` respects `≈`** -/
theorem undoPayFee_congr (t : Tx) (l : List Out) (off : Nat) (s s' : St) (h : s ≈ s') :
    undoPayFee t l off s ≈ undoPayFee t l off s' :=
  undoPayFee_congr' t l off s s' h

-- non-vacuity: two states that differ in a hidden recycle row are equivalent, and stay so under the operations
private def obsA : St := { U := [((0, 0), ⟨"u0", 5, 0⟩)], ZU := [("a", (1, 0))], ZD := [("a", (9, 9)), ("b", (2, 0))] }
private def obsB : St := { U := [((0, 0), ⟨"u0", 5, 0⟩)], ZU := [("a", (1, 0))], ZD := [("b", (2, 0))] }

private theorem obsA_B : obsA ≈ obsB :=
  ⟨fun _ => rfl, fun key => by
    unfold curVer obsA obsB
    simp only [lookup]
    split <;> simp_all, rfl, rfl, rfl, rfl⟩

example : obsA ≈ obsB ∧ obsA.ZD ≠ obsB.ZD := ⟨obsA_B, by decide⟩
example : UndoSafe obsA (kvEnv.tx 3) ∧ UndoSafe obsB (kvEnv.tx 3) ∧ koutDistinct (kvEnv.tx 3) := by
  unfold UndoSafe; decide
example : undoTx kvEnv obsA (kvEnv.tx 3) ≈ undoTx kvEnv obsB (kvEnv.tx 3) :=
  undoTx_congr kvEnv obsA obsB (kvEnv.tx 3) (by decide) (by unfold UndoSafe; decide) (by unfold UndoSafe; decide) obsA_B

/-- the unconditional statement is false: transaction 1 of `kvEnv` creates "a" citing "never written"; undoing it
on `obsA` uncovers the stale marker (9,9), on `obsB` the key is gone -/
theorem undoTx_congr_needs_safe : ¬ undoTx_congr_statement := by
  intro h
  have := (h kvEnv obsA obsB (kvEnv.tx 1) (by decide) obsA_B).ver "a"
  revert this
  decide

-- ================================================================== fees

/-- **`undoPayFee` after `payFee` restores every row of the UTXO table** when the fee rows — (t.id, off + i) for
every output i to the placeholder "$" — were absent before -/
theorem undoPayFee_payFee (t : Tx) (prop : String) (outs : List Out) (off : Nat) (s : St)
    (habs : ∀ i o, outs[i]? = some o → (o.addr == "$") = true → lookup s.U (t.id, off + i) = none) :
    (∀ k, lookup (undoPayFee t outs off (payFee t prop outs off s)).U k = lookup s.U k) ∧
    undoPayFee t outs off (payFee t prop outs off s) ≈ s := by
  have hU := undoPayFee_payFee' t prop outs off s habs
  obtain ⟨_, _, a0, a1, a2, a3⟩ := undoPayFee_frame t outs off (payFee t prop outs off s)
  obtain ⟨_, _, b0, b1, b2, b3⟩ := payFee_frame t prop outs off s
  exact ⟨hU, ⟨hU, fun key => by rw [undoPayFee_curVer, payFee_curVer], a0.trans b0, a1.trans b1, a2.trans b2,
    a3.trans b3⟩⟩

-- non-vacuity: the transfer of the first example (fee 2 at offset 2) applied, fee paid to "miner", fee undone
example :
    let t : Tx := ⟨1, false, [⟨0, 0, "u0", 5, 0, false⟩], [⟨"u1", 3, 0⟩, ⟨"u2", 0, 0⟩, ⟨"$", 2, 0⟩], [], []⟩
    let s : St := applyTx { U := [((0, 0), ⟨"u0", 5, 0⟩)] } t
    (∀ i ∈ [0, 1, 2], ∀ o, t.outs[i]? = some o → (o.addr == "$") = true → lookup s.U (t.id, 0 + i) = none) ∧
    lookup (payFee t "miner" t.outs 0 s).U (1, 2) = some ⟨"miner", 2, 0⟩ ∧
    (undoPayFee t t.outs 0 (payFee t "miner" t.outs 0 s)).U = s.U := by decide

-- ================================================================== one block step and its undo

/-- **apply + fee, then undo + fee-undo, gives back the state** — as a refinement (`Refines`, Lemmas/UndoObs.lean:
observationally equal, same live key table row by row, no recycle row that was not there), for an admitted
transaction on a well-formed state -/
theorem undo_fee_apply_refines (e : Env) (r : St) (lh : Int) (t : Tx) (prop : String)
    (hadm : admitTx r lh t = .ok) (hinv : KVInv e r) (hnd : koutDistinct t)
    (hfresh : ∀ o, lookup r.U (t.id, o) = none) (hself : ∀ x ∈ t.ins, x.tx ≠ t.id) (hfz : citesFrozen r t) :
    Refines (undoPayFee t t.outs 0 (undoTx e (payFee t prop t.outs 0 (applyTx r t)) t)) r := by
  obtain ⟨_, _, hread, hwr⟩ := XV.C03.admit_sound r lh t hadm
  obtain ⟨f1, f2, f3, f4, f5, f6⟩ := payFee_frame t prop t.outs 0 (applyTx r t)
  obtain ⟨g1, g2, g3, g4, g5, g6⟩ := undoPayFee_frame t t.outs 0 (undoTx e (payFee t prop t.outs 0 (applyTx r t)) t)
  obtain ⟨k1, k2⟩ := undoTx_tables e t (payFee t prop t.outs 0 (applyTx r t)) (applyTx r t) f1 f2
  obtain ⟨u1, u2, u3⟩ := undoTx_frame e (payFee t prop t.outs 0 (applyTx r t)) t
  obtain ⟨a1, a2, a3⟩ := applyTx_frame r t
  refine ⟨⟨fun k => ?_, fun key => ?_, ?_, ?_, ?_, ?_⟩, fun k => ?_, fun k m => ?_⟩
  · by_cases hk : isFeeKey t t.outs 0 k
    · rw [undoPayFee_fee t t.outs 0 _ k hk]
      obtain ⟨i, o, _, _, h3⟩ := hk
      rw [h3]; exact (hfresh _).symm
    · rw [undoPayFee_nofee t t.outs 0 _ k hk,
        undoTx_U_congr e _ (applyTx r t) t k (payFee_nofee t prop t.outs 0 (applyTx r t) k hk)]
      exact undo_apply_U e r lh t hadm hfresh hself hfz k
  · rw [undoPayFee_curVer]
    exact (curVer_congr_tables _ _ _ (by rw [k1]) (by rw [k2])).trans (undo_apply_curVer e r t hread hwr hnd key)
  · exact g3.trans ((undoTx_total_congr e _ (applyTx r t) t f3).trans (undo_apply_total e r t))
  · exact g4.trans (u1.trans (f4.trans a1))
  · exact g5.trans (u2.trans (f5.trans a2))
  · exact g6.trans (u3.trans (f6.trans a3))
  · rw [g1, k1]; exact (undo_apply_tables e r t hinv hread hwr hnd k).1
  · rw [g2, k2]; exact (undo_apply_tables e r t hinv hread hwr hnd k).2 m

/-- the same undo step started from any state that refines (tables only) the state after the forward step -/
theorem undo_step_trefines (e : Env) (r : St) (lh : Int) (t : Tx) (prop : String) (x : St)
    (hadm : admitTx r lh t = .ok) (hinv : KVInv e r) (hnd : koutDistinct t)
    (hfresh : ∀ o, lookup r.U (t.id, o) = none) (hself : ∀ y ∈ t.ins, y.tx ≠ t.id) (hfz : citesFrozen r t)
    (hx : TRefines x (payFee t prop t.outs 0 (applyTx r t))) :
    TRefines (undoPayFee t t.outs 0 (undoTx e x t)) r := by
  obtain ⟨_, _, hread, hwr⟩ := XV.C03.admit_sound r lh t hadm
  obtain ⟨_, f2, _⟩ := payFee_frame t prop t.outs 0 (applyTx r t)
  have hsafe : UndoSafe (payFee t prop t.outs 0 (applyTx r t)) t :=
    undoSafe_of_ZD (applyTx r t) _ t f2 (undoSafe_applyTx r t hread hwr hnd)
  exact (undoPayFee_trefines t t.outs 0 _ _ (undoTx_trefines e x _ t hnd hsafe hx)).trans
    (undo_fee_apply_refines e r lh t prop hadm hinv hnd hfresh hself hfz).toT

-- ================================================================== a whole block

/-- static side conditions on a transaction id of a block: the environment knows the transaction under this id
(ids are hashes), no input cites the transaction itself, one write per key -/
structure TxWF (e : Env) (i : Nat) : Prop where
  id : (e.tx i).id = i
  self : ∀ r ∈ (e.tx i).ins, r.tx ≠ i
  kout : koutDistinct (e.tx i)

instance (e : Env) (i : Nat) : Decidable (TxWF e i) :=
  decidable_of_iff ((e.tx i).id = i ∧ (∀ r ∈ (e.tx i).ins, r.tx ≠ i) ∧ koutDistinct (e.tx i))
    ⟨fun ⟨a, b, c⟩ => ⟨a, b, c⟩, fun h => ⟨h.id, h.self, h.kout⟩⟩

/-- `citesFrozen` for every transaction of the block at its point of application (the state after the
transactions before it, fees paid) -/
def FrozenAlong (e : Env) (prop : String) : List Nat → St → Prop
  | [], _ => True
  | i :: rest, s => citesFrozen s (e.tx i) ∧ FrozenAlong e prop rest (blockStep e prop i s)

/-- the transaction loops of `todoBlock` and `undoBlock` cancel: undoing the transactions of a successfully applied
list, newest first, from any state that refines the result, refines the start state -/
theorem undoTxs_applyBlockTxs (e : Env) (lh : Int) (prop : String) (l : List Nat) (s s2 : St)
    (hfwd : applyBlockTxs e lh prop [] l s = some (s2, .ok))
    (hwf : ∀ i ∈ l, TxWF e i) (hnd : l.Nodup) (hfresh : ∀ i ∈ l, ∀ o, lookup s.U (i, o) = none)
    (hfz : FrozenAlong e prop l s) (hinv : KVInv e s) :
    ∀ x, TRefines x s2 → TRefines (undoTxs e l x) s := by
  induction l generalizing s with
  | nil =>
    intro x hx
    rw [applyBlockTxs_nil_ok e lh prop s s2 hfwd] at hx
    exact hx
  | cons i rest ih =>
    intro x hx
    obtain ⟨hadm, hrest⟩ := applyBlockTxs_cons_ok e lh prop i rest s s2 hfwd
    have wi := hwf i List.mem_cons_self
    have hid : e.tx (e.tx i).id = e.tx i := by rw [wi.id]
    simp only [List.nodup_cons] at hnd
    have hstep : TRefines (undoTxs e rest x) (blockStep e prop i s) := by
      apply ih (blockStep e prop i s) hrest (fun j hj => hwf j (List.mem_cons_of_mem _ hj)) hnd.2
      · intro j hj o
        apply blockStep_absent
        · rw [wi.id]; intro h; exact hnd.1 (h ▸ hj)
        · exact hfresh j (List.mem_cons_of_mem _ hj) o
      · exact hfz.2
      · exact blockStep_KVInv e prop i s hid hinv
      · exact hx
    rw [undoTxs_cons]
    exact undo_step_trefines e s lh (e.tx i) prop _ hadm hinv wi.kout
      (fun o => by rw [wi.id]; exact hfresh i List.mem_cons_self o)
      (fun y hy => by rw [wi.id]; exact wi.self y hy) hfz.1 hstep

/-- **undoing a block exactly cancels applying it.** If `todoBlock` applies `b` on `s` (all transactions admitted in
order) and: the environment knows every transaction of the block under its id, inputs never cite their own
transaction, one write per key (`TxWF`); the transaction ids of the block are distinct; none of their output rows
exists in `s`; every input cites the frozen height of the row it spends, at its point of application
(`FrozenAlong`); `s` is well-formed (`KVInv`) — then the non-pruning `undoBlock` of the result refines
(in particular: is observationally equal to) `s` with the pointer at the parent `b.pre.getD 0` and the
irreversible height where `todoBlock` put it: a non-pruning undo does NOT restore `irrev`. -/
theorem undoBlock_todoBlock (e : Env) (s s' : St) (lh : Int) (b : Block) (h : todoBlock e s lh b = some s')
    (hwf : ∀ i ∈ b.txs, TxWF e i) (hnd : b.txs.Nodup) (hfresh : ∀ i ∈ b.txs, ∀ o, lookup s.U (i, o) = none)
    (hfz : FrozenAlong e b.prop b.txs s) (hinv : KVInv e s) :
    Refines (undoBlock e s' b false)
      { s with pointer := b.pre.getD 0, irrev := nextIrrev e.window s.irrev b.height } := by
  unfold todoBlock at h
  split at h
  · cases h
  · split at h
    · rename_i s2 hfwd
      simp only [Option.some.injEq] at h
      subst h
      have hx : TRefines { s2 with pointer := b.id, irrev := nextIrrev e.window s.irrev b.height } s2 :=
        ⟨⟨fun _ => rfl, fun _ => rfl, rfl⟩, fun _ => rfl, fun _ _ hm => hm⟩
      have hT := undoTxs_applyBlockTxs e lh b.prop b.txs s s2 hfwd hwf hnd hfresh hfz hinv _ hx
      have hpool : (undoTxs e b.txs
          { s2 with pointer := b.id, irrev := nextIrrev e.window s.irrev b.height }).pool = s.pool := by
        rw [(undoTxs_frame e b.txs _).2.2, applyBlockTxs_ok_eq e lh b.prop b.txs s s2 hfwd]
        exact (replayTxs_frame e b.prop b.txs s).2.2
      rw [undoBlock_eq]
      exact ⟨⟨hT.obs.U, hT.obs.ver, hT.obs.total, rfl, rfl, hpool⟩, hT.ZU, hT.ZD⟩
    · cases h

/-- the observational form: same rows, key versions, total and pool as before the block; pointer at the parent -/
theorem undoBlock_todoBlock_obs (e : Env) (s s' : St) (lh : Int) (b : Block) (h : todoBlock e s lh b = some s')
    (hwf : ∀ i ∈ b.txs, TxWF e i) (hnd : b.txs.Nodup) (hfresh : ∀ i ∈ b.txs, ∀ o, lookup s.U (i, o) = none)
    (hfz : FrozenAlong e b.prop b.txs s) (hinv : KVInv e s) :
    undoBlock e s' b false ≈ { s with pointer := b.pre.getD 0, irrev := nextIrrev e.window s.irrev b.height } :=
  (undoBlock_todoBlock e s s' lh b h hwf hnd hfresh hfz hinv).obs

/-- when the block extends the current tip (`b.pre = some s.pointer`, as for every block a walk applies) the state is
back up to the irreversible height, and the result is again well-formed -/
theorem undoBlock_todoBlock_tip (e : Env) (s s' : St) (lh : Int) (b : Block) (h : todoBlock e s lh b = some s')
    (hpre : b.pre = some s.pointer)
    (hwf : ∀ i ∈ b.txs, TxWF e i) (hnd : b.txs.Nodup) (hfresh : ∀ i ∈ b.txs, ∀ o, lookup s.U (i, o) = none)
    (hfz : FrozenAlong e b.prop b.txs s) (hinv : KVInv e s) :
    undoBlock e s' b false ≈ { s with irrev := nextIrrev e.window s.irrev b.height } ∧
    KVInv e (undoBlock e s' b false) := by
  have hR := undoBlock_todoBlock e s s' lh b h hwf hnd hfresh hfz hinv
  constructor
  · have := hR.obs
    rw [hpre] at this
    exact this
  · exact hR.KVInv (KVInv_of_tables e s _ hinv rfl rfl)

instance (s : St) (t : Tx) : Decidable (citesFrozen s t) := by unfold citesFrozen; exact inferInstance

instance decFrozenAlong (e : Env) (prop : String) : (l : List Nat) → (s : St) → Decidable (FrozenAlong e prop l s)
  | [], _ => isTrue trivial
  | i :: rest, s =>
    have := decFrozenAlong e prop rest (blockStep e prop i s)
    by unfold FrozenAlong; exact inferInstance

-- non-vacuity: a block with an award, a transfer with a fee that deletes key "a" and creates key "c", and a
-- transfer that spends an output of the former and overwrites "c"; slide window 2, block height 3
private def blkEnv : Env := { window := 2, txs := [
  (1, ⟨1, false, [], [], [⟨"a", none⟩], [⟨"a", "x", false⟩]⟩),
  (10, ⟨10, true, [], [⟨"miner", 10, 0⟩], [], []⟩),
  (11, ⟨11, false, [⟨0, 0, "u0", 5, 0, false⟩], [⟨"u1", 3, 0⟩, ⟨"$", 2, 0⟩],
        [⟨"a", some (1, 0)⟩, ⟨"c", none⟩], [⟨"a", "", true⟩, ⟨"c", "z", false⟩]⟩),
  (12, ⟨12, false, [⟨11, 0, "u1", 3, 0, false⟩], [⟨"u2", 3, 0⟩], [⟨"c", some (11, 1)⟩], [⟨"c", "w", false⟩]⟩)] }
private def blkB : Block := ⟨5, some 4, 3, [10, 11, 12], "miner"⟩
private def blkSt : St := { U := [((0, 0), ⟨"u0", 5, 0⟩)], ZU := [("a", (1, 0))], total := 5, pointer := 4 }

example : (todoBlock blkEnv blkSt 0 blkB).isSome = true ∧ blkB.txs.Nodup ∧
    FrozenAlong blkEnv blkB.prop blkB.txs blkSt ∧ blkB.pre = some blkSt.pointer := by decide
example : ∀ i ∈ blkB.txs, TxWF blkEnv i := by
  intro i hi
  simp only [blkB, List.mem_cons, List.not_mem_nil, or_false] at hi
  rcases hi with rfl | rfl | rfl <;> exact ⟨by decide, by decide, by decide⟩
example : ∀ i ∈ blkB.txs, ∀ o, lookup blkSt.U (i, o) = none := by
  intro i hi o
  simp only [blkB, List.mem_cons, List.not_mem_nil, or_false] at hi
  rcases hi with rfl | rfl | rfl <;> simp [blkSt, lookup]
example : KVInv blkEnv blkSt := by apply KVInv_of_rows <;> decide
-- and the conclusion, computed: the block changes rows, keys, total, pointer, irrev; the undo restores all but irrev
example :
    let s' := (todoBlock blkEnv blkSt 0 blkB).getD {}
    (todoBlock blkEnv blkSt 0 blkB).isSome = true ∧
      s'.pointer = 5 ∧ s'.total = 15 ∧ s'.irrev = 1 ∧ curVer s' "a" = some (11, 0) ∧ curVer s' "c" = some (12, 0) ∧
      lookup s'.U (11, 1) = some ⟨"miner", 2, 0⟩ ∧
      (undoBlock blkEnv s' blkB false).U = blkSt.U ∧ (undoBlock blkEnv s' blkB false).total = 5 ∧
      (undoBlock blkEnv s' blkB false).pointer = 4 ∧ (undoBlock blkEnv s' blkB false).irrev = 1 ∧
      curVer (undoBlock blkEnv s' blkB false) "a" = some (1, 0) ∧
      curVer (undoBlock blkEnv s' blkB false) "c" = none := by decide

-- ================================================================== the block tree and walks

/-- **`ancestors` is a chain of parent links**: consecutive elements `x, y` satisfy `(e.block x).pre = some y`
(`Linked`, Lemmas/UndoWalk.lean), and the chain starts at the block itself -/
theorem ancestors_chain (e : Env) (fuel b : Nat) :
    Linked e (ancestors e fuel b) ∧ (0 < fuel → (ancestors e fuel b).head? = some b) := by
  refine ⟨ancestors_linked e fuel b, fun h => ?_⟩
  obtain ⟨n, rfl⟩ : ∃ n, fuel = n + 1 := ⟨fuel - 1, by omega⟩
  rw [ancestors_succ]; rfl

/-- **what `undoTodo` (`FindUndoAndTodoBlocks`) returns**, in a block tree whose parent links go strictly down in
height (`ParentLower`): with `ca` / `da` the ancestor chains of the tip and of the destination,
no block to undo is an ancestor of the destination, no block to apply is an ancestor of the tip, and either the
chains are disjoint (everything is undone / applied) or both split at one block `lca`, the lowest common ancestor
(every common ancestor is at most as high): `ca = undo ++ lca :: _` — `undo` is the part of the tip's chain strictly
above `lca`, newest first — and `da = todo.reverse ++ lca :: _` — `todo` is the part of the destination's chain
strictly above `lca`, oldest first. Both chains are parent-linked (`ancestors_chain`). -/
theorem undoTodo_spec (e : Env) (cur dest : Nat) (hpl : ParentLower e) :
    (∀ x ∈ (undoTodo e cur dest).1, x ∉ ancestors e (e.blocks.length + 1) dest) ∧
    (∀ x ∈ (undoTodo e cur dest).2, x ∉ ancestors e (e.blocks.length + 1) cur) ∧
    ((ancestors e (e.blocks.length + 1) cur = (undoTodo e cur dest).1 ∧
      ancestors e (e.blocks.length + 1) dest = (undoTodo e cur dest).2.reverse ∧
      ∀ x ∈ ancestors e (e.blocks.length + 1) cur, x ∉ ancestors e (e.blocks.length + 1) dest) ∨
     ∃ lca r1 r2,
      ancestors e (e.blocks.length + 1) cur = (undoTodo e cur dest).1 ++ lca :: r1 ∧
      ancestors e (e.blocks.length + 1) dest = (undoTodo e cur dest).2.reverse ++ lca :: r2 ∧
      ∀ x, x ∈ ancestors e (e.blocks.length + 1) cur → x ∈ ancestors e (e.blocks.length + 1) dest →
        (e.block x).height ≤ (e.block lca).height) :=
  undoTodo_split e cur dest hpl

/-- **a walk that reports success ends at its destination**: in a block tree whose parent links go strictly down in
height, for a destination the environment knows under its own id, the pointer after a successful non-pruning
`walk` is `dest` — whether the walk only undid, only applied, did both, or had nothing to do -/
theorem walk_reaches (e : Env) (s : St) (lh : Int) (dest : Nat) (hpl : ParentLower e)
    (hid : (e.block dest).id = dest) (hok : (walk e s lh dest false).2 = true) :
    (walk e s lh dest false).1.pointer = dest := by
  have htgt := undoTodo_target e s.pointer dest hpl
  unfold walk at hok ⊢
  simp only at hok ⊢
  have h0 : ({ (s.pool.reverse.foldl (fun st i => undoTx e st (e.tx i)) s) with pool := [] } : St).pointer = s.pointer :=
    foldl_undoTx_pointer e s.pool.reverse s
  generalize hs0 : ({ (s.pool.reverse.foldl (fun st i => undoTx e st (e.tx i)) s) with pool := [] } : St) = s0
    at h0 hok ⊢
  have hu := undoAll_pointer e (undoTodo e s.pointer dest).1 s0
  generalize hua : walk.undoAll e false (undoTodo e s.pointer dest).1 s0 = ua at hu hok ⊢
  obtain ⟨s1, ok1⟩ := ua
  simp only at hu
  by_cases hok1 : ok1 = true
  · simp only [hok1, Bool.not_true, Bool.false_eq_true, ↓reduceIte] at hok ⊢
    have ht := todoAll_pointer e lh (undoTodo e s.pointer dest).2 s1
    generalize hta : walk.todoAll e lh (undoTodo e s.pointer dest).2 s1 = ta at ht hok ⊢
    obtain ⟨s2, ok2⟩ := ta
    simp only at ht
    by_cases hok2 : ok2 = true
    · simp only [hok2, Bool.not_true, Bool.false_eq_true, ↓reduceIte] at hok ⊢
      rw [foldl_doTx_pointer, ht hok2]
      cases hl : (undoTodo e s.pointer dest).2.getLast? with
      | some bi =>
        simp only [hl] at htgt ⊢
        rw [htgt, hid]
      | none =>
        simp only [hl] at htgt ⊢
        rw [hu hok1]
        cases hg : (undoTodo e s.pointer dest).1.getLast? with
        | some u => simp only [hg] at htgt ⊢; rw [htgt]; rfl
        | none => simp only [hg] at htgt ⊢; rw [h0, htgt]
    · simp [hok2] at hok
  · simp [hok1] at hok

/-- the same for both values of the prune flag -/
theorem walk_reaches_any (e : Env) (s : St) (lh : Int) (dest : Nat) (prune : Bool) (hpl : ParentLower e)
    (hid : (e.block dest).id = dest) (hok : (walk e s lh dest prune).2 = true) :
    (walk e s lh dest prune).1.pointer = dest := by
  have htgt := undoTodo_target e s.pointer dest hpl
  unfold walk at hok ⊢
  simp only at hok ⊢
  have h0 : ({ (s.pool.reverse.foldl (fun st i => undoTx e st (e.tx i)) s) with pool := [] } : St).pointer = s.pointer :=
    foldl_undoTx_pointer e s.pool.reverse s
  generalize hs0 : ({ (s.pool.reverse.foldl (fun st i => undoTx e st (e.tx i)) s) with pool := [] } : St) = s0
    at h0 hok ⊢
  have hu := undoAll_pointer' e prune (undoTodo e s.pointer dest).1 s0
  generalize hua : walk.undoAll e prune (undoTodo e s.pointer dest).1 s0 = ua at hu hok ⊢
  obtain ⟨s1, ok1⟩ := ua
  simp only at hu
  by_cases hok1 : ok1 = true
  · simp only [hok1, Bool.not_true, Bool.false_eq_true, ↓reduceIte] at hok ⊢
    have ht := todoAll_pointer e lh (undoTodo e s.pointer dest).2 s1
    generalize hta : walk.todoAll e lh (undoTodo e s.pointer dest).2 s1 = ta at ht hok ⊢
    obtain ⟨s2, ok2⟩ := ta
    simp only at ht
    by_cases hok2 : ok2 = true
    · simp only [hok2, Bool.not_true, Bool.false_eq_true, ↓reduceIte] at hok ⊢
      rw [foldl_doTx_pointer, ht hok2]
      cases hl : (undoTodo e s.pointer dest).2.getLast? with
      | some bi =>
        simp only [hl] at htgt ⊢
        rw [htgt, hid]
      | none =>
        simp only [hl] at htgt ⊢
        rw [hu hok1]
        cases hg : (undoTodo e s.pointer dest).1.getLast? with
        | some u => simp only [hg] at htgt ⊢; rw [htgt]; rfl
        | none => simp only [hg] at htgt ⊢; rw [h0, htgt]
    · simp [hok2] at hok
  · simp [hok1] at hok


-- non-vacuity: a tree 1 ← 2 ← 3 and 2 ← 4 ← 5 (heights 1 2 3 / 3 4), empty blocks; the tip is 3
private def treeEnv : Env := { blocks := [
  (1, ⟨1, none, 1, [], "m"⟩), (2, ⟨2, some 1, 2, [], "m"⟩), (3, ⟨3, some 2, 3, [], "m"⟩),
  (4, ⟨4, some 2, 3, [], "m"⟩), (5, ⟨5, some 4, 4, [], "m"⟩)] }

example : ancestors treeEnv 6 5 = [5, 4, 2, 1] ∧ undoTodo treeEnv 3 5 = ([3], [4, 5]) := by decide

private theorem treeEnv_lower : ParentLower treeEnv := parentLower_of_blocks _ (by decide)

example : ParentLower treeEnv ∧ (treeEnv.block 5).id = 5 ∧
    (walk treeEnv { pointer := 3 } 0 5 false).2 = true ∧ (walk treeEnv { pointer := 3 } 0 5 false).1.pointer = 5 ∧
    (walk treeEnv { pointer := 5 } 0 2 false).2 = true ∧ (walk treeEnv { pointer := 5 } 0 2 false).1.pointer = 2 :=
  ⟨treeEnv_lower, by decide, by decide, by decide, by decide, by decide⟩

-- ================================================================== chains of blocks, the pool, and walks

/-- apply-then-undo without the fee step (a pool transaction): refinement of the state before -/
theorem undo_apply_refines (e : Env) (r : St) (lh : Int) (t : Tx)
    (hadm : admitTx r lh t = .ok) (hinv : KVInv e r) (hnd : koutDistinct t)
    (hfresh : ∀ o, lookup r.U (t.id, o) = none) (hself : ∀ x ∈ t.ins, x.tx ≠ t.id) (hfz : citesFrozen r t) :
    Refines (undoTx e (applyTx r t) t) r := by
  obtain ⟨_, _, hread, hwr⟩ := XV.C03.admit_sound r lh t hadm
  obtain ⟨f1, f2, f3⟩ := undo_apply_frame e r t
  exact ⟨⟨undo_apply_U e r lh t hadm hfresh hself hfz, undo_apply_curVer e r t hread hwr hnd,
    undo_apply_total e r t, f1, f2, f3⟩,
    fun k => (undo_apply_tables e r t hinv hread hwr hnd k).1,
    fun k m => (undo_apply_tables e r t hinv hread hwr hnd k).2 m⟩

/-- side conditions on the pending transactions, each at its point of application: admitted at some ledger height,
known under its id / no self-citing input / one write per key, output rows fresh, inputs cite the frozen height -/
def PoolValid (e : Env) : List Nat → St → Prop
  | [], _ => True
  | i :: rest, s => (∃ lh, admitTx s lh (e.tx i) = .ok) ∧ TxWF e i ∧ (∀ o, lookup s.U (i, o) = none) ∧
      citesFrozen s (e.tx i) ∧ PoolValid e rest (applyTx s (e.tx i))

/-- **rolling the pool back cancels its applications** (`walk` step 1): from any state that refines the base state
with the pool applied, the roll-back (newest first) refines the base state -/
theorem rollback_applyPool (e : Env) (l : List Nat) (s : St) (hv : PoolValid e l s) (hinv : KVInv e s) :
    ∀ x, TRefines x (applyPool e l s) → TRefines (rollback e l x) s := by
  induction l generalizing s with
  | nil => intro x hx; exact hx
  | cons i rest ih =>
    intro x hx
    obtain ⟨⟨lh, hadm⟩, wi, hfresh, hfz, hrest⟩ := hv
    have hid : e.tx (e.tx i).id = e.tx i := by rw [wi.id]
    obtain ⟨_, _, hread, hwr⟩ := XV.C03.admit_sound s lh (e.tx i) hadm
    rw [applyPool_cons] at hx
    have h1 := ih (applyTx s (e.tx i)) hrest (applyTx_KVInv' e s (e.tx i) hid hinv) x hx
    rw [rollback_cons]
    exact (undoTx_trefines e _ _ (e.tx i) wi.kout (undoSafe_applyTx s (e.tx i) hread hwr wi.kout) h1).trans
      (undo_apply_refines e s lh (e.tx i) hadm hinv wi.kout (fun o => by rw [wi.id]; exact hfresh o)
        (fun y hy => by rw [wi.id]; exact wi.self y hy) hfz).toT

/-- the hypotheses of `undoBlock_todoBlock` for block `b` on state `r`, with the ledger height of the admission
left open (the result of a successful application does not depend on it) -/
structure BlockValid (e : Env) (r : St) (b : Block) : Prop where
  fwd : ∃ lh s2, applyBlockTxs e lh b.prop [] b.txs r = some (s2, .ok)
  wf : ∀ i ∈ b.txs, TxWF e i
  nodup : b.txs.Nodup
  fresh : ∀ i ∈ b.txs, ∀ o, lookup r.U (i, o) = none
  frozen : FrozenAlong e b.prop b.txs r

/-- `BlockValid` for every block of a chain (oldest first), each on the replay of the blocks before it -/
def ChainValid (e : Env) : List Nat → St → Prop
  | [], _ => True
  | bi :: rest, r => BlockValid e r (e.block bi) ∧ ChainValid e rest (replayBlock e r (e.block bi))

theorem chainValid_snoc (e : Env) (l : List Nat) (bi : Nat) (r : St) (h : ChainValid e (l ++ [bi]) r) :
    ChainValid e l r ∧ BlockValid e (replayChain e l r) (e.block bi) := by
  induction l generalizing r with
  | nil => exact ⟨trivial, h.1⟩
  | cons b0 rest ih =>
    obtain ⟨h1, h2⟩ := h
    obtain ⟨i1, i2⟩ := ih _ h2
    exact ⟨⟨h1, i1⟩, i2⟩

theorem replayChain_KVInv (e : Env) (l : List Nat) (r : St) (hv : ChainValid e l r) (hinv : KVInv e r) :
    KVInv e (replayChain e l r) := by
  induction l generalizing r with
  | nil => exact hinv
  | cons bi rest ih =>
    rw [replayChain_cons]
    exact ih _ hv.2 (replayBlock_KVInv e (e.block bi) r (fun i hi => by rw [(hv.1.wf i hi).id]) hinv)

/-- **undoing a block from any state that refines its replay refines the state before the block** -/
theorem undoBlock_replayBlock (e : Env) (r : St) (b : Block) (prune : Bool) (hv : BlockValid e r b)
    (hinv : KVInv e r) (x : St) (hx : TRefines x (replayBlock e r b)) : TRefines (undoBlock e x b prune) r := by
  obtain ⟨lh, s2, hfwd⟩ := hv.fwd
  have hx2 : TRefines x s2 := by
    rw [applyBlockTxs_ok_eq e lh b.prop b.txs r s2 hfwd]
    exact hx.of_tables ⟨rfl, rfl, rfl, rfl⟩ ⟨rfl, rfl, rfl, rfl⟩
  have := undoTxs_applyBlockTxs e lh b.prop b.txs r s2 hfwd hv.wf hv.nodup hv.fresh hv.frozen hinv x hx2
  rw [undoBlock_eq]
  exact this.of_tables ⟨rfl, rfl, rfl, rfl⟩ ⟨rfl, rfl, rfl, rfl⟩

/-- **the undo loop of `walk` cancels a replayed chain**: if it completes on a state that refines the replay of the
undone blocks (given newest first, as `undoTodo` lists them) on `r`, the result refines `r` -/
theorem undoAll_replayChain (e : Env) (prune : Bool) (undo : List Nat) :
    ∀ (r x : St), ChainValid e undo.reverse r → KVInv e r → TRefines x (replayChain e undo.reverse r) →
      (walk.undoAll e prune undo x).2 = true → TRefines (walk.undoAll e prune undo x).1 r := by
  induction undo with
  | nil => intro r x _ _ hx _; exact hx
  | cons bi rest ih =>
    intro r x hv hinv hx hok
    rw [List.reverse_cons] at hv hx
    obtain ⟨hv1, hv2⟩ := chainValid_snoc e rest.reverse bi r hv
    rw [replayChain_snoc] at hx
    have hstep := undoBlock_replayBlock e _ (e.block bi) prune hv2 (replayChain_KVInv e _ r hv1 hinv) x hx
    have hdef : walk.undoAll e prune (bi :: rest) x =
        if (!prune && decide (((e.block bi).height : Int) ≤ x.irrev)) = true then (x, false)
        else walk.undoAll e prune rest (undoBlock e x (e.block bi) prune) := by
      rw [walk.undoAll]
    rw [hdef] at hok ⊢
    by_cases hc : (!prune && decide (((e.block bi).height : Int) ≤ x.irrev)) = true
    · rw [if_pos hc] at hok; cases hok
    · rw [if_neg hc] at hok ⊢
      exact ih r _ hv1 hinv hstep hok

theorem undoAll_pool (e : Env) (prune : Bool) (l : List Nat) :
    ∀ (st : St), (walk.undoAll e prune l st).1.pool = st.pool := by
  induction l with
  | nil => intro st; rfl
  | cons bi rest ih =>
    intro st
    rw [walk.undoAll]
    split
    · rfl
    · rw [ih, undoBlock_eq]
      exact (undoTxs_frame e (e.block bi).txs st).2.2

theorem replayChain_pool (e : Env) (l : List Nat) (s : St) : (replayChain e l s).pool = s.pool := by
  induction l generalizing s with
  | nil => rfl
  | cons bi rest ih =>
    rw [replayChain_cons, ih]
    exact (replayTxs_frame e (e.block bi).prop (e.block bi).txs s).2.2

/-- the block part of a successful walk (`walkCore`: roll-back of the pool, undo loop, apply loop) lands on the replay of
the destination's branch, with an empty pool — `walk_refines` before the re-admission -/
theorem walkCore_refines (e : Env) (s : St) (lh : Int) (dest : Nat) (prune : Bool) (r : St)
    (hok : (XV.Crash.walkCore e s lh dest prune).2 = true) (hinv : KVInv e r)
    (hchain : ChainValid e (undoTodo e s.pointer dest).1.reverse r)
    (hpool : PoolValid e s.pool (replayChain e (undoTodo e s.pointer dest).1.reverse r))
    (hs : TRefines s (applyPool e s.pool (replayChain e (undoTodo e s.pointer dest).1.reverse r))) :
    TRefines (XV.Crash.walkCore e s lh dest prune).1 (replayChain e (undoTodo e s.pointer dest).2 r) ∧
    (XV.Crash.walkCore e s lh dest prune).1.pool = [] := by
  have hR := replayChain_KVInv e _ r hchain hinv
  have hroll := rollback_applyPool e s.pool _ hpool hR s hs
  unfold XV.Crash.walkCore XV.Crash.rolledBack at hok ⊢
  simp only at hok ⊢
  have h0 : TRefines ({ (s.pool.reverse.foldl (fun st i => undoTx e st (e.tx i)) s) with pool := [] } : St)
      (replayChain e (undoTodo e s.pointer dest).1.reverse r) :=
    hroll.of_tables ⟨rfl, rfl, rfl, rfl⟩ ⟨rfl, rfl, rfl, rfl⟩
  have hp0 : ({ (s.pool.reverse.foldl (fun st i => undoTx e st (e.tx i)) s) with pool := [] } : St).pool = [] := rfl
  generalize hs0 : ({ (s.pool.reverse.foldl (fun st i => undoTx e st (e.tx i)) s) with pool := [] } : St) = s0
    at h0 hp0 hok ⊢
  have hu := undoAll_replayChain e prune (undoTodo e s.pointer dest).1 r s0 hchain hinv h0
  have hup := undoAll_pool e prune (undoTodo e s.pointer dest).1 s0
  generalize hua : walk.undoAll e prune (undoTodo e s.pointer dest).1 s0 = ua at hu hup hok ⊢
  obtain ⟨s1, ok1⟩ := ua
  simp only at hu hup
  by_cases hok1 : ok1 = true
  · simp only [hok1, Bool.not_true, Bool.false_eq_true, ↓reduceIte] at hok ⊢
    have ht := todoAll_eq e lh (undoTodo e s.pointer dest).2 s1
    generalize hta : walk.todoAll e lh (undoTodo e s.pointer dest).2 s1 = ta at ht hok ⊢
    obtain ⟨s2, ok2⟩ := ta
    simp only at ht hok ⊢
    refine ⟨?_, ?_⟩
    · rw [ht hok]
      exact replayChain_trefines e _ s1 r (hu hok1)
    · rw [ht hok, replayChain_pool, hup, hp0]
  · simp [hok1] at hok

/-- after a successful walk the block part stands on the destination -/
theorem walkCore_reaches (e : Env) (s : St) (lh : Int) (dest : Nat) (prune : Bool) (hpl : ParentLower e)
    (hid : (e.block dest).id = dest) (hok : (XV.Crash.walkCore e s lh dest prune).2 = true) :
    (XV.Crash.walkCore e s lh dest prune).1.pointer = dest := by
  have hw : (walk e s lh dest prune).2 = true := by rw [XV.Crash.walk_ok_iff_core]; exact hok
  have := walk_reaches_any e s lh dest prune hpl hid hw
  rw [XV.Crash.walk_eq_core, if_pos hok] at this
  simp only at this
  rw [foldl_doTx_pointer] at this
  exact this

/-- **a successful walk lands on the replay of the destination's branch.** Let `(undo, todo) = undoTodo` (so, by
`undoTodo_spec`, `undo.reverse` / `todo` are the branches of the tip / of the destination above their lowest common
ancestor, oldest first). If the state refines "`r`, then the blocks of `undo.reverse` replayed, then the pool
applied" — `r` playing the role of the state at the common ancestor —, the undone branch and the pool satisfy the
side conditions of the block / transaction theorems (`ChainValid`, `PoolValid`), `r` is well-formed, and the
walk (pruning or not) reports success, then the walk's result is: a state `s2` with an empty pool that refines
"`r`, then the blocks of `todo` replayed", followed by the re-admission of the old pool (`doTx`, oldest first; after the
repair of `recoverUnconfirmedTx` this is `repostList e s`: the old pool without the transactions of `e.skipRepost`, which
the ledger records as confirmed on the chain walked to — the statement formerly said `s.pool`).
In particular (`TRefines`): every UTXO row, the current version of every key and the total after the walk are those
of a replay of the destination branch from the common ancestor — independent of the branch the node came from. -/
theorem walk_refines (e : Env) (s : St) (lh : Int) (dest : Nat) (prune : Bool) (r : St)
    (hok : (walk e s lh dest prune).2 = true) (hinv : KVInv e r)
    (hchain : ChainValid e (undoTodo e s.pointer dest).1.reverse r)
    (hpool : PoolValid e s.pool (replayChain e (undoTodo e s.pointer dest).1.reverse r))
    (hs : TRefines s (applyPool e s.pool (replayChain e (undoTodo e s.pointer dest).1.reverse r))) :
    ∃ s2, TRefines s2 (replayChain e (undoTodo e s.pointer dest).2 r) ∧ s2.pool = [] ∧
      (walk e s lh dest prune).1 = (repostList e s).foldl (fun st i => (doTx e st lh i).1) s2 := by
  have hokc : (XV.Crash.walkCore e s lh dest prune).2 = true := by rw [← XV.Crash.walk_ok_iff_core]; exact hok
  obtain ⟨t1, t2⟩ := walkCore_refines e s lh dest prune r hokc hinv hchain hpool hs
  refine ⟨_, t1, t2, ?_⟩
  rw [XV.Crash.walk_eq_core, if_pos hokc]

/-- with an empty pool the walk's result itself refines the replay of the destination branch -/
theorem walk_refines_nopool (e : Env) (s : St) (lh : Int) (dest : Nat) (prune : Bool) (r : St)
    (hok : (walk e s lh dest prune).2 = true) (hinv : KVInv e r) (hp : s.pool = [])
    (hchain : ChainValid e (undoTodo e s.pointer dest).1.reverse r)
    (hs : TRefines s (replayChain e (undoTodo e s.pointer dest).1.reverse r)) :
    TRefines (walk e s lh dest prune).1 (replayChain e (undoTodo e s.pointer dest).2 r) := by
  obtain ⟨s2, h1, _, h3⟩ := walk_refines e s lh dest prune r hok hinv hchain
    (by rw [hp]; trivial) (by rw [hp]; exact hs)
  rw [h3, repostList_of_pool_nil e s hp]
  exact h1

-- non-vacuity of `walk_refines`: blocks 2 and 3 are both children of block 1; block 2 = award 20 + transfer 21 (which
-- creates key "k" and pays a fee), block 3 = award 30 + transfer 31 (spends the same output, creates key "j");
-- the node is at block 2 with transaction 22 (spends an output of 21, overwrites "k") pending, and walks to 3
private def wkEnv : Env := {
  txs := [
    (20, ⟨20, true, [], [⟨"m2", 10, 0⟩], [], []⟩),
    (21, ⟨21, false, [⟨0, 0, "u0", 5, 0, false⟩], [⟨"u1", 4, 0⟩, ⟨"$", 1, 0⟩], [⟨"k", none⟩], [⟨"k", "a", false⟩]⟩),
    (22, ⟨22, false, [⟨21, 0, "u1", 4, 0, false⟩], [⟨"u2", 4, 0⟩], [⟨"k", some (21, 0)⟩], [⟨"k", "b", false⟩]⟩),
    (30, ⟨30, true, [], [⟨"m3", 10, 0⟩], [], []⟩),
    (31, ⟨31, false, [⟨0, 0, "u0", 5, 0, false⟩], [⟨"u3", 5, 0⟩], [⟨"j", none⟩], [⟨"j", "c", false⟩]⟩)],
  blocks := [(1, ⟨1, none, 1, [], "m1"⟩), (2, ⟨2, some 1, 2, [20, 21], "m2"⟩), (3, ⟨3, some 1, 2, [30, 31], "m3"⟩)] }
/-- the state at block 1 -/
private def wkR : St := { U := [((0, 0), ⟨"u0", 5, 0⟩)], total := 5, pointer := 1 }
/-- the node: block 2 replayed on it, transaction 22 applied and pending -/
private def wkS : St := { applyPool wkEnv [22] (replayChain wkEnv [2] wkR) with pool := [22] }

example : undoTodo wkEnv wkS.pointer 3 = ([2], [3]) ∧ wkS.pool = [22] ∧
    (walk wkEnv wkS 0 3 false).2 = true := by decide
example : KVInv wkEnv wkR := KVInv_empty wkEnv wkR rfl rfl
example : TRefines wkS (applyPool wkEnv [22] (replayChain wkEnv [2] wkR)) :=
  (TRefines.refl _).of_tables ⟨rfl, rfl, rfl, rfl⟩ ⟨rfl, rfl, rfl, rfl⟩
example : ChainValid wkEnv [2] wkR := by
  refine ⟨⟨⟨0, fwd_of_res _ _ _ _ _ (by decide)⟩, ?_, by decide, ?_, by decide⟩, trivial⟩
  · intro i hi
    have : i = 20 ∨ i = 21 := by simpa [wkEnv, Env.block, lookup] using hi
    rcases this with rfl | rfl <;> exact ⟨by decide, by decide, by decide⟩
  · intro i hi
    have : i = 20 ∨ i = 21 := by simpa [wkEnv, Env.block, lookup] using hi
    rcases this with rfl | rfl <;> exact absent_of_rows _ _ (by decide)
example : PoolValid wkEnv [22] (replayChain wkEnv [2] wkR) :=
  ⟨⟨0, by decide⟩, ⟨by decide, by decide, by decide⟩, absent_of_rows _ _ (by decide), by decide, trivial⟩
-- and the conclusion, computed: after the walk the rows, keys and total are those of block 3 replayed on block 1
-- (transaction 22 cannot be re-admitted: its input is gone with block 2)
example :
    let w := (walk wkEnv wkS 0 3 false).1
    let c := replayChain wkEnv [3] wkR
    w.pointer = 3 ∧ w.pool = [] ∧ w.U = c.U ∧ w.total = c.total ∧ curVer w "k" = none ∧ curVer c "k" = none ∧
    curVer w "j" = some (31, 0) ∧ curVer c "j" = some (31, 0) ∧ curVer wkS "k" = some (22, 0) := by decide

-- ================================================================== re-admission of the pool, and `play`

/-- `doTx` cannot tell a state from one it refines (same pool): same verdict, refining results, same pool -/
theorem doTx_trefines (e : Env) (x r : St) (lh : Int) (i : Nat) (h : TRefines x r) (hp : x.pool = r.pool) :
    (doTx e x lh i).2 = (doTx e r lh i).2 ∧ TRefines (doTx e x lh i).1 (doTx e r lh i).1 ∧
    (doTx e x lh i).1.pool = (doTx e r lh i).1.pool := by
  unfold doTx
  rw [hp]
  by_cases hc : r.pool.contains i = true
  · rw [if_pos hc, if_pos hc]
    exact ⟨rfl, h, hp⟩
  · rw [if_neg hc, if_neg hc]
    dsimp only
    rw [admission_congrT x r lh (e.tx i) h.obs]
    have hT : TRefines ({ applyTx x (e.tx i) with pool := r.pool ++ [i] } : St)
        ({ applyTx r (e.tx i) with pool := r.pool ++ [i] } : St) :=
      (applyTx_trefines x r (e.tx i) h).of_tables ⟨rfl, rfl, rfl, rfl⟩ ⟨rfl, rfl, rfl, rfl⟩
    cases admitTx r lh (e.tx i) with
    | ok => exact ⟨rfl, hT, rfl⟩
    | _ => exact ⟨rfl, h, hp⟩

theorem foldl_doTx_trefines (e : Env) (lh : Int) (l : List Nat) (x r : St) (h : TRefines x r) (hp : x.pool = r.pool) :
    TRefines (l.foldl (fun st i => (doTx e st lh i).1) x) (l.foldl (fun st i => (doTx e st lh i).1) r) ∧
    (l.foldl (fun st i => (doTx e st lh i).1) x).pool = (l.foldl (fun st i => (doTx e st lh i).1) r).pool := by
  induction l generalizing x r with
  | nil => exact ⟨h, hp⟩
  | cons i rest ih =>
    simp only [List.foldl_cons]
    obtain ⟨_, h2, h3⟩ := doTx_trefines e x r lh i h hp
    exact ih _ _ h2 h3

/-- **the state after a successful walk is a function of the destination branch and the old pool**: under the
hypotheses of `walk_refines`, the result refines — and has the pool of — the canonical state "`r`, the blocks of
`todo` replayed, empty pool" with the old pool (`repostList e s`, see `walk_refines`) re-admitted on it, oldest first -/
theorem walk_refines_full (e : Env) (s : St) (lh : Int) (dest : Nat) (prune : Bool) (r : St)
    (hok : (walk e s lh dest prune).2 = true) (hinv : KVInv e r)
    (hchain : ChainValid e (undoTodo e s.pointer dest).1.reverse r)
    (hpool : PoolValid e s.pool (replayChain e (undoTodo e s.pointer dest).1.reverse r))
    (hs : TRefines s (applyPool e s.pool (replayChain e (undoTodo e s.pointer dest).1.reverse r))) :
    TRefines (walk e s lh dest prune).1
      ((repostList e s).foldl (fun st i => (doTx e st lh i).1)
        { replayChain e (undoTodo e s.pointer dest).2 r with pool := [] }) ∧
    (walk e s lh dest prune).1.pool =
      ((repostList e s).foldl (fun st i => (doTx e st lh i).1)
        { replayChain e (undoTodo e s.pointer dest).2 r with pool := [] }).pool := by
  obtain ⟨s2, h1, h2, h3⟩ := walk_refines e s lh dest prune r hok hinv hchain hpool hs
  rw [h3]
  exact foldl_doTx_trefines e lh (repostList e s) s2 _ (h1.of_tables ⟨rfl, rfl, rfl, rfl⟩ ⟨rfl, rfl, rfl, rfl⟩) h2

/-- with an empty pool no block transaction can depend on a pending one -/
theorem parentMissing_nil_pool (e : Env) (before txs : List Nat) : parentMissing e [] before txs = false := by
  induction txs generalizing before with
  | nil => rfl
  | cons i rest ih => unfold parentMissing; simp [ih]

/-- with an empty pool no block transaction is a pending member -/
theorem staleMember_nil_pool (e : Env) (written : List (String × Ver)) (txs : List Nat) :
    staleMember e [] written txs = false := by
  induction txs generalizing written with
  | nil => rfl
  | cons i rest ih => unfold staleMember; simp [ih]

/-- with an empty pool, a successful `play` (`PlayAndRepost`) is `todoBlock`: the block's transactions admitted one
after the other on the evolving state -/
theorem play_eq_todoBlock (e : Env) (s : St) (lh : Int) (b : Block) (hp : s.pool = [])
    (hok : (play e s lh b).2 = .ok) : todoBlock e s lh b = some (play e s lh b).1 ∧ b.pre = some s.pointer := by
  unfold play at hok ⊢
  unfold todoBlock
  by_cases h1 : b.pre ≠ some s.pointer
  · simp [h1] at hok
  · have hpre : b.pre = some s.pointer := by simpa using h1
    refine ⟨?_, hpre⟩
    simp only [h1, ↓reduceIte] at hok ⊢
    by_cases h2 : blockHasDupInput e b.txs = true
    · simp [h2] at hok
    · simp only [h2, Bool.false_eq_true, ↓reduceIte] at hok ⊢
      simp only [hp, parentMissing_nil_pool, staleMember_nil_pool, Bool.false_eq_true, ↓reduceIte, List.filter_nil, List.length_nil, closure,
        List.reverse_nil, List.foldl_nil] at hok ⊢
      cases hr : applyBlockTxs e lh b.prop [] b.txs s with
      | none => simp [hr] at hok
      | some p =>
        obtain ⟨s2, res⟩ := p
        have hres : res = .ok := by
          cases res with
          | ok => rfl
          | _ => simp only [hr] at hok; cases hok
        subst hres
        have hq : s2.pool = [] := by
          rw [applyBlockTxs_ok_eq e lh b.prop b.txs s s2 hr, (replayTxs_frame e b.prop b.txs s).2.2, hp]
        simp only [hq]

/-- **undoing exactly cancels playing** (empty pool): after a successful `play` of `b`, the non-pruning `undoBlock`
refines the state before — pointer back at the old tip, irreversible height where `play` put it -/
theorem undoBlock_play (e : Env) (s : St) (lh : Int) (b : Block) (hp : s.pool = [])
    (hok : (play e s lh b).2 = .ok)
    (hwf : ∀ i ∈ b.txs, TxWF e i) (hnd : b.txs.Nodup) (hfresh : ∀ i ∈ b.txs, ∀ o, lookup s.U (i, o) = none)
    (hfz : FrozenAlong e b.prop b.txs s) (hinv : KVInv e s) :
    Refines (undoBlock e (play e s lh b).1 b false) { s with irrev := nextIrrev e.window s.irrev b.height } := by
  obtain ⟨h1, h2⟩ := play_eq_todoBlock e s lh b hp hok
  have := undoBlock_todoBlock e s _ lh b h1 hwf hnd hfresh hfz hinv
  rw [h2] at this
  exact this

example : (play blkEnv blkSt 0 blkB).2 = .ok ∧ blkSt.pool = [] ∧
    (undoBlock blkEnv (play blkEnv blkSt 0 blkB).1 blkB false).U = blkSt.U := by decide

-- ================================================================== the state at a block is a function of its chain

/-- the canonical state of block `b` over a base state `g`: the blocks on the path from the root to `b` (as
`ancestors` finds it), replayed oldest first — what a fresh replica computes -/
def canon (e : Env) (g : St) (b : Nat) : St :=
  replayChain e (ancestors e (e.blocks.length + 1) b).reverse g

theorem replayChain_append (e : Env) (l1 l2 : List Nat) (s : St) :
    replayChain e (l1 ++ l2) s = replayChain e l2 (replayChain e l1 s) := by
  unfold replayChain; rw [List.foldl_append]

theorem chainValid_append (e : Env) (l1 l2 : List Nat) (r : St) (h : ChainValid e (l1 ++ l2) r) :
    ChainValid e l1 r ∧ ChainValid e l2 (replayChain e l1 r) := by
  induction l1 generalizing r with
  | nil => exact ⟨trivial, h⟩
  | cons b0 rest ih =>
    obtain ⟨h1, h2⟩ := h
    obtain ⟨i1, i2⟩ := ih _ h2
    exact ⟨⟨h1, i1⟩, i2⟩

/-- the canonical states of the tip and of the destination are replays of `undo.reverse` / `todo` on one and the same
state `R` (the canonical state of their lowest common ancestor, or the base state if they have none) -/
theorem canon_split (e : Env) (g : St) (cur dest : Nat) (hpl : ParentLower e) :
    ∃ pre, (ancestors e (e.blocks.length + 1) cur).reverse = pre ++ (undoTodo e cur dest).1.reverse ∧
      canon e g cur = replayChain e (undoTodo e cur dest).1.reverse (replayChain e pre g) ∧
      canon e g dest = replayChain e (undoTodo e cur dest).2 (replayChain e pre g) := by
  obtain ⟨_, _, hsplit⟩ := undoTodo_split e cur dest hpl
  unfold canon
  rcases hsplit with ⟨h1, h2, _⟩ | ⟨lca, r1, r2, h1, h2, _⟩
  · refine ⟨[], by rw [← h1]; rfl, by rw [← h1]; rfl, ?_⟩
    rw [h2, List.reverse_reverse]; rfl
  · have e1 := ancestors_tail_eq e hpl cur lca _ r1 h1
    have e2 := ancestors_tail_eq e hpl dest lca _ r2 h2
    have hr : r1 = r2 := by
      have := e1.trans e2.symm
      simpa using this
    subst hr
    refine ⟨(lca :: r1).reverse, ?_, ?_, ?_⟩
    · rw [h1, List.reverse_append]
    · rw [h1, List.reverse_append, replayChain_append]
    · rw [h2, List.reverse_append, List.reverse_reverse, replayChain_append]

/-- **the state after a successful walk is the canonical state of the destination, with the old pool re-admitted.**
Block tree with parent links strictly down in height; `g` a well-formed base state; the chain of the current tip
satisfies the side conditions of the block theorem (`ChainValid`, from the root), the pool those of the transaction
theorem (`PoolValid`); the state refines "canonical state of the tip, pool applied". Then after a successful
walk to `dest` (pruning or not) the state refines — same UTXO rows, same version of every key, same total, same live key
table — and has the pool of: the canonical state of `dest` (empty pool) with the old pool re-admitted oldest first
(`repostList e s`: the old pool without the transactions the ledger records as confirmed on the chain walked to; the
statement formerly said `s.pool`). Nothing of the branch the node came from is left. -/
theorem walk_canonical (e : Env) (s : St) (lh : Int) (dest : Nat) (prune : Bool) (g : St) (hpl : ParentLower e)
    (hok : (walk e s lh dest prune).2 = true) (hinv : KVInv e g)
    (hchain : ChainValid e (ancestors e (e.blocks.length + 1) s.pointer).reverse g)
    (hpool : PoolValid e s.pool (canon e g s.pointer))
    (hs : TRefines s (applyPool e s.pool (canon e g s.pointer))) :
    TRefines (walk e s lh dest prune).1
      ((repostList e s).foldl (fun st i => (doTx e st lh i).1) { canon e g dest with pool := [] }) ∧
    (walk e s lh dest prune).1.pool =
      ((repostList e s).foldl (fun st i => (doTx e st lh i).1) { canon e g dest with pool := [] }).pool := by
  obtain ⟨pre, h1, h2, h3⟩ := canon_split e g s.pointer dest hpl
  rw [h1] at hchain
  obtain ⟨c1, c2⟩ := chainValid_append e pre _ g hchain
  rw [h2] at hpool hs
  rw [h3]
  exact walk_refines_full e s lh dest prune (replayChain e pre g) hok (replayChain_KVInv e pre g c1 hinv) c2 hpool hs

/-- **the state at a block is a function of its chain**: two nodes — whatever tips they are on and however they got
there — whose states refine their canonical states and whose pools are empty, after successful walks to the same
block show the same tables: every UTXO row, the version of every key, the total -/
theorem walk_confluent (e : Env) (s s' : St) (lh lh' : Int) (dest : Nat) (prune prune' : Bool) (g : St)
    (hpl : ParentLower e)
    (hinv : KVInv e g)
    (hok : (walk e s lh dest prune).2 = true) (hok' : (walk e s' lh' dest prune').2 = true)
    (hp : s.pool = []) (hp' : s'.pool = [])
    (hchain : ChainValid e (ancestors e (e.blocks.length + 1) s.pointer).reverse g)
    (hchain' : ChainValid e (ancestors e (e.blocks.length + 1) s'.pointer).reverse g)
    (hs : TRefines s (canon e g s.pointer)) (hs' : TRefines s' (canon e g s'.pointer)) :
    ObsT (walk e s lh dest prune).1 (walk e s' lh' dest prune').1 := by
  have a := (walk_canonical e s lh dest prune g hpl hok hinv hchain (by rw [hp]; trivial) (by rw [hp]; exact hs)).1
  have b := (walk_canonical e s' lh' dest prune' g hpl hok' hinv hchain' (by rw [hp']; trivial) (by rw [hp']; exact hs')).1
  rw [repostList_of_pool_nil e s hp] at a
  rw [repostList_of_pool_nil e s' hp'] at b
  exact a.obs.trans b.obs.symm

-- non-vacuity: the tree and node of the `walk_refines` example, now from the base state below block 1
private def wkG : St := { U := [((0, 0), ⟨"u0", 5, 0⟩)], total := 5 }
private def wkS' : St := { applyPool wkEnv [22] (canon wkEnv wkG 2) with pool := [22] }

example : ParentLower wkEnv := parentLower_of_blocks _ (by decide)
example : wkS'.pointer = 2 ∧ wkS'.pool = [22] ∧ (walk wkEnv wkS' 0 3 false).2 = true ∧
    ancestors wkEnv (wkEnv.blocks.length + 1) wkS'.pointer = [2, 1] := by decide
example : KVInv wkEnv wkG := KVInv_empty wkEnv wkG rfl rfl
example : TRefines wkS' (applyPool wkEnv [22] (canon wkEnv wkG wkS'.pointer)) :=
  (TRefines.refl _).of_tables ⟨rfl, rfl, rfl, rfl⟩ ⟨rfl, rfl, rfl, rfl⟩
example : ChainValid wkEnv [2, 1].reverse wkG := by
  refine ⟨⟨⟨0, fwd_of_res _ _ _ _ _ (by decide)⟩, ?_, by decide, ?_, by decide⟩,
    ⟨⟨0, fwd_of_res _ _ _ _ _ (by decide)⟩, ?_, by decide, ?_, by decide⟩, trivial⟩
  · intro i hi; simp [wkEnv, Env.block, lookup] at hi
  · intro i hi; simp [wkEnv, Env.block, lookup] at hi
  · intro i hi
    have : i = 20 ∨ i = 21 := by simpa [wkEnv, Env.block, lookup] using hi
    rcases this with rfl | rfl <;> exact ⟨by decide, by decide, by decide⟩
  · intro i hi
    have : i = 20 ∨ i = 21 := by simpa [wkEnv, Env.block, lookup] using hi
    rcases this with rfl | rfl <;> exact absent_of_rows _ _ (by decide)
example : PoolValid wkEnv wkS'.pool (canon wkEnv wkG wkS'.pointer) :=
  ⟨⟨0, by decide⟩, ⟨by decide, by decide, by decide⟩, absent_of_rows _ _ (by decide), by decide, trivial⟩
example :
    let w := (walk wkEnv wkS' 0 3 false).1
    let c := canon wkEnv wkG 3
    w.pointer = 3 ∧ w.pool = [] ∧ w.U = c.U ∧ w.total = c.total ∧ w.ZU = c.ZU := by decide

-- ================================================================== the invariant "state = canonical state + pool"

theorem applyPool_snoc (e : Env) (l : List Nat) (i : Nat) (s : St) :
    applyPool e (l ++ [i]) s = applyTx (applyPool e l s) (e.tx i) := by
  unfold applyPool; rw [List.foldl_append]; rfl

/-- one admission keeps "the state refines `C` with the pool applied in admission order" -/
theorem doTx_keeps_pool_form (e : Env) (C st : St) (lh : Int) (i : Nat)
    (h : TRefines st (applyPool e st.pool C)) :
    TRefines (doTx e st lh i).1 (applyPool e (doTx e st lh i).1.pool C) := by
  unfold doTx
  by_cases hc : st.pool.contains i = true
  · rw [if_pos hc]; exact h
  · rw [if_neg hc]
    dsimp only
    cases admitTx st lh (e.tx i) with
    | ok =>
      dsimp only
      rw [applyPool_snoc]
      exact (applyTx_trefines _ _ (e.tx i) h).of_tables ⟨rfl, rfl, rfl, rfl⟩ ⟨rfl, rfl, rfl, rfl⟩
    | _ => exact h

theorem foldl_doTx_keeps_pool_form (e : Env) (C : St) (lh : Int) (l : List Nat) (st : St)
    (h : TRefines st (applyPool e st.pool C)) :
    TRefines (l.foldl (fun st i => (doTx e st lh i).1) st)
      (applyPool e (l.foldl (fun st i => (doTx e st lh i).1) st).pool C) := by
  induction l generalizing st with
  | nil => exact h
  | cons i rest ih =>
    simp only [List.foldl_cons]
    exact ih _ (doTx_keeps_pool_form e C st lh i h)

/-- **a successful walk re-establishes its own precondition at the destination**: under the hypotheses of
`walk_canonical`, for a destination known under its id, the state after the walk points at `dest` and refines "the
canonical state of `dest` with the (new) pool applied in admission order" — the form `walk_canonical` and
`doTx_keeps_pool_form` start from, so walks and admissions can be chained -/
theorem walk_invariant (e : Env) (s : St) (lh : Int) (dest : Nat) (prune : Bool) (g : St) (hpl : ParentLower e)
    (hid : (e.block dest).id = dest)
    (hok : (walk e s lh dest prune).2 = true) (hinv : KVInv e g)
    (hchain : ChainValid e (ancestors e (e.blocks.length + 1) s.pointer).reverse g)
    (hpool : PoolValid e s.pool (canon e g s.pointer))
    (hs : TRefines s (applyPool e s.pool (canon e g s.pointer))) :
    (walk e s lh dest prune).1.pointer = dest ∧
    TRefines (walk e s lh dest prune).1 (applyPool e (walk e s lh dest prune).1.pool (canon e g dest)) := by
  refine ⟨walk_reaches_any e s lh dest prune hpl hid hok, ?_⟩
  obtain ⟨pre, h1, h2, h3⟩ := canon_split e g s.pointer dest hpl
  rw [h1] at hchain
  obtain ⟨c1, c2⟩ := chainValid_append e pre _ g hchain
  rw [h2] at hpool hs
  obtain ⟨s2, t1, t2, t3⟩ := walk_refines e s lh dest prune (replayChain e pre g) hok
    (replayChain_KVInv e pre g c1 hinv) c2 hpool hs
  rw [t3, h3]
  apply foldl_doTx_keeps_pool_form
  rw [t2]
  exact t1

example :
    let w := (walk wkEnv wkS' 0 3 false).1
    (wkEnv.block 3).id = 3 ∧ w.pointer = 3 ∧ w.pool = [] ∧ w.U = (applyPool wkEnv w.pool (canon wkEnv wkG 3)).U := by
  decide

-- ================================================================== what is NOT true of the raw recycle table

/-- the raw form of `undo_apply_keys`: every row of the recycle table ZD is back -/
def undo_apply_ZD_statement : Prop :=
  ∀ (e : Env) (s : St) (lh : Int) (t : Tx), admitTx s lh t = .ok → e.tx t.id = t → KVInv e s → koutDistinct t →
    kinDistinct t → ∀ key, lookup (undoTx e (applyTx s t) t).ZD key = lookup s.ZD key

/-- it is false in the model: a marker that was hidden behind a live row is overwritten by a delete and removed by
its undo (the reader never sees the difference: `undo_apply_keys`) -/
theorem undo_apply_ZD_refuted : ¬ undo_apply_ZD_statement := by
  intro h
  have hk : KVInv kvEnv { ZU := [("a", (1, 0))], ZD := [("a", (9, 9)), ("b", (2, 0))] } := by
    apply KVInv_of_rows <;> decide
  have := h kvEnv { ZU := [("a", (1, 0))], ZD := [("a", (9, 9)), ("b", (2, 0))] } 0 (kvEnv.tx 3)
    (by decide) (by decide) hk (by decide) (by decide) "a"
  revert this
  decide

-- ================================================================== `play` and the canonical state

/-- the canonical state of a child is its block replayed on the canonical state of the parent -/
theorem canon_child (e : Env) (g : St) (hpl : ParentLower e) (bi cur : Nat) (hpre : (e.block bi).pre = some cur) :
    canon e g bi = replayBlock e (canon e g cur) (e.block bi) := by
  have hk := block_known_of_pre e bi (by rw [hpre]; simp)
  obtain ⟨m, hm⟩ : ∃ m, e.blocks.length = m + 1 := by
    cases hb : e.blocks with
    | nil => rw [hb] at hk; simp at hk
    | cons x r => exact ⟨r.length, by simp⟩
  obtain ⟨r, hr⟩ := ancestors_head e m cur
  have h1 : ancestors e (e.blocks.length + 1) bi = [bi] ++ cur :: r := by
    rw [ancestors_succ_some e _ bi cur hpre, hm, hr]; rfl
  have h2 := ancestors_tail_eq e hpl bi cur [bi] r h1
  unfold canon
  rw [h1, ← h2, List.reverse_append, replayChain_append]
  rfl

/-- **`play` keeps the node on the canonical state** (empty pool): if the state refines the canonical state of the
tip and `play` accepts `b` (known to the environment under its id), the result refines the canonical state of `b`
and points at it -/
theorem play_invariant (e : Env) (s : St) (lh : Int) (b : Block) (g : St) (hpl : ParentLower e)
    (hb : e.block b.id = b) (hp : s.pool = []) (hok : (play e s lh b).2 = .ok)
    (hs : TRefines s (canon e g s.pointer)) :
    TRefines (play e s lh b).1 (canon e g b.id) ∧ (play e s lh b).1.pointer = b.id ∧ (play e s lh b).1.pool = [] := by
  obtain ⟨h1, h2⟩ := play_eq_todoBlock e s lh b hp hok
  obtain ⟨h3, _⟩ := todoBlock_eq e s _ lh b h1
  rw [h3]
  refine ⟨?_, rfl, ?_⟩
  · rw [canon_child e g hpl b.id s.pointer (by rw [hb]; exact h2), hb]
    exact replayBlock_trefines e b s _ hs
  · exact (replayTxs_frame e b.prop b.txs s).2.2.trans hp

/-- one more admitted transaction keeps `PoolValid` -/
theorem poolValid_snoc (e : Env) (l : List Nat) (i : Nat) (s : St) (h : PoolValid e l s)
    (hadm : ∃ lh, admitTx (applyPool e l s) lh (e.tx i) = .ok) (hwf : TxWF e i)
    (hfresh : ∀ o, lookup (applyPool e l s).U (i, o) = none) (hfz : citesFrozen (applyPool e l s) (e.tx i)) :
    PoolValid e (l ++ [i]) s := by
  induction l generalizing s with
  | nil => exact ⟨hadm, hwf, hfresh, hfz, trivial⟩
  | cons j rest ih =>
    obtain ⟨a, b, c, d, hrest⟩ := h
    exact ⟨a, b, c, d, ih _ hrest hadm hfresh hfz⟩

example : wkEnv.block (wkEnv.block 2).id = wkEnv.block 2 ∧ (canon wkEnv wkG 1).pool = [] ∧
    (canon wkEnv wkG 1).pointer = 1 ∧ (play wkEnv (canon wkEnv wkG 1) 0 (wkEnv.block 2)).2 = .ok ∧
    (play wkEnv (canon wkEnv wkG 1) 0 (wkEnv.block 2)).1.U = (canon wkEnv wkG 2).U := by
  decide

-- ================================================================== independent transactions commute

/-- a row of the UTXO table after `applyTx`: an output of `t` that materialises; else gone if `t` spends it; else as
before -/
theorem applyTx_U_lookup (s : St) (t : Tx) (k : Ver) :
    lookup (applyTx s t).U k =
      if k.1 = t.id ∧ materialises t.outs 0 k.2 = true then
        (t.outs[k.2 - 0]?).map (fun x => ⟨x.addr, x.amt, x.frozen⟩)
      else if k ∈ t.ins.map (fun r => (r.tx, r.off)) then none else lookup s.U k := by
  unfold applyTx
  rw [applyOuts_lookup]
  simp only
  rw [foldl_del_lookup, (applyKOut_frame t t.kout 0 s).1]

theorem applyTx_total (s : St) (t : Tx) :
    (applyTx s t).total = s.total + (if t.coinbase then paidOf t.outs else 0) := by
  unfold applyTx
  rw [applyOuts_total]
  simp only
  rw [(applyKOut_frame t t.kout 0 s).2.1]

/-- the two key rows after `applyTx`, for a key `t` does not write -/
theorem applyTx_key_other (s : St) (t : Tx) (key : String) (hk : key ∉ t.kout.map (·.key)) :
    lookup (applyTx s t).ZU key = lookup s.ZU key ∧ lookup (applyTx s t).ZD key = lookup s.ZD key := by
  rw [applyTx_ZU, applyTx_ZD]
  exact applyKOut_other t t.kout 0 s key hk

/-- the two key rows after `applyTx`, for the key written at index `i` -/
theorem applyTx_key_written (s : St) (t : Tx) (hnd : koutDistinct t) (i : Nat) (ko : KOut) (hi : t.kout[i]? = some ko) :
    lookup (applyTx s t).ZU ko.key = (if ko.del then none else some (t.id, i)) ∧
    lookup (applyTx s t).ZD ko.key = (if ko.del then some (t.id, i) else lookup s.ZD ko.key) := by
  rw [applyTx_ZU, applyTx_ZD]
  have := applyKOut_written t t.kout 0 s i ko hnd hi
  rw [Nat.zero_add] at this
  exact this

/-- two transactions are independent: different ids, neither spends an output of the other, no key written by both -/
structure Indep (t1 t2 : Tx) : Prop where
  id : t1.id ≠ t2.id
  cite12 : ∀ r ∈ t2.ins, r.tx ≠ t1.id
  cite21 : ∀ r ∈ t1.ins, r.tx ≠ t2.id
  keys : ∀ k1 ∈ t1.kout, ∀ k2 ∈ t2.kout, k1.key ≠ k2.key

/-- row-by-row equality of the four tables -/
structure RowEq (s s' : St) : Prop where
  U : ∀ k, lookup s.U k = lookup s'.U k
  ZU : ∀ k, lookup s.ZU k = lookup s'.ZU k
  ZD : ∀ k, lookup s.ZD k = lookup s'.ZD k
  total : s.total = s'.total

theorem RowEq.trefines {s s' : St} (h : RowEq s s') : TRefines s s' :=
  ⟨⟨h.U, fun key => curVer_congr_tables s s' key (h.ZU key) (h.ZD key), h.total⟩, h.ZU,
    fun k m hm => by rw [← h.ZD k]; exact hm⟩

theorem RowEq.symm {s s' : St} (h : RowEq s s') : RowEq s' s :=
  ⟨fun k => (h.U k).symm, fun k => (h.ZU k).symm, fun k => (h.ZD k).symm, h.total.symm⟩

/-- **independent transactions commute**: applied in either order they leave the same tables, row by row -/
theorem applyTx_comm (s : St) (t1 t2 : Tx) (hi : Indep t1 t2) (hnd1 : koutDistinct t1) (hnd2 : koutDistinct t2) :
    RowEq (applyTx (applyTx s t1) t2) (applyTx (applyTx s t2) t1) := by
  refine ⟨fun k => ?_, fun key => ?_, fun key => ?_, ?_⟩
  · rw [applyTx_U_lookup (applyTx s t1) t2, applyTx_U_lookup s t1, applyTx_U_lookup (applyTx s t2) t1,
      applyTx_U_lookup s t2]
    by_cases a1 : k.1 = t1.id ∧ materialises t1.outs 0 k.2 = true
    · have a2 : ¬ (k.1 = t2.id ∧ materialises t2.outs 0 k.2 = true) := fun h => hi.id (a1.1.symm.trans h.1)
      have b2 : k ∉ t2.ins.map (fun r => (r.tx, r.off)) := by
        intro hm
        obtain ⟨r, hr, he⟩ := List.mem_map.mp hm
        exact hi.cite12 r hr (by rw [← a1.1, ← he])
      simp only [if_pos a1, if_neg a2, if_neg b2]
    · by_cases a2 : k.1 = t2.id ∧ materialises t2.outs 0 k.2 = true
      · have b1 : k ∉ t1.ins.map (fun r => (r.tx, r.off)) := by
          intro hm
          obtain ⟨r, hr, he⟩ := List.mem_map.mp hm
          exact hi.cite21 r hr (by rw [← a2.1, ← he])
        simp only [if_neg a1, if_pos a2, if_neg b1]
      · simp only [if_neg a1, if_neg a2]
        by_cases b1 : k ∈ t1.ins.map (fun r => (r.tx, r.off)) <;>
          by_cases b2 : k ∈ t2.ins.map (fun r => (r.tx, r.off)) <;>
          simp only [b1, b2, ↓reduceIte]
  · by_cases w1 : key ∈ t1.kout.map (·.key)
    · obtain ⟨k1, hk1, rfl⟩ := List.mem_map.mp w1
      obtain ⟨i, hi1⟩ := List.mem_iff_getElem?.mp hk1
      have w2 : k1.key ∉ t2.kout.map (·.key) := by
        intro hm
        obtain ⟨k2, hk2, he⟩ := List.mem_map.mp hm
        exact hi.keys k1 hk1 k2 hk2 he.symm
      rw [(applyTx_key_other (applyTx s t1) t2 _ w2).1, (applyTx_key_written s t1 hnd1 i k1 hi1).1,
        (applyTx_key_written (applyTx s t2) t1 hnd1 i k1 hi1).1]
    · by_cases w2 : key ∈ t2.kout.map (·.key)
      · obtain ⟨k2, hk2, rfl⟩ := List.mem_map.mp w2
        obtain ⟨i, hi2⟩ := List.mem_iff_getElem?.mp hk2
        rw [(applyTx_key_written (applyTx s t1) t2 hnd2 i k2 hi2).1, (applyTx_key_other (applyTx s t2) t1 _ w1).1,
          (applyTx_key_written s t2 hnd2 i k2 hi2).1]
      · rw [(applyTx_key_other (applyTx s t1) t2 _ w2).1, (applyTx_key_other s t1 _ w1).1,
          (applyTx_key_other (applyTx s t2) t1 _ w1).1, (applyTx_key_other s t2 _ w2).1]
  · by_cases w1 : key ∈ t1.kout.map (·.key)
    · obtain ⟨k1, hk1, rfl⟩ := List.mem_map.mp w1
      obtain ⟨i, hi1⟩ := List.mem_iff_getElem?.mp hk1
      have w2 : k1.key ∉ t2.kout.map (·.key) := by
        intro hm
        obtain ⟨k2, hk2, he⟩ := List.mem_map.mp hm
        exact hi.keys k1 hk1 k2 hk2 he.symm
      rw [(applyTx_key_other (applyTx s t1) t2 _ w2).2, (applyTx_key_written s t1 hnd1 i k1 hi1).2,
        (applyTx_key_written (applyTx s t2) t1 hnd1 i k1 hi1).2, (applyTx_key_other s t2 _ w2).2]
    · by_cases w2 : key ∈ t2.kout.map (·.key)
      · obtain ⟨k2, hk2, rfl⟩ := List.mem_map.mp w2
        obtain ⟨i, hi2⟩ := List.mem_iff_getElem?.mp hk2
        rw [(applyTx_key_written (applyTx s t1) t2 hnd2 i k2 hi2).2, (applyTx_key_other s t1 _ w1).2,
          (applyTx_key_other (applyTx s t2) t1 _ w1).2, (applyTx_key_written s t2 hnd2 i k2 hi2).2]
      · rw [(applyTx_key_other (applyTx s t1) t2 _ w2).2, (applyTx_key_other s t1 _ w1).2,
          (applyTx_key_other (applyTx s t2) t1 _ w1).2, (applyTx_key_other s t2 _ w2).2]
  · rw [applyTx_total, applyTx_total, applyTx_total, applyTx_total]
    omega

/-- checking the inputs reads only the rows of the inputs -/
theorem checkInputs_local (s s' : St) (lh : Int) (ins : List InRef) (seen : List Ver) (acc : Nat)
    (h : ∀ r ∈ ins, lookup s.U (r.tx, r.off) = lookup s'.U (r.tx, r.off)) :
    checkInputs s lh ins seen acc = checkInputs s' lh ins seen acc := by
  induction ins generalizing seen acc with
  | nil => rfl
  | cons r rest ih =>
    unfold checkInputs
    rw [h r List.mem_cons_self]
    have ih' := fun seen acc => ih seen acc (fun x hx => h x (List.mem_cons_of_mem _ hx))
    split
    · rfl
    · split
      · rfl
      · split
        · rfl
        · split
          · rfl
          · split
            · rfl
            · exact ih' _ _

/-- **admission is stable under an independent transaction**: if `t1` neither spends an input of `t2` nor creates
one, and writes no key that `t2` reads, then `t2` gets the same verdict before and after `t1` -/
theorem admission_stable (s : St) (lh : Int) (t1 t2 : Tx)
    (hcite : ∀ r ∈ t2.ins, r.tx ≠ t1.id)
    (hins : ∀ r ∈ t2.ins, (r.tx, r.off) ∉ t1.ins.map (fun x => (x.tx, x.off)))
    (hkeys : ∀ ki ∈ t2.kin, ki.key ∉ t1.kout.map (·.key)) :
    admitTx (applyTx s t1) lh t2 = admitTx s lh t2 := by
  unfold admitTx checkInputEqualOutput
  have h1 : checkInputs (applyTx s t1) lh t2.ins [] 0 = checkInputs s lh t2.ins [] 0 := by
    apply checkInputs_local
    intro r hr
    rw [applyTx_U_lookup]
    have a1 : ¬ ((r.tx, r.off).1 = t1.id ∧ materialises t1.outs 0 (r.tx, r.off).2 = true) :=
      fun h => hcite r hr h.1
    simp only [a1, hins r hr, ↓reduceIte]
  have h2 : verifyRW (applyTx s t1) t2 = verifyRW s t2 := by
    unfold verifyRW
    have : ∀ l : List KIn, (∀ ki ∈ l, ki.key ∉ t1.kout.map (·.key)) →
        l.all (fun ki => curVer (applyTx s t1) ki.key == ki.ver) = l.all (fun ki => curVer s ki.key == ki.ver) := by
      intro l
      induction l with
      | nil => intro _; rfl
      | cons ki rest ih =>
        intro hl
        obtain ⟨o1, o2⟩ := applyTx_key_other s t1 ki.key (hl ki List.mem_cons_self)
        simp only [List.all_cons]
        rw [ih (fun x hx => hl x (List.mem_cons_of_mem _ hx)), curVer_congr_tables _ _ _ o1 o2]
    rw [this t2.kin hkeys]
  rw [h1, h2]

example :
    let t1 := blkEnv.tx 11
    let t2 : Tx := ⟨40, false, [], [⟨"x", 0, 0⟩], [⟨"q", none⟩], [⟨"q", "v", false⟩]⟩
    Indep t1 t2 ∧ (applyTx (applyTx blkSt t1) t2).total = (applyTx (applyTx blkSt t2) t1).total :=
  ⟨⟨by decide, by decide, by decide, by decide⟩, by decide⟩

-- ================================================================== `play` with a non-empty pool: pending parents

-- In the code as found (`PlayAndRepost`) the transactions of a block were admitted against the state WITH the pool
-- applied, so a block transaction could spend an output of a pending transaction that is not in the block: the block was
-- accepted and the pending transaction kept, although the block cannot be replayed on the canonical state of its parent
-- (a fresh replica refuses it). Reproduced on the real code and repaired (`processUnconfirmTxs` / `parentMissing`): such a
-- block is now refused. Concretely: node at block 2 of `wkEnv` with transaction 22 pending; block 4 = { 41 }, where 41
-- spends output (22, 0).
private def wkEnv4 : Env := { wkEnv with
  txs := wkEnv.txs ++ [(41, ⟨41, false, [⟨22, 0, "u2", 4, 0, false⟩], [⟨"u9", 4, 0⟩], [], []⟩)],
  blocks := wkEnv.blocks ++ [(4, ⟨4, some 2, 3, [41], "m4"⟩)] }

example :
    let s : St := { applyPool wkEnv4 [22] (canon wkEnv4 wkG 2) with pool := [22] }
    (play wkEnv4 s 0 (wkEnv4.block 4)).2 = .utxo ∧ (play wkEnv4 s 0 (wkEnv4.block 4)).1.pool = [22] ∧
    (todoBlock wkEnv4 (canon wkEnv4 wkG 2) 0 (wkEnv4.block 4)).isSome = false := by decide

-- ================================================================== the ghost log is the path root..pointer

/-- **the chain-shape invariant**: the ghost log of confirmed transaction ids (the `C` of `XV.C02.Ledger`) is the
concatenation of the transactions of the blocks on the path from the root to the pointer, oldest block first -/
def ChainLog (e : Env) (s : St) (C : List Nat) : Prop :=
  C = XV.C02.blockTxs e (ancestors e (e.blocks.length + 1) s.pointer).reverse

instance (e : Env) (s : St) (C : List Nat) : Decidable (ChainLog e s C) := by unfold ChainLog; exact inferInstance

theorem blockTxs_append (e : Env) (l1 l2 : List Nat) : blockTxs e (l1 ++ l2) = blockTxs e l1 ++ blockTxs e l2 := by
  unfold blockTxs; simp

/-- **`walk` keeps the ledger invariant and, when it succeeds, the chain-shape invariant — with no hypothesis tying the
ghost log to the blocks `walk` undoes.** `hundo` of `XV.C02.walk_Ledger` is discharged by `ChainLog`: in a block tree whose
parent links go strictly down in height, the path root..pointer is `pre ++ undo.reverse` and the path root..dest is
`pre ++ todo` for one common `pre` (`undoTodo_paths`), so the blocks to undo are exactly the suffix of the log. The remaining
hypotheses speak of the destination's path only: its transaction ids are pairwise distinct (`hnd`), the transactions of the
blocks to apply are known under their ids and a coinbase among them has no inputs and no fee (`hblk`), and — instead of
the former dynamic hypothesis `hre` — the skip list of the environment names every pending transaction that the
destination's path confirms (`hskip`: `SkipsConfirmed`, what the ledger supplies after the repair of
`recoverUnconfirmedTx`; needed: `walk_Ledger_needs_skip`). After a
successful walk the pair (`Ledger`, `ChainLog`) holds again, for the log of the destination's path. For the failing
outcomes see `walk_Ledger_chain_full`. -/
theorem walk_Ledger_chain (e : Env) (s : St) (lh : Int) (dest : Nat) (prune : Bool) (C : List Nat)
    (hpl : ParentLower e) (h : Ledger e s C) (hc : ChainLog e s C) (hid : (e.block dest).id = dest)
    (hnd : (blockTxs e (ancestors e (e.blocks.length + 1) dest).reverse).Nodup)
    (hblk : ∀ bi ∈ (undoTodo e s.pointer dest).2, (∀ i ∈ (e.block bi).txs, (e.tx i).id = i) ∧
      (∀ i ∈ (e.block bi).txs, (e.tx i).coinbase = true → (e.tx i).ins = [] ∧ feeOf (e.tx i).outs = 0))
    (hskip : SkipsConfirmed e s (blockTxs e (ancestors e (e.blocks.length + 1) dest).reverse)) :
    ∃ C', Ledger e (walk e s lh dest prune).1 C' ∧
      ((walk e s lh dest prune).2 = true → ChainLog e (walk e s lh dest prune).1 C') := by
  obtain ⟨pre, h1, h2⟩ := undoTodo_paths e s.pointer dest hpl
  unfold ChainLog at hc
  rw [h1, blockTxs_append] at hc
  rw [h2, blockTxs_append] at hnd hskip
  obtain ⟨C', c1, c2⟩ := walk_Ledger e s lh dest prune C (blockTxs e pre) h hc hnd hblk hskip
  refine ⟨C', c1, fun hok => ?_⟩
  unfold ChainLog
  rw [walk_reaches_any e s lh dest prune hpl hid hok, h2, blockTxs_append]
  exact c2 hok

/-- the initial state has the empty log, when block id 0 — the pointer of the initial state — is not a registered block
(`e.block 0` is then the default block: no parent, no transactions) -/
theorem ChainLog_genesis (e : Env) (h0 : (e.block 0).pre = none) (h1 : (e.block 0).txs = []) : ChainLog e {} [] := by
  unfold ChainLog
  show [] = blockTxs e (ancestors e (e.blocks.length + 1) 0).reverse
  rw [ancestors_succ_none e _ 0 h0]
  simp [blockTxs, h1]

/-- admission to the pool moves neither the pointer nor the log -/
theorem doTx_ChainLog (e : Env) (s : St) (lh : Int) (i : Nat) (C : List Nat) (h : ChainLog e s C) :
    ChainLog e (doTx e s lh i).1 C := by
  unfold ChainLog at h ⊢
  rw [doTx_pointer]; exact h

/-- a block on top of the pointer extends the path by itself -/
theorem ChainLog_child (e : Env) (s s' : St) (b : Block) (C : List Nat) (hpl : ParentLower e) (hb : e.block b.id = b)
    (hpre : b.pre = some s.pointer) (hptr : s'.pointer = b.id) (h : ChainLog e s C) : ChainLog e s' (C ++ b.txs) := by
  unfold ChainLog at h ⊢
  rw [hptr, ancestors_child e hpl b.id s.pointer (by rw [hb]; exact hpre), List.reverse_cons, blockTxs_snoc, hb, ← h]

/-- **`play` keeps the chain-shape invariant**: an accepted block (known to the environment under its id) has the pointer
as its parent and becomes the pointer, its transactions join the log; a refused block changes nothing -/
theorem play_ChainLog (e : Env) (s : St) (lh : Int) (b : Block) (C : List Nat) (hpl : ParentLower e)
    (hb : e.block b.id = b) (h : ChainLog e s C) :
    ChainLog e (play e s lh b).1 (if (play e s lh b).2 = .ok then C ++ b.txs else C) := by
  by_cases hok : (play e s lh b).2 = .ok
  · rw [if_pos hok]
    obtain ⟨hpre, hptr⟩ := play_ok_pointer e s lh b hok
    exact ChainLog_child e s _ b C hpl hb hpre hptr h
  · rw [if_neg hok, XV.C05.play_fail_noop e s lh b hok]; exact h

/-- **`playForMiner` keeps the chain-shape invariant** -/
theorem playForMiner_ChainLog (e : Env) (s : St) (lh : Int) (b : Block) (C : List Nat) (hpl : ParentLower e)
    (hb : e.block b.id = b) (h : ChainLog e s C) :
    ChainLog e (playForMiner e s lh b).1 (if (playForMiner e s lh b).2 = .ok then C ++ b.txs else C) := by
  by_cases hok : (playForMiner e s lh b).2 = .ok
  · rw [if_pos hok]
    obtain ⟨hpre, hptr⟩ := playForMiner_ok_pointer e s lh b hok
    exact ChainLog_child e s _ b C hpl hb hpre hptr h
  · rw [if_neg hok, XV.C05.playForMiner_fail_noop e s lh b hok]; exact h

-- non-vacuity: the history of the `Ledger` example of C02 in a tree with heights (so that `ParentLower` holds):
--   block 10 = [100 (genesis coinbase 16)] on the unregistered block 0; submissions 1 and 2 (child of 1);
--   block 11 = [9 (award), 1] confirms 1; then a walk to the sibling block 12 = [8 (award), 3], 3 spends the input of 1.
-- (`Ledger`, `ChainLog`) holds after every step with the logs [], [100], [100, 9, 1], [100, 8, 3].
private def clEnv : Env := {
  txs := [
    (100, ⟨100, true, [], [⟨"u0", 16, 0⟩], [], []⟩),
    (1, ⟨1, false, [⟨100, 0, "u0", 16, 0, false⟩], [⟨"u1", 10, 0⟩, ⟨"u0", 4, 0⟩, ⟨"$", 2, 0⟩], [], []⟩),
    (2, ⟨2, false, [⟨1, 0, "u1", 10, 0, false⟩], [⟨"u2", 9, 0⟩, ⟨"$", 1, 0⟩], [], []⟩),
    (3, ⟨3, false, [⟨100, 0, "u0", 16, 0, false⟩], [⟨"u3", 16, 0⟩], [], []⟩),
    (9, ⟨9, true, [], [⟨"miner", 10, 0⟩], [], []⟩),
    (8, ⟨8, true, [], [⟨"miner2", 10, 0⟩], [], []⟩)],
  blocks := [
    (10, ⟨10, some 0, 1, [100], "g"⟩),
    (11, ⟨11, some 10, 2, [9, 1], "miner"⟩),
    (12, ⟨12, some 10, 2, [8, 3], "miner2"⟩)] }
private def clS1 : St := (play clEnv {} 0 (clEnv.block 10)).1
private def clS3 : St := (doTx clEnv (doTx clEnv clS1 0 1).1 0 2).1
private def clS4 : St := (play clEnv clS3 0 (clEnv.block 11)).1

private theorem clEnv_lower : ParentLower clEnv := parentLower_of_blocks _ (by decide)

private theorem clS4_Ledger : Ledger clEnv clS4 [100, 9, 1] := by
  have g1 : Ledger clEnv clS1 [100] := by
    have := play_Ledger_full clEnv {} 0 (clEnv.block 10) [] (Ledger_genesis clEnv) (by decide) (by decide) (by decide)
      (by decide)
    rw [if_pos (by decide)] at this
    exact this
  have g2 := doTx_Ledger clEnv clS1 0 1 [100] g1 (fun _ => by decide)
  have g3 : Ledger clEnv clS3 [100] := doTx_Ledger clEnv _ 0 2 [100] g2 (fun _ => by decide)
  have := play_Ledger_full clEnv clS3 0 (clEnv.block 11) [100] g3 (by decide) (by decide) (by decide) (by decide)
  rw [if_pos (by decide)] at this
  exact this

-- genesis, `doTx`, `play`: the hypotheses hold and the steps are accepted
example : (clEnv.block 0).pre = none ∧ (clEnv.block 0).txs = [] ∧ ChainLog clEnv {} [] ∧
    clEnv.block (clEnv.block 10).id = clEnv.block 10 ∧ (play clEnv {} 0 (clEnv.block 10)).2 = .ok ∧
    ChainLog clEnv clS1 [100] ∧ (doTx clEnv clS1 0 1).2 = .ok ∧ ChainLog clEnv clS3 [100] ∧ clS3.pool = [1, 2] ∧
    clEnv.block (clEnv.block 11).id = clEnv.block 11 ∧ (play clEnv clS3 0 (clEnv.block 11)).2 = .ok ∧
    ChainLog clEnv clS4 [100, 9, 1] ∧ clS4.pointer = 11 ∧ clS4.pool = [2] ∧
    (playForMiner clEnv clS3 0 (clEnv.block 11)).2 = .ok ∧
    ChainLog clEnv (playForMiner clEnv clS3 0 (clEnv.block 11)).1 [100, 9, 1] := by decide
example : ChainLog clEnv clS4 ([100] ++ (clEnv.block 11).txs) := by
  have := play_ChainLog clEnv clS3 0 (clEnv.block 11) [100] clEnv_lower (by decide)
    (doTx_ChainLog clEnv _ 0 2 [100] (doTx_ChainLog clEnv clS1 0 1 [100] (by decide)))
  rw [if_pos (by decide)] at this
  exact this
-- the walk from 11 (pool [2]) to the sibling 12: every hypothesis of `walk_Ledger_chain` holds, the walk succeeds, and
-- the log it re-establishes is that of the path 0, 10, 12
example : ParentLower clEnv ∧ Ledger clEnv clS4 [100, 9, 1] ∧ ChainLog clEnv clS4 [100, 9, 1] ∧
    (clEnv.block 12).id = 12 ∧ undoTodo clEnv clS4.pointer 12 = ([11], [12]) ∧
    (blockTxs clEnv (ancestors clEnv (clEnv.blocks.length + 1) 12).reverse).Nodup ∧
    (∀ bi ∈ (undoTodo clEnv clS4.pointer 12).2, (∀ i ∈ (clEnv.block bi).txs, (clEnv.tx i).id = i) ∧
      (∀ i ∈ (clEnv.block bi).txs, (clEnv.tx i).coinbase = true →
        (clEnv.tx i).ins = [] ∧ feeOf (clEnv.tx i).outs = 0)) ∧
    (∀ i ∈ clS4.pool, i ∈ blockTxs clEnv (ancestors clEnv (clEnv.blocks.length + 1) 12).reverse →
      (clEnv.tx i).ins ≠ []) ∧
    (walk clEnv clS4 0 12 false).2 = true ∧ (walk clEnv clS4 0 12 false).1.pointer = 12 ∧
    (walk clEnv clS4 0 12 false).1.pool = [] ∧
    ChainLog clEnv (walk clEnv clS4 0 12 false).1 [100, 8, 3] :=
  ⟨clEnv_lower, clS4_Ledger, by decide, by decide, by decide, by decide, by decide, by decide, by decide, by decide,
    by decide, by decide⟩
example : Ledger clEnv (walk clEnv clS4 0 12 false).1 [100, 8, 3] := by
  obtain ⟨C', c1, c2⟩ := walk_Ledger_chain clEnv clS4 0 12 false [100, 9, 1] clEnv_lower clS4_Ledger (by decide)
    (by decide) (by decide) (by decide) (by decide)
  have h3 : ChainLog clEnv (walk clEnv clS4 0 12 false).1 C' := c2 (by decide)
  have h4 : C' = [100, 8, 3] := by
    unfold ChainLog at h3
    rw [h3]; decide
  rw [← h4]; exact c1

-- ================================================================== the skip list is needed (the defect of the code as found)

/-- `XV.C02.walk_Ledger` without `hskip` (and without the former `hre`: a pending transaction that the new branch confirms
has a token input) -/
def walk_Ledger_noskip_statement : Prop :=
  ∀ (e : Env) (s : St) (lh : Int) (dest : Nat) (prune : Bool) (C C0 : List Nat), Ledger e s C →
    C = C0 ++ blockTxs e (undoTodo e s.pointer dest).1.reverse →
    (C0 ++ blockTxs e (undoTodo e s.pointer dest).2).Nodup →
    (∀ bi ∈ (undoTodo e s.pointer dest).2, (∀ i ∈ (e.block bi).txs, (e.tx i).id = i) ∧
      (∀ i ∈ (e.block bi).txs, (e.tx i).coinbase = true → (e.tx i).ins = [] ∧ feeOf (e.tx i).outs = 0)) →
    ∃ C', Ledger e (walk e s lh dest prune).1 C' ∧
      ((walk e s lh dest prune).2 = true → C' = C0 ++ blockTxs e (undoTodo e s.pointer dest).2)

/-- `walk_Ledger_chain` without `hskip` -/
def walk_Ledger_chain_noskip_statement : Prop :=
  ∀ (e : Env) (s : St) (lh : Int) (dest : Nat) (prune : Bool) (C : List Nat), ParentLower e → Ledger e s C →
    ChainLog e s C → (e.block dest).id = dest →
    (blockTxs e (ancestors e (e.blocks.length + 1) dest).reverse).Nodup →
    (∀ bi ∈ (undoTodo e s.pointer dest).2, (∀ i ∈ (e.block bi).txs, (e.tx i).id = i) ∧
      (∀ i ∈ (e.block bi).txs, (e.tx i).coinbase = true → (e.tx i).ins = [] ∧ feeOf (e.tx i).outs = 0)) →
    ∃ C', Ledger e (walk e s lh dest prune).1 C' ∧
      ((walk e s lh dest prune).2 = true → ChainLog e (walk e s lh dest prune).1 C')

-- THE WITNESS (replayed on the real code: corpus/C13/confirmed-reader-readmitted.ops shows the same with a pure reader).
-- Transactions: 100 = genesis coinbase (16 to u0); 9, 8 = awards;
--   1 = a transaction with NO token input, no output, no key read, no key write: ⟨1, false, [], [], [], []⟩.
-- Blocks: 10 = [100] on the root; 11 = [9] on 10; 12 = [8, 1] on 10 (a sibling of 11 that confirms transaction 1).
-- History: play 10; play 11; submit 1 (admitted: inputs 0 = outputs 0, nothing read)  ->  pointer 11, pool [1].
-- Then `walk` to 12:  1. the pool is rolled back (pool := []);  2. block 11 is undone;  3. block 12 = [8, 1] is applied —
--   transaction 1 is now CONFIRMED;  4. the rolled-back transactions are re-submitted.
-- THE CODE AS FOUND (`recoverUnconfirmedTx` with the skip condition `err != nil && isConfirm`, never true) = the model
--   with the default `skipRepost := []`: transaction 1 is re-submitted; the pool is empty, so the membership test of `doTx`
--   passes, and transaction 1 is admissible on any state (it has no input that block 12 could have spent, no key version
--   that could be stale) — it is RE-ADMITTED. Result: pointer 12, pool [1], and transaction 1 is on the chain (in block
--   12) as well: the same transaction is confirmed and pending at once; the next block built from the pool would confirm
--   it a second time. In terms of the invariant: the log of the path is [100, 8, 1], the pool [1], so `(C ++ pool).Nodup`
--   (`Led.nodupA`) fails.
-- THE REPAIRED CODE (`isConfirmedOnCurrentChain`) = the model with the skip list the ledger supplies, `skipRepost := [1]`:
--   transaction 1 is left out of the re-submission, the pool ends empty, the invariant holds over the log [100, 8, 1].
private def nhEnv : Env := {
  txs := [
    (100, ⟨100, true, [], [⟨"u0", 16, 0⟩], [], []⟩),
    (1, ⟨1, false, [], [], [], []⟩),
    (9, ⟨9, true, [], [⟨"miner", 10, 0⟩], [], []⟩),
    (8, ⟨8, true, [], [⟨"miner2", 10, 0⟩], [], []⟩)],
  blocks := [
    (10, ⟨10, some 0, 1, [100], "g"⟩),
    (11, ⟨11, some 10, 2, [9], "miner"⟩),
    (12, ⟨12, some 10, 2, [8, 1], "miner2"⟩)] }
private def nhS : St := (doTx nhEnv (play nhEnv (play nhEnv {} 0 (nhEnv.block 10)).1 0 (nhEnv.block 11)).1 0 1).1

private theorem nhS_Ledger : Ledger nhEnv nhS [100, 9] := by
  have g1 : Ledger nhEnv (play nhEnv {} 0 (nhEnv.block 10)).1 [100] := by
    have := play_Ledger_full nhEnv {} 0 (nhEnv.block 10) [] (Ledger_genesis nhEnv) (by decide) (by decide) (by decide)
      (by decide)
    rw [if_pos (by decide)] at this
    exact this
  have g2 : Ledger nhEnv (play nhEnv (play nhEnv {} 0 (nhEnv.block 10)).1 0 (nhEnv.block 11)).1 [100, 9] := by
    have := play_Ledger_full nhEnv _ 0 (nhEnv.block 11) [100] g1 (by decide) (by decide) (by decide) (by decide)
    rw [if_pos (by decide)] at this
    exact this
  exact doTx_Ledger nhEnv _ 0 1 [100, 9] g2 (fun _ => by decide)

-- what the model does on the witness with the default environment (nothing skipped: the code as found)
example : nhS.pointer = 11 ∧ nhS.pool = [1] ∧ ChainLog nhEnv nhS [100, 9] ∧
    undoTodo nhEnv nhS.pointer 12 = ([11], [12]) ∧ nhEnv.skipRepost = [] ∧
    (walk nhEnv nhS 0 12 false).2 = true ∧ (walk nhEnv nhS 0 12 false).1.pointer = 12 ∧
    (walk nhEnv nhS 0 12 false).1.pool = [1] ∧ ChainLog nhEnv (walk nhEnv nhS 0 12 false).1 [100, 8, 1] ∧
    (walk nhEnv nhS 0 12 true).2 = true ∧ (walk nhEnv nhS 0 12 true).1.pool = [1] ∧
    -- with a token input instead, the re-submission is refused: transaction 1 of `clEnv` (spends (100, 0)) pending at
    -- block 10, walk to a block 13 = [8, 1] on 10
    (let e13 : Env := { clEnv with blocks := clEnv.blocks ++ [(13, ⟨13, some 10, 2, [8, 1], "miner2"⟩)] }
     let s := (doTx e13 (play e13 {} 0 (e13.block 10)).1 0 1).1
     s.pool = [1] ∧ (walk e13 s 0 13 false).2 = true ∧ (walk e13 s 0 13 false).1.pool = []) := by decide

/-- **the skip list is needed in `walk_Ledger`**: without `hskip` the statement is false. Witness above: with nothing
skipped, a pending transaction with no token input that the destination branch confirms is confirmed by the walk AND
re-admitted to the pool. (Before the repair this theorem read "`hre` is needed": `walk_Ledger_needs_hre`.) -/
theorem walk_Ledger_needs_skip : ¬ walk_Ledger_noskip_statement := by
  intro hst
  obtain ⟨C', c1, c2⟩ := hst nhEnv nhS 0 12 false [100, 9] [100] nhS_Ledger (by decide) (by decide) (by decide)
  have hC : C' = [100, 8, 1] := c2 (by decide)
  have hnd := c1.led.nodupA
  rw [hC] at hnd
  revert hnd
  decide

/-- **the skip list is needed in `walk_Ledger_chain`** as well: on the same witness no log satisfies both `Ledger` and
`ChainLog` after the walk (formerly `walk_Ledger_chain_needs_hre`) -/
theorem walk_Ledger_chain_needs_skip : ¬ walk_Ledger_chain_noskip_statement := by
  intro hst
  obtain ⟨C', c1, c2⟩ := hst nhEnv nhS 0 12 false [100, 9] (parentLower_of_blocks _ (by decide)) nhS_Ledger (by decide)
    (by decide) (by decide) (by decide)
  have h3 : ChainLog nhEnv (walk nhEnv nhS 0 12 false).1 C' := c2 (by decide)
  have hC : C' = [100, 8, 1] := by
    unfold ChainLog at h3
    rw [h3]; decide
  have hnd := c1.led.nodupA
  rw [hC] at hnd
  revert hnd
  decide

/-- **the code as found (nothing skipped): the walk leaves a transaction confirmed and pending at once.** On the witness,
with the default `skipRepost := []`, the walk to block 12 succeeds, the log of the chain walked to is `[100, 8, 1]`, the
pool is `[1]`: transaction 1 occurs twice in `C ++ pool`, so NO ghost log explains the state (`Ledger` fails for the log
of the node's chain). This is defect (1) of `recoverUnconfirmedTx`, reproduced on the Go code. -/
theorem walk_as_found_readmits_confirmed :
    nhEnv.skipRepost = [] ∧ (walk nhEnv nhS 0 12 false).2 = true ∧ (walk nhEnv nhS 0 12 false).1.pool = [1] ∧
    ChainLog nhEnv (walk nhEnv nhS 0 12 false).1 [100, 8, 1] ∧
    ¬ ([100, 8, 1] ++ (walk nhEnv nhS 0 12 false).1.pool).Nodup ∧
    ¬ SkipsConfirmed nhEnv nhS [100, 8, 1] ∧
    ¬ ∃ C', Ledger nhEnv (walk nhEnv nhS 0 12 false).1 C' ∧ ChainLog nhEnv (walk nhEnv nhS 0 12 false).1 C' := by
  refine ⟨by decide, by decide, by decide, by decide, by decide, by decide, ?_⟩
  rintro ⟨C', c1, c2⟩
  have hC : C' = [100, 8, 1] := by
    unfold ChainLog at c2
    rw [c2]; decide
  have hnd := c1.led.nodupA
  rw [hC] at hnd
  revert hnd
  decide

/-- **the repaired code (the skip list the ledger supplies): the same walk keeps the invariant.** On the witness, with the
list `[1]` supplied for the walk (transaction 1 is recorded in block 12, which is on the chain walked to —
`isConfirmedOnCurrentChain`), transaction 1 is not re-submitted: the walk succeeds, the pool ends empty, and the state is
explained by the log `[100, 8, 1]` of the chain walked to — `Ledger` and `ChainLog` hold, in particular
`(C ++ pool).Nodup`. (`XV.C02.walk_Ledger_withSkip`; the invariant is stated in the environment of the history, the walk
runs in that environment with its skip list.) -/
theorem walk_repaired_skips_confirmed :
    (∀ i ∈ nhS.pool, i ∈ [100, 8, 1] → i ∈ [1]) ∧ repostList (nhEnv.withSkip [1]) nhS = [] ∧
    (walk (nhEnv.withSkip [1]) nhS 0 12 false).2 = true ∧ (walk (nhEnv.withSkip [1]) nhS 0 12 false).1.pool = [] ∧
    (walk (nhEnv.withSkip [1]) nhS 0 12 false).1.pointer = 12 ∧
    Ledger nhEnv (walk (nhEnv.withSkip [1]) nhS 0 12 false).1 [100, 8, 1] ∧
    ChainLog nhEnv (walk (nhEnv.withSkip [1]) nhS 0 12 false).1 [100, 8, 1] ∧
    ([100, 8, 1] ++ (walk (nhEnv.withSkip [1]) nhS 0 12 false).1.pool).Nodup := by
  have g : Ledger nhEnv (walk (nhEnv.withSkip [1]) nhS 0 12 false).1 [100, 8, 1] := by
    obtain ⟨C', c1, c2⟩ := XV.C02.walk_Ledger_withSkip nhEnv [1] nhS 0 12 false [100, 9] [100] nhS_Ledger (by decide)
      (by decide) (by decide) (by decide)
    have hC : C' = [100, 8, 1] := (c2 (by decide)).trans (by decide)
    rw [hC] at c1
    exact c1
  exact ⟨by decide, by decide, by decide, by decide, by decide, g, by decide, by decide⟩

-- ================================================================== the chain-shape invariant in every outcome of a walk

/-- undoing the block at the pointer takes its transactions off the log: the path of the parent is the path without it
(for a root block the pointer goes to `0`, whose path carries no transaction: `hgen`) -/
theorem undoBlock_ChainLog (e : Env) (hpl : ParentLower e) (hgen : ChainLog e {} []) (st : St) (prune : Bool)
    (C0 : List Nat) (h : ChainLog e st (C0 ++ (e.block st.pointer).txs)) :
    ChainLog e (undoBlock e st (e.block st.pointer) prune) C0 := by
  unfold ChainLog at h ⊢
  have hptr : (undoBlock e st (e.block st.pointer) prune).pointer = (e.block st.pointer).pre.getD 0 := rfl
  rw [hptr]
  cases hp : (e.block st.pointer).pre with
  | none =>
    rw [ancestors_succ_none e _ st.pointer hp] at h
    have h' : C0 ++ (e.block st.pointer).txs = [] ++ (e.block st.pointer).txs := by
      rw [h]; simp [blockTxs]
    rw [List.append_cancel_right h']
    exact hgen
  | some q =>
    rw [ancestors_child e hpl st.pointer q hp, List.reverse_cons, blockTxs_snoc] at h
    exact List.append_cancel_right h

/-- **the undo loop of `walk` keeps (`Ledger`, `ChainLog`) at every block it stops at**: started on a prefix `undo` of the
ancestor list of the pointer with the log `C0 ++` the transactions of those blocks, it ends — completed or refused at the
irreversible height — in a state that satisfies both invariants for some log, which is `C0` if it completed -/
theorem undoAll_LedgerChain (e : Env) (prune : Bool) (hpl : ParentLower e) (hgen : ChainLog e {} [])
    (undo : List Nat) : ∀ (st : St) (C0 : List Nat),
    Ledger e st (C0 ++ blockTxs e undo.reverse) → st.pool = [] → ChainLog e st (C0 ++ blockTxs e undo.reverse) →
    (∃ tl, ancestors e (e.blocks.length + 1) st.pointer = undo ++ tl) →
    ∃ C', Ledger e (walk.undoAll e prune undo st).1 C' ∧ (walk.undoAll e prune undo st).1.pool = [] ∧
      ChainLog e (walk.undoAll e prune undo st).1 C' ∧ ((walk.undoAll e prune undo st).2 = true → C' = C0) := by
  induction undo with
  | nil =>
    intro st C0 h hp hc _
    unfold walk.undoAll
    have hC : C0 ++ blockTxs e ([] : List Nat).reverse = C0 := by simp [blockTxs]
    rw [hC] at h hc
    exact ⟨C0, h, hp, hc, fun _ => rfl⟩
  | cons bi rest ih =>
    intro st C0 h hp hc hpre
    unfold walk.undoAll
    simp only
    split
    · exact ⟨_, h, hp, hc, by simp⟩
    · obtain ⟨tl, htl⟩ := hpre
      obtain ⟨hbi, hrest⟩ := ancestors_prefix_step e hpl st.pointer bi rest tl htl
      subst hbi
      rw [List.reverse_cons, blockTxs_snoc, ← List.append_assoc] at h hc
      obtain ⟨h1, h2⟩ := undoBlock_Ledger e st (e.block st.pointer) prune _ h hp
      have h3 := undoBlock_ChainLog e hpl hgen st prune _ hc
      exact ih _ C0 h1 h2 h3 hrest

/-- **the apply loop of `walk` keeps (`Ledger`, `ChainLog`) at every block it stops at**: `P ++ T` is the path root..dest
(`hpath`), `done` the blocks of `T` already applied, `todo` those still to apply; the state satisfies `Ledger` for the log
of `P ++ done` and has an empty pool. Whether the loop completes or a block fails admission, the result satisfies both
invariants for some log — the log of the whole path if it completed. For `done = []` (nothing applied yet) the chain shape
of the start state is a hypothesis (`hc0`); after one block it follows from the path. -/
theorem todoAll_LedgerChain (e : Env) (lh : Int) (hpl : ParentLower e) (dest : Nat) (P T : List Nat)
    (hpath : (ancestors e (e.blocks.length + 1) dest).reverse = P ++ T)
    (hids : ∀ bi ∈ T, (e.block bi).id = bi)
    (hnd : (blockTxs e (P ++ T)).Nodup)
    (hblk : ∀ bi ∈ T, (∀ i ∈ (e.block bi).txs, (e.tx i).id = i) ∧
      (∀ i ∈ (e.block bi).txs, (e.tx i).coinbase = true → (e.tx i).ins = [] ∧ feeOf (e.tx i).outs = 0))
    (todo : List Nat) : ∀ (done : List Nat) (st : St), T = done ++ todo →
    Ledger e st (blockTxs e (P ++ done)) → st.pool = [] → ChainLog e st (blockTxs e (P ++ done)) →
    ∃ C', Ledger e (walk.todoAll e lh todo st).1 C' ∧ (walk.todoAll e lh todo st).1.pool = [] ∧
      ChainLog e (walk.todoAll e lh todo st).1 C' ∧
      ((walk.todoAll e lh todo st).2 = true → C' = blockTxs e (P ++ T)) := by
  induction todo with
  | nil =>
    intro done st hT h hp hc
    unfold walk.todoAll
    rw [List.append_nil] at hT
    exact ⟨_, h, hp, hc, fun _ => by rw [hT]⟩
  | cons bi rest ih =>
    intro done st hT h hp hc
    unfold walk.todoAll
    have hbiT : bi ∈ T := by rw [hT]; simp
    obtain ⟨b1, b2⟩ := hblk bi hbiT
    cases htb : todoBlock e st lh (e.block bi) with
    | none => exact ⟨_, h, hp, hc, by simp⟩
    | some st' =>
      simp only
      have hsplit : blockTxs e (P ++ T) = blockTxs e (P ++ done) ++ ((e.block bi).txs ++ blockTxs e rest) := by
        rw [hT, ← List.append_assoc, blockTxs_append, blockTxs_cons]
      rw [hsplit] at hnd
      obtain ⟨_, hndR, hdis⟩ := List.nodup_append.mp hnd
      obtain ⟨t1, t2⟩ := todoBlock_Ledger e st st' lh (e.block bi) _ htb h hp
        (List.nodup_append.mp hndR).1 b1
        (fun i hi hc' => hdis i hc' i (List.mem_append_left _ hi) rfl) b2
      have hdone : blockTxs e (P ++ done) ++ (e.block bi).txs = blockTxs e (P ++ (done ++ [bi])) := by
        rw [← List.append_assoc, blockTxs_snoc]
      rw [hdone] at t1
      have hc' : ChainLog e st' (blockTxs e (P ++ (done ++ [bi]))) := by
        unfold ChainLog
        rw [todoBlock_pointer e st st' lh (e.block bi) htb, hids bi hbiT,
          path_prefix e hpl dest bi (P ++ done) rest (by rw [hpath, hT, List.append_assoc]), List.append_assoc]
      exact ih (done ++ [bi]) st' (by rw [hT, List.append_assoc]; rfl) t1 t2 hc'

/-- the block part of `walk` (`walkCore`: roll-back of the pool, undo loop, apply loop) keeps the invariants of
`walk_Ledger_chain_full`, in every outcome; the pool is empty afterwards -/
theorem walkCore_Ledger_chain (e : Env) (s : St) (lh : Int) (dest : Nat) (prune : Bool) (C : List Nat)
    (hpl : ParentLower e) (hgen : ChainLog e {} []) (h : Ledger e s C) (hc : ChainLog e s C)
    (hids : ∀ bi ∈ (undoTodo e s.pointer dest).2, (e.block bi).id = bi)
    (hnd : (blockTxs e (ancestors e (e.blocks.length + 1) dest).reverse).Nodup)
    (hblk : ∀ bi ∈ (undoTodo e s.pointer dest).2, (∀ i ∈ (e.block bi).txs, (e.tx i).id = i) ∧
      (∀ i ∈ (e.block bi).txs, (e.tx i).coinbase = true → (e.tx i).ins = [] ∧ feeOf (e.tx i).outs = 0)) :
    ∃ C', Ledger e (XV.Crash.walkCore e s lh dest prune).1 C' ∧ ChainLog e (XV.Crash.walkCore e s lh dest prune).1 C' ∧
      ((XV.Crash.walkCore e s lh dest prune).2 = true →
        C' = blockTxs e (ancestors e (e.blocks.length + 1) dest).reverse) := by
  obtain ⟨pre, p1, p2⟩ := undoTodo_paths e s.pointer dest hpl
  have hcur : ancestors e (e.blocks.length + 1) s.pointer = (undoTodo e s.pointer dest).1 ++ pre.reverse := by
    have := congrArg List.reverse p1
    rw [List.reverse_reverse] at this
    rw [this]; simp
  have hC : C = blockTxs e pre ++ blockTxs e (undoTodo e s.pointer dest).1.reverse := by
    unfold ChainLog at hc
    rw [hc, p1, blockTxs_append]
  unfold XV.Crash.walkCore XV.Crash.rolledBack
  simp only
  -- step 1: roll the pool back
  have hl := h.led
  obtain ⟨_, hndP, _⟩ := List.nodup_append.mp hl.nodupA
  obtain ⟨_, hoP, _⟩ := List.pairwise_append.mp hl.order
  have hndr : s.pool.reverse.Nodup := by
    unfold List.Nodup
    rw [List.pairwise_reverse]
    exact List.Pairwise.imp (fun h => fun e2 => h e2.symm) hndP
  have hfold := undoFold_LedSum e s.pool.reverse s C s.pool h hndr (fun t ht => List.mem_reverse.mp ht)
    (by rw [List.pairwise_reverse]; exact hoP) (fun t _ j hj _ => List.mem_reverse.mpr hj)
  have hnil : s.pool.filter (fun x => !s.pool.reverse.contains x) = [] := by
    apply List.filter_eq_nil_iff.mpr; intro a ha; simp [ha]
  rw [hnil] at hfold
  have hptr0 : ({ (s.pool.reverse.foldl (fun st i => undoTx e st (e.tx i)) s) with pool := [] } : St).pointer
      = s.pointer := foldl_undoTx_pointer e s.pool.reverse s
  have h0 : Ledger e { (s.pool.reverse.foldl (fun st i => undoTx e st (e.tx i)) s) with pool := [] }
      (blockTxs e pre ++ blockTxs e (undoTodo e s.pointer dest).1.reverse) := by
    rw [← hC]; exact LedSum.congr hfold rfl rfl
  have hc0 : ChainLog e { (s.pool.reverse.foldl (fun st i => undoTx e st (e.tx i)) s) with pool := [] }
      (blockTxs e pre ++ blockTxs e (undoTodo e s.pointer dest).1.reverse) := by
    rw [← hC]
    unfold ChainLog at hc ⊢
    rw [hptr0]; exact hc
  -- step 2: undo blocks
  obtain ⟨C1, u1, u2, u3, u4⟩ := undoAll_LedgerChain e prune hpl hgen (undoTodo e s.pointer dest).1 _ (blockTxs e pre)
    h0 rfl hc0 ⟨pre.reverse, by rw [hptr0]; exact hcur⟩
  cases hr1 : (walk.undoAll e prune (undoTodo e s.pointer dest).1
      { (s.pool.reverse.foldl (fun st i => undoTx e st (e.tx i)) s) with pool := [] }).2 with
  | false => exact ⟨C1, by simpa [hr1] using u1, by simpa [hr1] using u3, by simp [hr1]⟩
  | true =>
    simp only [hr1, Bool.not_true, Bool.false_eq_true, ↓reduceIte]
    have hC1 := u4 hr1
    rw [hC1] at u1 u3
    -- step 3: apply blocks
    obtain ⟨C2, t1, t2, t3, t4⟩ := todoAll_LedgerChain e lh hpl dest pre (undoTodo e s.pointer dest).2 p2 hids
      (by rw [← p2]; exact hnd) hblk (undoTodo e s.pointer dest).2 [] _ rfl
      (by rw [List.append_nil]; exact u1) u2 (by rw [List.append_nil]; exact u3)
    cases hr2 : (walk.todoAll e lh (undoTodo e s.pointer dest).2
        (walk.undoAll e prune (undoTodo e s.pointer dest).1
          { (s.pool.reverse.foldl (fun st i => undoTx e st (e.tx i)) s) with pool := [] }).1).2 with
    | false => exact ⟨C2, by simpa [hr2] using t1, by simpa [hr2] using t3, by simp [hr2]⟩
    | true =>
      simp only [hr2, Bool.not_true, Bool.false_eq_true, ↓reduceIte]
      have hC2 := t4 hr2
      rw [hC2, ← p2] at t1 t3
      exact ⟨_, t1, t3, fun _ => rfl⟩

/-- `walk` with ANY re-admission list `L` taken from the old pool keeps the pair (`Ledger`, `ChainLog`) in every outcome
(`hre`: a re-submitted transaction that the destination's path confirms has a token input) -/
theorem walkL_Ledger_chain (e : Env) (s : St) (lh : Int) (dest : Nat) (prune : Bool) (C : List Nat)
    (hpl : ParentLower e) (hgen : ChainLog e {} []) (h : Ledger e s C) (hc : ChainLog e s C)
    (hids : ∀ bi ∈ (undoTodo e s.pointer dest).2, (e.block bi).id = bi)
    (hnd : (blockTxs e (ancestors e (e.blocks.length + 1) dest).reverse).Nodup)
    (hblk : ∀ bi ∈ (undoTodo e s.pointer dest).2, (∀ i ∈ (e.block bi).txs, (e.tx i).id = i) ∧
      (∀ i ∈ (e.block bi).txs, (e.tx i).coinbase = true → (e.tx i).ins = [] ∧ feeOf (e.tx i).outs = 0))
    (L : List Nat) (hL : ∀ i ∈ L, i ∈ s.pool)
    (hre : ∀ i ∈ L, i ∈ blockTxs e (ancestors e (e.blocks.length + 1) dest).reverse → (e.tx i).ins ≠ []) :
    ∃ C', Ledger e (if (XV.Crash.walkCore e s lh dest prune).2 = true then
          (L.foldl (fun st i => (doTx e st lh i).1) (XV.Crash.walkCore e s lh dest prune).1, true)
        else ((XV.Crash.walkCore e s lh dest prune).1, false)).1 C' ∧
      ChainLog e (if (XV.Crash.walkCore e s lh dest prune).2 = true then
          (L.foldl (fun st i => (doTx e st lh i).1) (XV.Crash.walkCore e s lh dest prune).1, true)
        else ((XV.Crash.walkCore e s lh dest prune).1, false)).1 C' ∧
      ((if (XV.Crash.walkCore e s lh dest prune).2 = true then
          (L.foldl (fun st i => (doTx e st lh i).1) (XV.Crash.walkCore e s lh dest prune).1, true)
        else ((XV.Crash.walkCore e s lh dest prune).1, false)).2 = true →
        C' = blockTxs e (ancestors e (e.blocks.length + 1) dest).reverse) := by
  obtain ⟨C', c1, c2, c3⟩ := walkCore_Ledger_chain e s lh dest prune C hpl hgen h hc hids hnd hblk
  by_cases hok : (XV.Crash.walkCore e s lh dest prune).2 = true
  · rw [if_pos hok]
    have hC := c3 hok
    rw [hC] at c1 c2
    refine ⟨_, readmit_Ledger e lh L _ _ c1 ?_, ?_, fun _ => rfl⟩
    · intro i hi
      exact ⟨h.led.idEq i (List.mem_append_right _ (hL i hi)), h.poolNonCoinbase i (hL i hi), hre i hi⟩
    · unfold ChainLog at c2 ⊢
      rw [foldl_doTx_pointer]; exact c2
  · rw [if_neg hok]
    exact ⟨C', c1, c2, fun hf => by cases hf⟩

/-- **`walk` keeps the pair (`Ledger`, `ChainLog`) in EVERY outcome** — success, an undo refused at the irreversible
height, a block of the new branch that fails admission. In the two failing outcomes the node stays at an intermediate
block (on the old branch above the fork point, at the fork point, or part of the way up the new branch) with an empty
pool, and the log that explains its tables is the log of the path of that block. On success the log is that of the
destination's path. Hypotheses as for `walk_Ledger_chain`, with two changes: the blocks to apply are known to the
environment under their ids (`hids`; it replaces `(e.block dest).id = dest`, and is what puts the pointer where the log
says after each applied block), and the path of the initial pointer `0` carries no transaction (`hgen`, see
`ChainLog_genesis`; used when a root block is undone). -/
theorem walk_Ledger_chain_full (e : Env) (s : St) (lh : Int) (dest : Nat) (prune : Bool) (C : List Nat)
    (hpl : ParentLower e) (hgen : ChainLog e {} []) (h : Ledger e s C) (hc : ChainLog e s C)
    (hids : ∀ bi ∈ (undoTodo e s.pointer dest).2, (e.block bi).id = bi)
    (hnd : (blockTxs e (ancestors e (e.blocks.length + 1) dest).reverse).Nodup)
    (hblk : ∀ bi ∈ (undoTodo e s.pointer dest).2, (∀ i ∈ (e.block bi).txs, (e.tx i).id = i) ∧
      (∀ i ∈ (e.block bi).txs, (e.tx i).coinbase = true → (e.tx i).ins = [] ∧ feeOf (e.tx i).outs = 0))
    (hskip : SkipsConfirmed e s (blockTxs e (ancestors e (e.blocks.length + 1) dest).reverse)) :
    ∃ C', Ledger e (walk e s lh dest prune).1 C' ∧ ChainLog e (walk e s lh dest prune).1 C' ∧
      ((walk e s lh dest prune).2 = true →
        C' = blockTxs e (ancestors e (e.blocks.length + 1) dest).reverse) := by
  rw [XV.Crash.walk_eq_core]
  exact walkL_Ledger_chain e s lh dest prune C hpl hgen h hc hids hnd hblk (repostList e s) (repostList_subset e s)
    (fun i hi hcf => absurd hcf (hskip.not_confirmed i hi))

/-- the same with the skip list supplied for this walk (`e.withSkip l`; the invariants are stated in the fixed environment
`e` of the history): `l` names every pending transaction that the destination's path confirms -/
theorem walk_Ledger_chain_full_withSkip (e : Env) (l : List Nat) (s : St) (lh : Int) (dest : Nat) (prune : Bool) (C : List Nat)
    (hpl : ParentLower e) (hgen : ChainLog e {} []) (h : Ledger e s C) (hc : ChainLog e s C)
    (hids : ∀ bi ∈ (undoTodo e s.pointer dest).2, (e.block bi).id = bi)
    (hnd : (blockTxs e (ancestors e (e.blocks.length + 1) dest).reverse).Nodup)
    (hblk : ∀ bi ∈ (undoTodo e s.pointer dest).2, (∀ i ∈ (e.block bi).txs, (e.tx i).id = i) ∧
      (∀ i ∈ (e.block bi).txs, (e.tx i).coinbase = true → (e.tx i).ins = [] ∧ feeOf (e.tx i).outs = 0))
    (hskip : ∀ i ∈ s.pool, i ∈ blockTxs e (ancestors e (e.blocks.length + 1) dest).reverse → i ∈ l) :
    ∃ C', Ledger e (walk (e.withSkip l) s lh dest prune).1 C' ∧
      ChainLog e (walk (e.withSkip l) s lh dest prune).1 C' ∧
      ((walk (e.withSkip l) s lh dest prune).2 = true →
        C' = blockTxs e (ancestors e (e.blocks.length + 1) dest).reverse) := by
  rw [XV.Crash.walk_withSkip]
  apply walkL_Ledger_chain e s lh dest prune C hpl hgen h hc hids hnd hblk _ (fun i hi => (List.mem_filter.mp hi).1)
  intro i hi hcf
  obtain ⟨hp, hn⟩ := List.mem_filter.mp hi
  have : i ∈ l := hskip i hp hcf
  simp [this] at hn

-- non-vacuity of `walk_Ledger_chain_full`, on the two FAILING outcomes. The tree of `clEnv` with slide window 1 and two more
-- blocks: 13 = [7 (award)] on 11, and 14 = [6 (award), 2] on 12 — transaction 2 spends an output of transaction 1, which is
-- not on the branch of 12, so block 14 fails admission.
--   node A: blocks 10, 11 played, pool [2], irreversible height 1. Walk to 14: 11 undone, 12 applied, 14 FAILS -> the node
--     stays at 12 with an empty pool, log [100, 8, 3].
--   node B: A + block 13, irreversible height 2. Non-pruning walk to 12: 13 undone, the undo of 11 (height 2) is REFUSED
--     -> the node stays at 11 with an empty pool, log [100, 9, 1]. (The pruning walk succeeds.)
private def wfEnv : Env := { clEnv with
  window := 1,
  -- the skip list the ledger supplies for the walk to 14 (block 14 confirms the pending transaction 2); harmless for the
  -- walk to 12, whose chain does not confirm 2: the re-submission of 2 would be refused there anyway (its input is gone)
  skipRepost := [2],
  txs := clEnv.txs ++ [(7, ⟨7, true, [], [⟨"miner", 10, 0⟩], [], []⟩), (6, ⟨6, true, [], [⟨"miner2", 10, 0⟩], [], []⟩)],
  blocks := clEnv.blocks ++ [(13, ⟨13, some 11, 3, [7], "miner"⟩), (14, ⟨14, some 12, 3, [6, 2], "miner2"⟩)] }
private def wfA : St :=
  (play wfEnv (doTx wfEnv (doTx wfEnv (play wfEnv {} 0 (wfEnv.block 10)).1 0 1).1 0 2).1 0 (wfEnv.block 11)).1
private def wfB : St := (play wfEnv wfA 0 (wfEnv.block 13)).1

private theorem wfEnv_lower : ParentLower wfEnv := parentLower_of_blocks _ (by decide)

private theorem wfA_Ledger : Ledger wfEnv wfA [100, 9, 1] := by
  have g1 : Ledger wfEnv (play wfEnv {} 0 (wfEnv.block 10)).1 [100] := by
    have := play_Ledger_full wfEnv {} 0 (wfEnv.block 10) [] (Ledger_genesis wfEnv) (by decide) (by decide) (by decide)
      (by decide)
    rw [if_pos (by decide)] at this
    exact this
  have g2 := doTx_Ledger wfEnv _ 0 1 [100] g1 (fun _ => by decide)
  have g3 := doTx_Ledger wfEnv _ 0 2 [100] g2 (fun _ => by decide)
  have := play_Ledger_full wfEnv _ 0 (wfEnv.block 11) [100] g3 (by decide) (by decide) (by decide) (by decide)
  rw [if_pos (by decide)] at this
  exact this

private theorem wfB_Ledger : Ledger wfEnv wfB [100, 9, 1, 7] := by
  have := play_Ledger_full wfEnv wfA 0 (wfEnv.block 13) [100, 9, 1] wfA_Ledger (by decide) (by decide) (by decide)
    (by decide)
  rw [if_pos (by decide)] at this
  exact this

-- a block of the new branch fails admission
example : ParentLower wfEnv ∧ ChainLog wfEnv {} [] ∧ Ledger wfEnv wfA [100, 9, 1] ∧ ChainLog wfEnv wfA [100, 9, 1] ∧
    wfA.pointer = 11 ∧ wfA.pool = [2] ∧ wfA.irrev = 1 ∧ undoTodo wfEnv wfA.pointer 14 = ([11], [12, 14]) ∧
    (∀ bi ∈ (undoTodo wfEnv wfA.pointer 14).2, (wfEnv.block bi).id = bi) ∧
    (blockTxs wfEnv (ancestors wfEnv (wfEnv.blocks.length + 1) 14).reverse).Nodup ∧
    (∀ bi ∈ (undoTodo wfEnv wfA.pointer 14).2, (∀ i ∈ (wfEnv.block bi).txs, (wfEnv.tx i).id = i) ∧
      (∀ i ∈ (wfEnv.block bi).txs, (wfEnv.tx i).coinbase = true →
        (wfEnv.tx i).ins = [] ∧ feeOf (wfEnv.tx i).outs = 0)) ∧
    SkipsConfirmed wfEnv wfA (blockTxs wfEnv (ancestors wfEnv (wfEnv.blocks.length + 1) 14).reverse) ∧
    (walk wfEnv wfA 0 14 false).2 = false ∧ (walk wfEnv wfA 0 14 false).1.pointer = 12 ∧
    (walk wfEnv wfA 0 14 false).1.pool = [] ∧ ChainLog wfEnv (walk wfEnv wfA 0 14 false).1 [100, 8, 3] :=
  ⟨wfEnv_lower, by decide, wfA_Ledger, by decide, by decide, by decide, by decide, by decide, by decide, by decide,
    by decide, by decide, by decide, by decide, by decide, by decide⟩
example : Ledger wfEnv (walk wfEnv wfA 0 14 false).1 [100, 8, 3] := by
  obtain ⟨C', c1, c2, _⟩ := walk_Ledger_chain_full wfEnv wfA 0 14 false [100, 9, 1] wfEnv_lower (by decide) wfA_Ledger
    (by decide) (by decide) (by decide) (by decide) (by decide)
  have h4 : C' = [100, 8, 3] := by
    unfold ChainLog at c2
    rw [c2]; decide
  rw [← h4]; exact c1
-- an undo refused at the irreversible height
example : Ledger wfEnv wfB [100, 9, 1, 7] ∧ ChainLog wfEnv wfB [100, 9, 1, 7] ∧
    wfB.pointer = 13 ∧ wfB.pool = [2] ∧ wfB.irrev = 2 ∧ undoTodo wfEnv wfB.pointer 12 = ([13, 11], [12]) ∧
    (∀ bi ∈ (undoTodo wfEnv wfB.pointer 12).2, (wfEnv.block bi).id = bi) ∧
    (blockTxs wfEnv (ancestors wfEnv (wfEnv.blocks.length + 1) 12).reverse).Nodup ∧
    (∀ bi ∈ (undoTodo wfEnv wfB.pointer 12).2, (∀ i ∈ (wfEnv.block bi).txs, (wfEnv.tx i).id = i) ∧
      (∀ i ∈ (wfEnv.block bi).txs, (wfEnv.tx i).coinbase = true →
        (wfEnv.tx i).ins = [] ∧ feeOf (wfEnv.tx i).outs = 0)) ∧
    SkipsConfirmed wfEnv wfB (blockTxs wfEnv (ancestors wfEnv (wfEnv.blocks.length + 1) 12).reverse) ∧
    (walk wfEnv wfB 0 12 false).2 = false ∧ (walk wfEnv wfB 0 12 false).1.pointer = 11 ∧
    (walk wfEnv wfB 0 12 false).1.pool = [] ∧ ChainLog wfEnv (walk wfEnv wfB 0 12 false).1 [100, 9, 1] ∧
    (walk wfEnv wfB 0 12 true).2 = true ∧ ChainLog wfEnv (walk wfEnv wfB 0 12 true).1 [100, 8, 3] :=
  ⟨wfB_Ledger, by decide, by decide, by decide, by decide, by decide, by decide, by decide, by decide, by decide,
    by decide, by decide, by decide, by decide, by decide, by decide⟩
example : Ledger wfEnv (walk wfEnv wfB 0 12 false).1 [100, 9, 1] := by
  obtain ⟨C', c1, c2, _⟩ := walk_Ledger_chain_full wfEnv wfB 0 12 false [100, 9, 1, 7] wfEnv_lower (by decide) wfB_Ledger
    (by decide) (by decide) (by decide) (by decide) (by decide)
  have h4 : C' = [100, 9, 1] := by
    unfold ChainLog at c2
    rw [c2]; decide
  rw [← h4]; exact c1

-- ================================================================== the joint invariant: tokens, key versions, chain shape

/-- **the undo loop of `walk` keeps the triple (`Ledger`, `LedgerK`, `ChainLog`) at every block it stops at**
(`undoAll_LedgerChain` with the key tables) -/
theorem undoAll_LedgerAllChain (e : Env) (prune : Bool) (hpl : ParentLower e) (hgen : ChainLog e {} [])
    (undo : List Nat) : ∀ (st : St) (C0 : List Nat),
    LedgerAll e st (C0 ++ blockTxs e undo.reverse) → st.pool = [] → ChainLog e st (C0 ++ blockTxs e undo.reverse) →
    (∃ tl, ancestors e (e.blocks.length + 1) st.pointer = undo ++ tl) →
    ∃ C', LedgerAll e (walk.undoAll e prune undo st).1 C' ∧ (walk.undoAll e prune undo st).1.pool = [] ∧
      ChainLog e (walk.undoAll e prune undo st).1 C' ∧ ((walk.undoAll e prune undo st).2 = true → C' = C0) := by
  induction undo with
  | nil =>
    intro st C0 h hp hc _
    unfold walk.undoAll
    have hC : C0 ++ blockTxs e ([] : List Nat).reverse = C0 := by simp [blockTxs]
    rw [hC] at h hc
    exact ⟨C0, h, hp, hc, fun _ => rfl⟩
  | cons bi rest ih =>
    intro st C0 h hp hc hpre
    unfold walk.undoAll
    simp only
    split
    · exact ⟨_, h, hp, hc, by simp⟩
    · obtain ⟨tl, htl⟩ := hpre
      obtain ⟨hbi, hrest⟩ := ancestors_prefix_step e hpl st.pointer bi rest tl htl
      subst hbi
      rw [List.reverse_cons, blockTxs_snoc, ← List.append_assoc] at h hc
      obtain ⟨h1, h2⟩ := undoBlock_Ledger e st (e.block st.pointer) prune _ h.1 hp
      obtain ⟨k1, _⟩ := undoBlock_LedgerK e st (e.block st.pointer) prune _ h.2 hp
      have h3 := undoBlock_ChainLog e hpl hgen st prune _ hc
      exact ih _ C0 ⟨h1, k1⟩ h2 h3 hrest

/-- **the apply loop of `walk` keeps the triple at every block it stops at** (`todoAll_LedgerChain` with the key tables;
`hblk` also asks one write per key of the transactions of the blocks to apply) -/
theorem todoAll_LedgerAllChain (e : Env) (lh : Int) (hpl : ParentLower e) (dest : Nat) (P T : List Nat)
    (hpath : (ancestors e (e.blocks.length + 1) dest).reverse = P ++ T)
    (hids : ∀ bi ∈ T, (e.block bi).id = bi)
    (hnd : (blockTxs e (P ++ T)).Nodup)
    (hblk : ∀ bi ∈ T, (∀ i ∈ (e.block bi).txs, (e.tx i).id = i) ∧
      (∀ i ∈ (e.block bi).txs, (e.tx i).coinbase = true → (e.tx i).ins = [] ∧ feeOf (e.tx i).outs = 0) ∧
      (∀ i ∈ (e.block bi).txs, ((e.tx i).kout.map (·.key)).Nodup))
    (todo : List Nat) : ∀ (done : List Nat) (st : St), T = done ++ todo →
    LedgerAll e st (blockTxs e (P ++ done)) → st.pool = [] → ChainLog e st (blockTxs e (P ++ done)) →
    ∃ C', LedgerAll e (walk.todoAll e lh todo st).1 C' ∧ (walk.todoAll e lh todo st).1.pool = [] ∧
      ChainLog e (walk.todoAll e lh todo st).1 C' ∧
      ((walk.todoAll e lh todo st).2 = true → C' = blockTxs e (P ++ T)) := by
  induction todo with
  | nil =>
    intro done st hT h hp hc
    unfold walk.todoAll
    rw [List.append_nil] at hT
    exact ⟨_, h, hp, hc, fun _ => by rw [hT]⟩
  | cons bi rest ih =>
    intro done st hT h hp hc
    unfold walk.todoAll
    have hbiT : bi ∈ T := by rw [hT]; simp
    obtain ⟨b1, b2, b3⟩ := hblk bi hbiT
    cases htb : todoBlock e st lh (e.block bi) with
    | none => exact ⟨_, h, hp, hc, by simp⟩
    | some st' =>
      simp only
      have hsplit : blockTxs e (P ++ T) = blockTxs e (P ++ done) ++ ((e.block bi).txs ++ blockTxs e rest) := by
        rw [hT, ← List.append_assoc, blockTxs_append, blockTxs_cons]
      rw [hsplit] at hnd
      obtain ⟨_, hndR, hdis⟩ := List.nodup_append.mp hnd
      have hnewC : ∀ i ∈ (e.block bi).txs, i ∉ blockTxs e (P ++ done) :=
        fun i hi hc' => hdis i hc' i (List.mem_append_left _ hi) rfl
      obtain ⟨t1, t2⟩ := todoBlock_Ledger e st st' lh (e.block bi) _ htb h.1 hp
        (List.nodup_append.mp hndR).1 b1 hnewC b2
      obtain ⟨k1, _⟩ := todoBlock_LedgerK e st st' lh (e.block bi) _ htb h.2 hp
        (List.nodup_append.mp hndR).1 b1 hnewC b3
      have hdone : blockTxs e (P ++ done) ++ (e.block bi).txs = blockTxs e (P ++ (done ++ [bi])) := by
        rw [← List.append_assoc, blockTxs_snoc]
      rw [hdone] at t1 k1
      have hc' : ChainLog e st' (blockTxs e (P ++ (done ++ [bi]))) := by
        unfold ChainLog
        rw [todoBlock_pointer e st st' lh (e.block bi) htb, hids bi hbiT,
          path_prefix e hpl dest bi (P ++ done) rest (by rw [hpath, hT, List.append_assoc]), List.append_assoc]
      exact ih (done ++ [bi]) st' (by rw [hT, List.append_assoc]; rfl) ⟨t1, k1⟩ t2 hc'

/-- the block part of `walk` (`walkCore`) keeps the triple of `walk_LedgerAll_chain_full`, in every outcome -/
theorem walkCore_LedgerAll_chain (e : Env) (s : St) (lh : Int) (dest : Nat) (prune : Bool) (C : List Nat)
    (hpl : ParentLower e) (hgen : ChainLog e {} []) (h : LedgerAll e s C) (hc : ChainLog e s C)
    (hids : ∀ bi ∈ (undoTodo e s.pointer dest).2, (e.block bi).id = bi)
    (hnd : (blockTxs e (ancestors e (e.blocks.length + 1) dest).reverse).Nodup)
    (hblk : ∀ bi ∈ (undoTodo e s.pointer dest).2, (∀ i ∈ (e.block bi).txs, (e.tx i).id = i) ∧
      (∀ i ∈ (e.block bi).txs, (e.tx i).coinbase = true → (e.tx i).ins = [] ∧ feeOf (e.tx i).outs = 0) ∧
      (∀ i ∈ (e.block bi).txs, ((e.tx i).kout.map (·.key)).Nodup)) :
    ∃ C', LedgerAll e (XV.Crash.walkCore e s lh dest prune).1 C' ∧ ChainLog e (XV.Crash.walkCore e s lh dest prune).1 C' ∧
      ((XV.Crash.walkCore e s lh dest prune).2 = true →
        C' = blockTxs e (ancestors e (e.blocks.length + 1) dest).reverse) := by
  obtain ⟨pre, p1, p2⟩ := undoTodo_paths e s.pointer dest hpl
  have hcur : ancestors e (e.blocks.length + 1) s.pointer = (undoTodo e s.pointer dest).1 ++ pre.reverse := by
    have := congrArg List.reverse p1
    rw [List.reverse_reverse] at this
    rw [this]; simp
  have hC : C = blockTxs e pre ++ blockTxs e (undoTodo e s.pointer dest).1.reverse := by
    unfold ChainLog at hc
    rw [hc, p1, blockTxs_append]
  unfold XV.Crash.walkCore XV.Crash.rolledBack
  simp only
  -- step 1: roll the pool back
  have hl := h.1.led
  have hk := h.2
  obtain ⟨_, hndP, hCP⟩ := List.nodup_append.mp hl.nodupA
  obtain ⟨_, hoP, _⟩ := List.pairwise_append.mp hl.order
  obtain ⟨_, hkP, hkCP⟩ := List.pairwise_append.mp hk.orderK
  have hndr : s.pool.reverse.Nodup := by
    unfold List.Nodup
    rw [List.pairwise_reverse]
    exact List.Pairwise.imp (fun h => fun e2 => h e2.symm) hndP
  have hfold := undoFold_LedSum e s.pool.reverse s C s.pool h.1 hndr (fun t ht => List.mem_reverse.mp ht)
    (by rw [List.pairwise_reverse]; exact hoP) (fun t _ j hj _ => List.mem_reverse.mpr hj)
  have hnil : s.pool.filter (fun x => !s.pool.reverse.contains x) = [] := by
    apply List.filter_eq_nil_iff.mpr; intro a ha; simp [ha]
  rw [hnil] at hfold
  have hfoldK := undoFold_LedK e s.pool.reverse s (C ++ s.pool) hk hndr
    (fun t ht => List.mem_append_right _ (List.mem_reverse.mp ht))
    (by rw [List.pairwise_reverse]; exact hkP)
    (fun t ht j hj hc => by
      rcases List.mem_append.mp hj with hjC | hjP
      · exact absurd hc (hkCP j hjC t (List.mem_reverse.mp ht))
      · exact List.mem_reverse.mpr hjP)
  have hfilA : (C ++ s.pool).filter (fun x => !s.pool.reverse.contains x) = C ++ [] := by
    rw [List.filter_append, hnil]
    congr 1
    apply List.filter_eq_self.mpr
    intro a ha
    have hap : a ∉ s.pool := fun hm => hCP a ha a hm rfl
    simp [hap]
  rw [hfilA] at hfoldK
  have hptr0 : ({ (s.pool.reverse.foldl (fun st i => undoTx e st (e.tx i)) s) with pool := [] } : St).pointer
      = s.pointer := foldl_undoTx_pointer e s.pool.reverse s
  have h0 : LedgerAll e { (s.pool.reverse.foldl (fun st i => undoTx e st (e.tx i)) s) with pool := [] }
      (blockTxs e pre ++ blockTxs e (undoTodo e s.pointer dest).1.reverse) := by
    rw [← hC]; exact ⟨LedSum.congr hfold rfl rfl, LedK.congr hfoldK rfl rfl⟩
  have hc0 : ChainLog e { (s.pool.reverse.foldl (fun st i => undoTx e st (e.tx i)) s) with pool := [] }
      (blockTxs e pre ++ blockTxs e (undoTodo e s.pointer dest).1.reverse) := by
    rw [← hC]
    unfold ChainLog at hc ⊢
    rw [hptr0]; exact hc
  -- step 2: undo blocks
  obtain ⟨C1, u1, u2, u3, u4⟩ := undoAll_LedgerAllChain e prune hpl hgen (undoTodo e s.pointer dest).1 _
    (blockTxs e pre) h0 rfl hc0 ⟨pre.reverse, by rw [hptr0]; exact hcur⟩
  cases hr1 : (walk.undoAll e prune (undoTodo e s.pointer dest).1
      { (s.pool.reverse.foldl (fun st i => undoTx e st (e.tx i)) s) with pool := [] }).2 with
  | false => exact ⟨C1, by simpa [hr1] using u1, by simpa [hr1] using u3, by simp [hr1]⟩
  | true =>
    simp only [hr1, Bool.not_true, Bool.false_eq_true, ↓reduceIte]
    have hC1 := u4 hr1
    rw [hC1] at u1 u3
    -- step 3: apply blocks
    obtain ⟨C2, t1, t2, t3, t4⟩ := todoAll_LedgerAllChain e lh hpl dest pre (undoTodo e s.pointer dest).2 p2 hids
      (by rw [← p2]; exact hnd) hblk (undoTodo e s.pointer dest).2 [] _ rfl
      (by rw [List.append_nil]; exact u1) u2 (by rw [List.append_nil]; exact u3)
    cases hr2 : (walk.todoAll e lh (undoTodo e s.pointer dest).2
        (walk.undoAll e prune (undoTodo e s.pointer dest).1
          { (s.pool.reverse.foldl (fun st i => undoTx e st (e.tx i)) s) with pool := [] }).1).2 with
    | false => exact ⟨C2, by simpa [hr2] using t1, by simpa [hr2] using t3, by simp [hr2]⟩
    | true =>
      simp only [hr2, Bool.not_true, Bool.false_eq_true, ↓reduceIte]
      have hC2 := t4 hr2
      rw [hC2, ← p2] at t1 t3
      exact ⟨_, t1, t3, fun _ => rfl⟩

/-- `walk` with ANY re-admission list `L` taken from the old pool keeps the triple in every outcome (`hre`: a re-submitted
transaction that the destination's path confirms has a token input or writes a key) -/
theorem walkL_LedgerAll_chain (e : Env) (s : St) (lh : Int) (dest : Nat) (prune : Bool) (C : List Nat)
    (hpl : ParentLower e) (hgen : ChainLog e {} []) (h : LedgerAll e s C) (hc : ChainLog e s C)
    (hids : ∀ bi ∈ (undoTodo e s.pointer dest).2, (e.block bi).id = bi)
    (hnd : (blockTxs e (ancestors e (e.blocks.length + 1) dest).reverse).Nodup)
    (hblk : ∀ bi ∈ (undoTodo e s.pointer dest).2, (∀ i ∈ (e.block bi).txs, (e.tx i).id = i) ∧
      (∀ i ∈ (e.block bi).txs, (e.tx i).coinbase = true → (e.tx i).ins = [] ∧ feeOf (e.tx i).outs = 0) ∧
      (∀ i ∈ (e.block bi).txs, ((e.tx i).kout.map (·.key)).Nodup))
    (L : List Nat) (hL : ∀ i ∈ L, i ∈ s.pool)
    (hre : ∀ i ∈ L, i ∈ blockTxs e (ancestors e (e.blocks.length + 1) dest).reverse → (e.tx i).ins ≠ [] ∨ (e.tx i).kout ≠ []) :
    ∃ C', LedgerAll e (if (XV.Crash.walkCore e s lh dest prune).2 = true then
          (L.foldl (fun st i => (doTx e st lh i).1) (XV.Crash.walkCore e s lh dest prune).1, true)
        else ((XV.Crash.walkCore e s lh dest prune).1, false)).1 C' ∧
      ChainLog e (if (XV.Crash.walkCore e s lh dest prune).2 = true then
          (L.foldl (fun st i => (doTx e st lh i).1) (XV.Crash.walkCore e s lh dest prune).1, true)
        else ((XV.Crash.walkCore e s lh dest prune).1, false)).1 C' ∧
      ((if (XV.Crash.walkCore e s lh dest prune).2 = true then
          (L.foldl (fun st i => (doTx e st lh i).1) (XV.Crash.walkCore e s lh dest prune).1, true)
        else ((XV.Crash.walkCore e s lh dest prune).1, false)).2 = true →
        C' = blockTxs e (ancestors e (e.blocks.length + 1) dest).reverse) := by
  obtain ⟨C', c1, c2, c3⟩ := walkCore_LedgerAll_chain e s lh dest prune C hpl hgen h hc hids hnd hblk
  by_cases hok : (XV.Crash.walkCore e s lh dest prune).2 = true
  · rw [if_pos hok]
    have hC := c3 hok
    rw [hC] at c1 c2
    refine ⟨_, readmit_LedgerAll e lh L _ _ c1 ?_, ?_, fun _ => rfl⟩
    · intro i hi
      have hip := hL i hi
      exact ⟨h.1.led.idEq i (List.mem_append_right _ hip), hre i hi, h.1.poolNonCoinbase i hip,
        (h.2.wf i (List.mem_append_right _ hip)).koutNodup⟩
    · unfold ChainLog at c2 ⊢
      rw [foldl_doTx_pointer]; exact c2
  · rw [if_neg hok]
    exact ⟨C', c1, c2, fun hf => by cases hf⟩

/-- **`walk` keeps the triple (`Ledger`, `LedgerK`, `ChainLog`) in EVERY outcome** — the capstone: the UTXO table, the key
tables and the pointer are explained by ONE ghost log, the transactions of the blocks on the path root..pointer, followed
by the pool; after success, after an undo refused at the irreversible height, and after a block of the new branch that
fails admission (the node then stays at an intermediate block with an empty pool). `walk_Ledger_chain_full` with
`LedgerAll` for `Ledger`; `hblk` also asks one write per key of the transactions of the blocks to apply. No hypothesis on
the re-submitted transactions any more (formerly `hre`: a pending transaction that the destination's path confirms has a
token input OR writes a key): `hskip` — the skip list names every pending transaction the destination's path confirms —
is what the ledger supplies after the repair of `recoverUnconfirmedTx`, and the re-admitted pool is `repostList e s`. -/
theorem walk_LedgerAll_chain_full (e : Env) (s : St) (lh : Int) (dest : Nat) (prune : Bool) (C : List Nat)
    (hpl : ParentLower e) (hgen : ChainLog e {} []) (h : LedgerAll e s C) (hc : ChainLog e s C)
    (hids : ∀ bi ∈ (undoTodo e s.pointer dest).2, (e.block bi).id = bi)
    (hnd : (blockTxs e (ancestors e (e.blocks.length + 1) dest).reverse).Nodup)
    (hblk : ∀ bi ∈ (undoTodo e s.pointer dest).2, (∀ i ∈ (e.block bi).txs, (e.tx i).id = i) ∧
      (∀ i ∈ (e.block bi).txs, (e.tx i).coinbase = true → (e.tx i).ins = [] ∧ feeOf (e.tx i).outs = 0) ∧
      (∀ i ∈ (e.block bi).txs, ((e.tx i).kout.map (·.key)).Nodup))
    (hskip : SkipsConfirmed e s (blockTxs e (ancestors e (e.blocks.length + 1) dest).reverse)) :
    ∃ C', LedgerAll e (walk e s lh dest prune).1 C' ∧ ChainLog e (walk e s lh dest prune).1 C' ∧
      ((walk e s lh dest prune).2 = true →
        C' = blockTxs e (ancestors e (e.blocks.length + 1) dest).reverse) := by
  rw [XV.Crash.walk_eq_core]
  exact walkL_LedgerAll_chain e s lh dest prune C hpl hgen h hc hids hnd hblk (repostList e s) (repostList_subset e s)
    (fun i hi hcf => absurd hcf (hskip.not_confirmed i hi))

/-- **the capstone with the skip list supplied for this walk** (`e.withSkip l`; the invariants are stated in the fixed
environment `e` of the history): if `l` names every pending transaction that the destination's path confirms — what the
ledger supplies after the repair of `recoverUnconfirmedTx` — the walk keeps the triple in every outcome; NOTHING is
asked of the re-submitted transactions -/
theorem walk_LedgerAll_chain_full_withSkip (e : Env) (l : List Nat) (s : St) (lh : Int) (dest : Nat) (prune : Bool) (C : List Nat)
    (hpl : ParentLower e) (hgen : ChainLog e {} []) (h : LedgerAll e s C) (hc : ChainLog e s C)
    (hids : ∀ bi ∈ (undoTodo e s.pointer dest).2, (e.block bi).id = bi)
    (hnd : (blockTxs e (ancestors e (e.blocks.length + 1) dest).reverse).Nodup)
    (hblk : ∀ bi ∈ (undoTodo e s.pointer dest).2, (∀ i ∈ (e.block bi).txs, (e.tx i).id = i) ∧
      (∀ i ∈ (e.block bi).txs, (e.tx i).coinbase = true → (e.tx i).ins = [] ∧ feeOf (e.tx i).outs = 0) ∧
      (∀ i ∈ (e.block bi).txs, ((e.tx i).kout.map (·.key)).Nodup))
    (hskip : ∀ i ∈ s.pool, i ∈ blockTxs e (ancestors e (e.blocks.length + 1) dest).reverse → i ∈ l) :
    ∃ C', LedgerAll e (walk (e.withSkip l) s lh dest prune).1 C' ∧
      ChainLog e (walk (e.withSkip l) s lh dest prune).1 C' ∧
      ((walk (e.withSkip l) s lh dest prune).2 = true →
        C' = blockTxs e (ancestors e (e.blocks.length + 1) dest).reverse) := by
  rw [XV.Crash.walk_withSkip]
  apply walkL_LedgerAll_chain e s lh dest prune C hpl hgen h hc hids hnd hblk _ (fun i hi => (List.mem_filter.mp hi).1)
  intro i hi hcf
  obtain ⟨hp, hn⟩ := List.mem_filter.mp hi
  have : i ∈ l := hskip i hp hcf
  simp [this] at hn

/-- the triple holds at the initial state, for the empty log (block id 0 not registered, see `ChainLog_genesis`) -/
theorem LedgerAll_chain_genesis (e : Env) (h0 : (e.block 0).pre = none) (h1 : (e.block 0).txs = []) :
    LedgerAll e {} [] ∧ ChainLog e {} [] :=
  ⟨LedgerAll_genesis e, ChainLog_genesis e h0 h1⟩

/-- **`doTx` keeps the triple**, over the same log (hypotheses of `XV.C02.doTx_LedgerAll`) -/
theorem doTx_LedgerAll_chain (e : Env) (s : St) (lh : Int) (i : Nat) (C : List Nat)
    (h : LedgerAll e s C ∧ ChainLog e s C)
    (hyp : (doTx e s lh i).2 = .ok → (e.tx i).id = i ∧ (i ∈ C → (e.tx i).ins ≠ [] ∨ (e.tx i).kout ≠ []) ∧
      (e.tx i).coinbase = false ∧ ((e.tx i).kout.map (·.key)).Nodup) :
    LedgerAll e (doTx e s lh i).1 C ∧ ChainLog e (doTx e s lh i).1 C :=
  ⟨doTx_LedgerAll e s lh i C h.1 hyp, doTx_ChainLog e s lh i C h.2⟩

/-- **`play` keeps the triple**: the transactions of an accepted block join the one log (hypotheses of
`XV.C02.play_LedgerAll` and `play_ChainLog`; nothing about the validity of the block) -/
theorem play_LedgerAll_chain (e : Env) (s : St) (lh : Int) (b : Block) (C : List Nat) (hpl : ParentLower e)
    (hb : e.block b.id = b) (h : LedgerAll e s C ∧ ChainLog e s C)
    (hnd : b.txs.Nodup) (hid : ∀ i ∈ b.txs, (e.tx i).id = i) (hnewC : ∀ i ∈ b.txs, i ∉ C)
    (haward : ∀ i ∈ b.txs, i ∉ s.pool → (e.tx i).coinbase = true → (e.tx i).ins = [] ∧ feeOf (e.tx i).outs = 0)
    (hkw : ∀ i ∈ b.txs, ((e.tx i).kout.map (·.key)).Nodup) :
    LedgerAll e (play e s lh b).1 (if (play e s lh b).2 = .ok then C ++ b.txs else C) ∧
    ChainLog e (play e s lh b).1 (if (play e s lh b).2 = .ok then C ++ b.txs else C) :=
  ⟨play_LedgerAll e s lh b C h.1 hnd hid hnewC haward hkw, play_ChainLog e s lh b C hpl hb h.2⟩

/-- **`playForMiner` keeps the triple** (hypotheses of `XV.C02.playForMiner_Ledger`, `playForMiner_LedgerK` and
`playForMiner_ChainLog`: what the miner packs) -/
theorem playForMiner_LedgerAll_chain (e : Env) (s : St) (lh : Int) (b : Block) (C : List Nat) (hpl : ParentLower e)
    (hb : e.block b.id = b) (h : LedgerAll e s C ∧ ChainLog e s C)
    (hnd : b.txs.Nodup) (hid : ∀ i ∈ b.txs, (e.tx i).id = i) (hnewC : ∀ i ∈ b.txs, i ∉ C)
    (hsub : ∀ i ∈ b.txs, (e.tx i).coinbase = false → i ∈ s.pool)
    (haward : ∀ i ∈ b.txs, (e.tx i).coinbase = true → (e.tx i).ins = [] ∧ feeOf (e.tx i).outs = 0)
    (hkw : ∀ i ∈ b.txs, ((e.tx i).kout.map (·.key)).Nodup)
    (hparents : ∀ i ∈ b.txs, ∀ r ∈ (e.tx i).ins, r.tx ∈ s.pool → r.tx ∈ b.txs)
    (hord : b.txs.Pairwise (fun a b => ∀ r ∈ (e.tx a).ins, r.tx ≠ b))
    (hparentsK : ∀ i ∈ b.txs, ∀ p ∈ s.pool, citesK e i p → p ∈ b.txs)
    (hordK : b.txs.Pairwise (fun a c => ¬ citesK e a c)) :
    LedgerAll e (playForMiner e s lh b).1 (if (playForMiner e s lh b).2 = .ok then C ++ b.txs else C) ∧
    ChainLog e (playForMiner e s lh b).1 (if (playForMiner e s lh b).2 = .ok then C ++ b.txs else C) :=
  ⟨⟨playForMiner_Ledger e s lh b C h.1.1 hnd hid hnewC hsub haward hparents hord,
    playForMiner_LedgerK e s lh b C h.1.2 hnd hid hnewC hsub h.1.1.poolNonCoinbase hkw hparentsK hordK⟩,
   playForMiner_ChainLog e s lh b C hpl hb h.2⟩

-- non-vacuity of the joint invariant: the history with key reads and writes of the `LedgerK` example of C02, in a tree with
-- heights (so that `ParentLower` holds). Transaction 1 only READS "k" (never written), 2 reads the same version and WRITES
-- "k", 3 spends an output of 2, 4 is independent, 5 reads "k" at the version written by 2 and writes it again (no tokens).
-- Blocks: 10 = [100 (genesis)] on the unregistered block 0; on 10: 11 = [9 (award), 2], 12 = [8 (award), 1],
-- 13 = [9, 1, 2] (what the miner packs from the pool [1, 2]), 14 = [8, 2, 5]; on 12: 15 = [7 (award), 3] — transaction 3
-- spends an output of 2, which is not on the branch of 12, so block 15 fails admission.
--   genesis; block 10 played; submissions 1 2 3 4; block 11 played (1 evicted, 2 and 3 rolled back, 2 applied again;
--   pool [4]); submission 5 (pool [4, 5]) -> node `kcS6` at 11. The triple holds after every step (`kcS1_all` ..
--   `kcS6_all`, by the `_chain` theorems), for the logs [], [100], [100, 9, 2]. From `kcS6`:
--   walk to 14: pool rolled back, 11 undone, 14 applied, 4 re-admitted, 5 — confirmed by 14 — is in the skip list and not
--     re-submitted: SUCCESS, log [100, 8, 2, 5], pool [4], "k" at (5, 0);
--   walk to 15: 11 undone, 12 applied, 15 FAILS: the node stays at 12 with an empty pool, log [100, 8, 1], "k" never
--     written.
private def kcEnv : Env := {
  txs := [
    (100, ⟨100, true, [], [⟨"u0", 5, 0⟩, ⟨"u0", 7, 0⟩, ⟨"u0", 4, 0⟩], [], []⟩),
    (1, ⟨1, false, [⟨100, 0, "u0", 5, 0, false⟩], [⟨"u1", 4, 0⟩, ⟨"$", 1, 0⟩], [⟨"k", none⟩], []⟩),
    (2, ⟨2, false, [⟨100, 1, "u0", 7, 0, false⟩], [⟨"u2", 6, 0⟩, ⟨"$", 1, 0⟩], [⟨"k", none⟩], [⟨"k", "a", false⟩]⟩),
    (3, ⟨3, false, [⟨2, 0, "u2", 6, 0, false⟩], [⟨"u3", 6, 0⟩], [], []⟩),
    (4, ⟨4, false, [⟨100, 2, "u0", 4, 0, false⟩], [⟨"u4", 3, 0⟩, ⟨"$", 1, 0⟩], [], []⟩),
    (5, ⟨5, false, [], [], [⟨"k", some (2, 0)⟩], [⟨"k", "b", false⟩]⟩),
    (9, ⟨9, true, [], [⟨"miner", 10, 0⟩], [], []⟩),
    (8, ⟨8, true, [], [⟨"miner2", 10, 0⟩], [], []⟩),
    (7, ⟨7, true, [], [⟨"miner2", 10, 0⟩], [], []⟩)],
  blocks := [(10, ⟨10, some 0, 1, [100], "g"⟩), (11, ⟨11, some 10, 2, [9, 2], "miner"⟩),
             (12, ⟨12, some 10, 2, [8, 1], "miner2"⟩), (13, ⟨13, some 10, 2, [9, 1, 2], "miner"⟩),
             (14, ⟨14, some 10, 2, [8, 2, 5], "miner2"⟩), (15, ⟨15, some 12, 3, [7, 3], "miner2"⟩)],
  -- the skip list the ledger supplies for the walk to 14 below (block 14 confirms the pending transaction 5)
  skipRepost := [5] }

private def kcS1 : St := (play kcEnv {} 0 (kcEnv.block 10)).1
private def kcS2 : St := (doTx kcEnv (doTx kcEnv kcS1 0 1).1 0 2).1
private def kcS4 : St := (doTx kcEnv (doTx kcEnv kcS2 0 3).1 0 4).1
private def kcS5 : St := (play kcEnv kcS4 0 (kcEnv.block 11)).1
private def kcS6 : St := (doTx kcEnv kcS5 0 5).1

private theorem kcEnv_lower : ParentLower kcEnv := parentLower_of_blocks _ (by decide)

private theorem kcS0_all : LedgerAll kcEnv {} [] ∧ ChainLog kcEnv {} [] :=
  LedgerAll_chain_genesis kcEnv (by decide) (by decide)

private theorem kcS1_all : LedgerAll kcEnv kcS1 [100] ∧ ChainLog kcEnv kcS1 [100] := by
  have := play_LedgerAll_chain kcEnv {} 0 (kcEnv.block 10) [] kcEnv_lower (by decide) kcS0_all (by decide) (by decide)
    (by decide) (by decide) (by decide)
  rw [if_pos (by decide)] at this
  exact this

private theorem kcS2_all : LedgerAll kcEnv kcS2 [100] ∧ ChainLog kcEnv kcS2 [100] :=
  doTx_LedgerAll_chain kcEnv _ 0 2 [100] (doTx_LedgerAll_chain kcEnv kcS1 0 1 [100] kcS1_all (fun _ => by decide))
    (fun _ => by decide)

private theorem kcS4_all : LedgerAll kcEnv kcS4 [100] ∧ ChainLog kcEnv kcS4 [100] :=
  doTx_LedgerAll_chain kcEnv _ 0 4 [100] (doTx_LedgerAll_chain kcEnv kcS2 0 3 [100] kcS2_all (fun _ => by decide))
    (fun _ => by decide)

private theorem kcS5_ok : (play kcEnv kcS4 0 (kcEnv.block 11)).2 = .ok := by decide

private theorem kcS5_all : LedgerAll kcEnv kcS5 [100, 9, 2] ∧ ChainLog kcEnv kcS5 [100, 9, 2] := by
  have := play_LedgerAll_chain kcEnv kcS4 0 (kcEnv.block 11) [100] kcEnv_lower (by decide) kcS4_all (by decide)
    (by decide) (by decide) (by decide) (by decide)
  rw [if_pos kcS5_ok] at this
  exact this

private theorem kcS6_all : LedgerAll kcEnv kcS6 [100, 9, 2] ∧ ChainLog kcEnv kcS6 [100, 9, 2] :=
  doTx_LedgerAll_chain kcEnv kcS5 0 5 [100, 9, 2] kcS5_all (fun _ => by decide)

-- the steps are accepted and do what the comment says
example : (play kcEnv {} 0 (kcEnv.block 10)).2 = .ok ∧ kcS4.pool = [1, 2, 3, 4] ∧
    (play kcEnv kcS4 0 (kcEnv.block 11)).2 = .ok ∧ kcS5.pool = [4] ∧ (doTx kcEnv kcS5 0 5).2 = .ok ∧
    kcS6.pool = [4, 5] ∧ kcS6.pointer = 11 ∧ curVer kcS4 "k" = some (2, 0) ∧ curVer kcS6 "k" = some (5, 0) := by
  decide

-- the miner's block 13 = [9, 1, 2] from the pool [1, 2]
private theorem kcM_ok : (playForMiner kcEnv kcS2 0 (kcEnv.block 13)).2 = .ok := by decide

example : kcS2.pool = [1, 2] ∧ (playForMiner kcEnv kcS2 0 (kcEnv.block 13)).2 = .ok ∧
    LedgerAll kcEnv (playForMiner kcEnv kcS2 0 (kcEnv.block 13)).1 [100, 9, 1, 2] ∧
    ChainLog kcEnv (playForMiner kcEnv kcS2 0 (kcEnv.block 13)).1 [100, 9, 1, 2] := by
  have := playForMiner_LedgerAll_chain kcEnv kcS2 0 (kcEnv.block 13) [100] kcEnv_lower (by decide) kcS2_all (by decide)
    (by decide) (by decide) (by decide) (by decide) (by decide) (by decide) (by decide) (by decide) (by decide)
  rw [if_pos kcM_ok] at this
  exact ⟨by decide, kcM_ok, this.1, this.2⟩

-- the hypotheses of `walk_LedgerAll_chain_full` for the walk from `kcS6` to 14 (success) ...
private theorem kcW14_ok : (walk kcEnv kcS6 0 14 false).2 = true := by decide

private theorem kcW14_hyp : ChainLog kcEnv {} [] ∧ undoTodo kcEnv kcS6.pointer 14 = ([11], [14]) ∧
    (∀ bi ∈ (undoTodo kcEnv kcS6.pointer 14).2, (kcEnv.block bi).id = bi) ∧
    (blockTxs kcEnv (ancestors kcEnv (kcEnv.blocks.length + 1) 14).reverse).Nodup ∧
    (∀ bi ∈ (undoTodo kcEnv kcS6.pointer 14).2, (∀ i ∈ (kcEnv.block bi).txs, (kcEnv.tx i).id = i) ∧
      (∀ i ∈ (kcEnv.block bi).txs, (kcEnv.tx i).coinbase = true →
        (kcEnv.tx i).ins = [] ∧ feeOf (kcEnv.tx i).outs = 0) ∧
      (∀ i ∈ (kcEnv.block bi).txs, ((kcEnv.tx i).kout.map (·.key)).Nodup)) ∧
    SkipsConfirmed kcEnv kcS6 (blockTxs kcEnv (ancestors kcEnv (kcEnv.blocks.length + 1) 14).reverse) ∧
    -- the pending transaction 5 is confirmed by the destination's path (and has no token input): it is skipped
    5 ∈ kcS6.pool ∧ 5 ∈ blockTxs kcEnv (ancestors kcEnv (kcEnv.blocks.length + 1) 14).reverse ∧
    (kcEnv.tx 5).ins = [] := by decide

private theorem kcW14_all : LedgerAll kcEnv (walk kcEnv kcS6 0 14 false).1 [100, 8, 2, 5] ∧
    ChainLog kcEnv (walk kcEnv kcS6 0 14 false).1 [100, 8, 2, 5] := by
  obtain ⟨g0, _, g1, g2, g3, g4, _⟩ := kcW14_hyp
  obtain ⟨C', c1, c2, c3⟩ := walk_LedgerAll_chain_full kcEnv kcS6 0 14 false [100, 9, 2] kcEnv_lower g0 kcS6_all.1
    kcS6_all.2 g1 g2 g3 g4
  have hC : C' = [100, 8, 2, 5] := (c3 kcW14_ok).trans (by decide)
  rw [hC] at c1 c2
  exact ⟨c1, c2⟩

example : (walk kcEnv kcS6 0 14 false).2 = true ∧ (walk kcEnv kcS6 0 14 false).1.pointer = 14 ∧
    (walk kcEnv kcS6 0 14 false).1.pool = [4] ∧ curVer (walk kcEnv kcS6 0 14 false).1 "k" = some (5, 0) ∧
    LedgerAll kcEnv (walk kcEnv kcS6 0 14 false).1 [100, 8, 2, 5] ∧
    ChainLog kcEnv (walk kcEnv kcS6 0 14 false).1 [100, 8, 2, 5] :=
  ⟨kcW14_ok, by decide, by decide, by decide, kcW14_all.1, kcW14_all.2⟩

-- ... and for the walk from `kcS6` to 15, which FAILS at block 15
private theorem kcW15_fail : (walk kcEnv kcS6 0 15 false).2 = false := by decide

private theorem kcW15_hyp : undoTodo kcEnv kcS6.pointer 15 = ([11], [12, 15]) ∧
    (∀ bi ∈ (undoTodo kcEnv kcS6.pointer 15).2, (kcEnv.block bi).id = bi) ∧
    (blockTxs kcEnv (ancestors kcEnv (kcEnv.blocks.length + 1) 15).reverse).Nodup ∧
    (∀ bi ∈ (undoTodo kcEnv kcS6.pointer 15).2, (∀ i ∈ (kcEnv.block bi).txs, (kcEnv.tx i).id = i) ∧
      (∀ i ∈ (kcEnv.block bi).txs, (kcEnv.tx i).coinbase = true →
        (kcEnv.tx i).ins = [] ∧ feeOf (kcEnv.tx i).outs = 0) ∧
      (∀ i ∈ (kcEnv.block bi).txs, ((kcEnv.tx i).kout.map (·.key)).Nodup)) ∧
    SkipsConfirmed kcEnv kcS6 (blockTxs kcEnv (ancestors kcEnv (kcEnv.blocks.length + 1) 15).reverse) := by decide

private theorem kcW15_chain : ChainLog kcEnv (walk kcEnv kcS6 0 15 false).1 [100, 8, 1] := by decide

private theorem kcW15_all : LedgerAll kcEnv (walk kcEnv kcS6 0 15 false).1 [100, 8, 1] := by
  obtain ⟨_, g1, g2, g3, g4⟩ := kcW15_hyp
  obtain ⟨C', c1, c2, _⟩ := walk_LedgerAll_chain_full kcEnv kcS6 0 15 false [100, 9, 2] kcEnv_lower kcW14_hyp.1
    kcS6_all.1 kcS6_all.2 g1 g2 g3 g4
  have hC : C' = [100, 8, 1] := by
    unfold ChainLog at c2
    have h3 := kcW15_chain
    unfold ChainLog at h3
    rw [c2, ← h3]
  rw [hC] at c1
  exact c1

example : (walk kcEnv kcS6 0 15 false).2 = false ∧ (walk kcEnv kcS6 0 15 false).1.pointer = 12 ∧
    (walk kcEnv kcS6 0 15 false).1.pool = [] ∧ curVer (walk kcEnv kcS6 0 15 false).1 "k" = none ∧
    (todoBlock kcEnv (walk kcEnv kcS6 0 15 false).1 0 (kcEnv.block 15)).isSome = false ∧
    LedgerAll kcEnv (walk kcEnv kcS6 0 15 false).1 [100, 8, 1] ∧
    ChainLog kcEnv (walk kcEnv kcS6 0 15 false).1 [100, 8, 1] :=
  ⟨kcW15_fail, by decide, by decide, by decide, by decide, kcW15_all, kcW15_chain⟩
-- ================================================================== `play` with a non-empty pool: the refinement

private theorem txWF_iff (e : Env) (i : Nat) : TxWF e i ↔ WF e i :=
  ⟨fun h => ⟨h.id, h.self, h.kout⟩, fun h => ⟨h.id, h.self, h.kout⟩⟩

private theorem poolValid_iff (e : Env) (l : List Nat) (s : St) : PoolValid e l s ↔ PoolOK e l s := by
  induction l generalizing s with
  | nil => exact Iff.rfl
  | cons i rest ih =>
    unfold PoolValid PoolOK
    rw [ih, txWF_iff]
    exact Iff.rfl

/-- **`play` (`PlayAndRepost`) with a NON-EMPTY pool keeps the node on "canonical state + pool".** Block tree with parent
links strictly down in height; `b` is known to the environment under its id. With `R = canon e g s.pointer` the
canonical state of the tip: the state refines "`R`, then the pool applied in admission order" (`hs`); the pool satisfies
the side conditions of the transaction theorems on `R` (`PoolValid`) and has no repetition; the chain of the tip and the
block `b` on top of it satisfy the side conditions of the block theorem (`ChainValid`, `BlockValid`: `b` can be replayed on
`R` — a fresh replica accepts it); identifiers are fresh: no row and no key version of `R` carries the id of a pending
transaction or of a transaction of the block (`hfreshU`, `hfreshV`; the rows of the block's ids are in `BlockValid`); the
rows of `R` carry the frozen heights their transactions declare and the pending transactions cite them (`FrozenInv`,
`StaticFrozen`: the frozen height of a spent row is not compared by the code, see DESIGN.md).

Then, if `play` ACCEPTS `b` — whatever it evicts (the conflicting pending transactions and the closure of their
dependents, undone newest first), skips (the pending members of the block) and re-applies (members rolled back as
dependents) —: the pointer is `b.id`; the state refines "the canonical state of `b`, then the NEW pool applied in order";
the new pool is the old one without the block's and the evicted transactions, and satisfies `PoolValid` on the canonical
state of `b` — the precondition is re-established, so admissions, walks and further blocks can follow. -/
theorem play_refines (e : Env) (s : St) (lh : Int) (b : Block) (g : St) (hpl : ParentLower e)
    (hb : e.block b.id = b) (hok : (play e s lh b).2 = .ok) (hinv : KVInv e g)
    (hchain : ChainValid e (ancestors e (e.blocks.length + 1) s.pointer).reverse g)
    (hblk : BlockValid e (canon e g s.pointer) b)
    (hpool : PoolValid e s.pool (canon e g s.pointer)) (hnd : s.pool.Nodup)
    (hs : TRefines s (applyPool e s.pool (canon e g s.pointer)))
    (hfreshU : ∀ i ∈ s.pool, ∀ o, lookup (canon e g s.pointer).U (i, o) = none)
    (hfreshV : ∀ i ∈ s.pool ++ b.txs, ∀ k o, curVer (canon e g s.pointer) k ≠ some (i, o))
    (hfz : FrozenInv e (canon e g s.pointer)) (hsf : ∀ i ∈ s.pool, StaticFrozen e i) :
    (play e s lh b).1.pointer = b.id ∧
    TRefines (play e s lh b).1 (applyPool e (play e s lh b).1.pool (canon e g b.id)) ∧
    PoolValid e (play e s lh b).1.pool (canon e g b.id) ∧
    (play e s lh b).1.pool = s.pool.filter (fun i => !b.txs.contains i && !(playEvict e s b).contains i) := by
  have hR := replayChain_KVInv e _ g hchain hinv
  have hP := (poolValid_iff e _ _).mp hpool
  have hwP := hP.wf
  -- the eviction is the roll-back of a suffix
  obtain ⟨tE, pK, pEv⟩ := play_evict_form e s b (canon e g s.pointer) hP hnd hfreshU hfz hsf
  have hKV : KVInv e (applyPool e (s.pool.filter (fun i => !(playEvict e s b).contains i)) (canon e g s.pointer)) :=
    applyPool_KVInv e _ _ (fun i hi => (hwP i (List.mem_filter.mp hi).1).id) hR
  have hs1 : TRefines (playUndone e s b)
      (applyPool e (s.pool.filter (fun i => !(playEvict e s b).contains i)) (canon e g s.pointer)) := by
    rw [playUndone_eq]
    exact rollback_applyPool e _ _ ((poolValid_iff e _ _).mpr pEv) hKV s (hs.trans tE.trefines)
  -- the block
  obtain ⟨lhb, s2b, hfwd⟩ := hblk.fwd
  have hB := pValid_of_applyBlockTxs e lhb b.prop b.txs _ s2b hfwd
  have hwB : ∀ i ∈ b.txs, WF e i := fun i hi => (txWF_iff e i).mp (hblk.wf i hi)
  have hfU : ∀ i ∈ s.pool ++ b.txs, ∀ o, lookup (canon e g s.pointer).U (i, o) = none := by
    intro i hi o
    rcases List.mem_append.mp hi with h | h
    · exact hfreshU i h o
    · exact hblk.fresh i h o
  obtain ⟨a1, a2, a3⟩ := play_absorb_form e s lh b (canon e g s.pointer) hok hP hnd pK hs1 hB hwB hblk.nodup hfU
    hfreshV hfz hsf
  obtain ⟨s2, _, hshape⟩ := play_ok_raw e s lh b hok
  have hpre : b.pre = some s.pointer := by
    unfold play at hok
    by_cases h1 : b.pre ≠ some s.pointer
    · rw [if_pos h1] at hok; cases hok
    · simpa using h1
  have hcanon : canon e g b.id = replayBlock e (canon e g s.pointer) b := by
    rw [canon_child e g hpl b.id s.pointer (by rw [hb]; exact hpre), hb]
  have hT : TabEq (replayTxs e b.prop b.txs (canon e g s.pointer)) (canon e g b.id) := by
    rw [hcanon]
    exact TabEq.of_tables (x := replayBlock e (canon e g s.pointer) b) ⟨rfl, rfl, rfl, rfl⟩
  refine ⟨by rw [hshape], ?_, ?_, ?_⟩
  · exact a2.trans (applyPool_tabEq e _ _ _ hT).trefines
  · exact (poolValid_iff e _ _).mpr (poolOK_tabEq e _ _ _ hT a3)
  · rw [hshape]

-- non-vacuity of `play_refines`: genesis rows (0,0) (0,1) (0,2); the node is at block 1 with FIVE pending transactions:
-- 21 (spends (0,0), creates key "k", pays a fee), 22 (spends an output of 21, overwrites "k"), 23 (spends (0,1)),
-- 24 (spends (0,2)), 26 (spends the output of 24). Block 2 = award 20, the pending 21, and the NEW transaction 25 that
-- spends (0,2) too: `play` accepts it, evicts 24 (conflict) and 26 (dependent), skips 21, applies 20 and 25, keeps 22, 23.
private def prEnv : Env := {
  txs := [
    (20, ⟨20, true, [], [⟨"m2", 10, 0⟩], [], []⟩),
    (21, ⟨21, false, [⟨0, 0, "u0", 5, 0, false⟩], [⟨"u1", 4, 0⟩, ⟨"$", 1, 0⟩], [⟨"k", none⟩], [⟨"k", "a", false⟩]⟩),
    (22, ⟨22, false, [⟨21, 0, "u1", 4, 0, false⟩], [⟨"u2", 4, 0⟩], [⟨"k", some (21, 0)⟩], [⟨"k", "b", false⟩]⟩),
    (23, ⟨23, false, [⟨0, 1, "u0", 4, 0, false⟩], [⟨"u3", 4, 0⟩], [], []⟩),
    (24, ⟨24, false, [⟨0, 2, "u0", 3, 0, false⟩], [⟨"u4", 3, 0⟩], [], []⟩),
    (25, ⟨25, false, [⟨0, 2, "u0", 3, 0, false⟩], [⟨"u5", 2, 0⟩, ⟨"$", 1, 0⟩], [⟨"j", none⟩], [⟨"j", "c", false⟩]⟩),
    (26, ⟨26, false, [⟨24, 0, "u4", 3, 0, false⟩], [⟨"u6", 3, 0⟩], [], []⟩)],
  blocks := [(1, ⟨1, none, 1, [], "m1"⟩), (2, ⟨2, some 1, 2, [20, 21, 25], "m2"⟩)] }
private def prG : St := { U := [((0, 0), ⟨"u0", 5, 0⟩), ((0, 1), ⟨"u0", 4, 0⟩), ((0, 2), ⟨"u0", 3, 0⟩)], total := 12 }
private def prPool : List Nat := [21, 22, 23, 24, 26]
private def prS : St := { applyPool prEnv prPool (canon prEnv prG 1) with pool := prPool }

example : ParentLower prEnv := parentLower_of_blocks _ (by decide)
example : prEnv.block (prEnv.block 2).id = prEnv.block 2 ∧ prS.pointer = 1 ∧ prS.pool = prPool ∧ prS.pool.Nodup ∧
    (play prEnv prS 0 (prEnv.block 2)).2 = .ok ∧ playEvict prEnv prS (prEnv.block 2) = [24, 26] := by decide
example : KVInv prEnv prG := KVInv_empty prEnv prG rfl rfl
example : ChainValid prEnv (ancestors prEnv (prEnv.blocks.length + 1) prS.pointer).reverse prG := by
  have h1 : (ancestors prEnv (prEnv.blocks.length + 1) prS.pointer).reverse = [1] := by decide
  rw [h1]
  refine ⟨⟨⟨0, fwd_of_res _ _ _ _ _ (by decide)⟩, ?_, by decide, ?_, by decide⟩, trivial⟩
  · intro i hi; simp [prEnv, Env.block, lookup] at hi
  · intro i hi; simp [prEnv, Env.block, lookup] at hi
example : BlockValid prEnv (canon prEnv prG prS.pointer) (prEnv.block 2) := by
  refine ⟨⟨0, fwd_of_res _ _ _ _ _ (by decide)⟩, ?_, by decide, ?_, by decide⟩
  · intro i hi
    have : i = 20 ∨ i = 21 ∨ i = 25 := by simpa [prEnv, Env.block, lookup] using hi
    rcases this with rfl | rfl | rfl <;> exact ⟨by decide, by decide, by decide⟩
  · intro i hi
    have : i = 20 ∨ i = 21 ∨ i = 25 := by simpa [prEnv, Env.block, lookup] using hi
    rcases this with rfl | rfl | rfl <;> exact absent_of_rows _ _ (by decide)
example : PoolValid prEnv prS.pool (canon prEnv prG prS.pointer) :=
  ⟨⟨0, by decide⟩, ⟨by decide, by decide, by decide⟩, absent_of_rows _ _ (by decide), by decide,
   ⟨0, by decide⟩, ⟨by decide, by decide, by decide⟩, absent_of_rows _ _ (by decide), by decide,
   ⟨0, by decide⟩, ⟨by decide, by decide, by decide⟩, absent_of_rows _ _ (by decide), by decide,
   ⟨0, by decide⟩, ⟨by decide, by decide, by decide⟩, absent_of_rows _ _ (by decide), by decide,
   ⟨0, by decide⟩, ⟨by decide, by decide, by decide⟩, absent_of_rows _ _ (by decide), by decide, trivial⟩
example : TRefines prS (applyPool prEnv prS.pool (canon prEnv prG prS.pointer)) :=
  (TRefines.refl _).of_tables ⟨rfl, rfl, rfl, rfl⟩ ⟨rfl, rfl, rfl, rfl⟩
example : ∀ i ∈ prS.pool, ∀ o, lookup (canon prEnv prG prS.pointer).U (i, o) = none :=
  fun i hi => absent_of_rows _ i (by revert i hi; decide)
example : ∀ i ∈ prS.pool ++ (prEnv.block 2).txs, ∀ k o, curVer (canon prEnv prG prS.pointer) k ≠ some (i, o) :=
  fun i hi => verFresh_of_rows _ i (by revert i hi; decide) (by revert i hi; decide)
example : FrozenInv prEnv (canon prEnv prG prS.pointer) := frozenInv_of_rows _ _ (by decide)
example : ∀ i ∈ prS.pool, StaticFrozen prEnv i := by decide
-- and the conclusion, computed: the new pool is [22, 23]; rows, keys and total are those of block 2 replayed on a fresh
-- node with 22 and 23 applied on top
example :
    let p := (play prEnv prS 0 (prEnv.block 2)).1
    let c := applyPool prEnv [22, 23] (canon prEnv prG 2)
    p.pointer = 2 ∧ p.pool = [22, 23] ∧ p.total = c.total ∧ (∀ k ∈ ["k", "j"], lookup p.ZU k = lookup c.ZU k) ∧
    (∀ k ∈ p.U.map (·.1) ++ c.U.map (·.1), lookup p.U k = lookup c.U k) ∧
    lookup p.U (21, 1) = some ⟨"m2", 1, 0⟩ ∧ lookup p.U (24, 0) = none ∧ lookup p.U (0, 2) = none ∧
    curVer p "k" = some (22, 0) ∧ curVer p "j" = some (25, 0) := by decide

-- ================================================================== `playForMiner`: the miner's own block

/-- **`playForMiner` keeps the node on "canonical state + pool".** Same setting as `play_refines` (`R` = canonical state
of the tip; the state refines "`R`, then the pool"; `PoolValid`, `ChainValid`, `BlockValid` — the block can be replayed on
`R` —, fresh ids, frozen heights). The miner's block: its coinbase transactions (award, generated transactions) are not
pending and write no key; its other transactions are pending (`playForMiner` does not apply them: it only pays their
fees); the pending transactions it leaves out all stand after its pending members in the pool — it packs a prefix of
the pool (`hprefix`; without it a transaction left pending could read a key version that a packed one overwrites).
Then after a successful `playForMiner`: the pointer is `b.id`, the state refines "the canonical state of `b`, then the
remaining pool applied in order", the remaining pool is the old one without the block's transactions and satisfies
`PoolValid` on the canonical state of `b`. -/
theorem playForMiner_refines (e : Env) (s : St) (lh : Int) (b : Block) (g : St) (hpl : ParentLower e)
    (hb : e.block b.id = b) (hok : (playForMiner e s lh b).2 = .ok)
    (hblk : BlockValid e (canon e g s.pointer) b)
    (hpool : PoolValid e s.pool (canon e g s.pointer)) (hnd : s.pool.Nodup)
    (hs : TRefines s (applyPool e s.pool (canon e g s.pointer)))
    (hfreshU : ∀ i ∈ s.pool, ∀ o, lookup (canon e g s.pointer).U (i, o) = none)
    (hfreshV : ∀ i ∈ s.pool ++ b.txs, ∀ k o, curVer (canon e g s.pointer) k ≠ some (i, o))
    (hfz : FrozenInv e (canon e g s.pointer)) (hsf : ∀ i ∈ s.pool, StaticFrozen e i)
    (hsub : ∀ i ∈ b.txs, (e.tx i).coinbase = false → i ∈ s.pool)
    (hcb : ∀ i ∈ b.txs, (e.tx i).coinbase = true → i ∉ s.pool ∧ (e.tx i).kout = [])
    (hprefix : ∀ a ∈ s.pool, a ∉ b.txs → ∀ i ∈ b.txs, i ∈ s.pool → [i, a].Sublist s.pool) :
    (playForMiner e s lh b).1.pointer = b.id ∧
    TRefines (playForMiner e s lh b).1 (applyPool e (playForMiner e s lh b).1.pool (canon e g b.id)) ∧
    PoolValid e (playForMiner e s lh b).1.pool (canon e g b.id) ∧
    (playForMiner e s lh b).1.pool = s.pool.filter (fun i => !b.txs.contains i) := by
  have hP := (poolValid_iff e _ _).mp hpool
  obtain ⟨lhb, s2b, hfwd⟩ := hblk.fwd
  have hB := pValid_of_applyBlockTxs e lhb b.prop b.txs _ s2b hfwd
  have hwB : ∀ i ∈ b.txs, WF e i := fun i hi => (txWF_iff e i).mp (hblk.wf i hi)
  have hfU : ∀ i ∈ s.pool ++ b.txs, ∀ o, lookup (canon e g s.pointer).U (i, o) = none := by
    intro i hi o
    rcases List.mem_append.mp hi with h | h
    · exact hfreshU i h o
    · exact hblk.fresh i h o
  obtain ⟨_, a2, a3⟩ := miner_absorb_form e s lh b (canon e g s.pointer) hok hs hP hnd hB hwB hblk.nodup hfU
    hfreshV hfz hsf hsub hcb hprefix
  obtain ⟨hpre, s2, _, hshape⟩ := playForMiner_ok_raw e s lh b hok
  have hcanon : canon e g b.id = replayBlock e (canon e g s.pointer) b := by
    rw [canon_child e g hpl b.id s.pointer (by rw [hb]; exact hpre), hb]
  have hT : TabEq (replayTxs e b.prop b.txs (canon e g s.pointer)) (canon e g b.id) := by
    rw [hcanon]
    exact TabEq.of_tables (x := replayBlock e (canon e g s.pointer) b) ⟨rfl, rfl, rfl, rfl⟩
  refine ⟨by rw [hshape], ?_, ?_, ?_⟩
  · exact a2.trans (applyPool_tabEq e _ _ _ hT).trefines
  · exact (poolValid_iff e _ _).mpr (poolOK_tabEq e _ _ _ hT a3)
  · rw [hshape]

-- non-vacuity: the node of the `play_refines` example (pool 21 22 23 24 26 on block 1) mines block 3 = award 30 and
-- the first two pending transactions 21, 22; 23, 24, 26 stay pending
private def pmEnv : Env := { prEnv with
  txs := prEnv.txs ++ [(30, ⟨30, true, [], [⟨"m3", 10, 0⟩], [], []⟩)],
  blocks := prEnv.blocks ++ [(3, ⟨3, some 1, 2, [30, 21, 22], "m3"⟩)] }
private def pmS : St := { applyPool pmEnv prPool (canon pmEnv prG 1) with pool := prPool }

example : ParentLower pmEnv := parentLower_of_blocks _ (by decide)
example : pmEnv.block (pmEnv.block 3).id = pmEnv.block 3 ∧ pmS.pointer = 1 ∧ pmS.pool = prPool ∧ pmS.pool.Nodup ∧
    (playForMiner pmEnv pmS 0 (pmEnv.block 3)).2 = .ok := by decide
example : BlockValid pmEnv (canon pmEnv prG pmS.pointer) (pmEnv.block 3) := by
  refine ⟨⟨0, fwd_of_res _ _ _ _ _ (by decide)⟩, ?_, by decide, ?_, by decide⟩
  · intro i hi
    have : i = 30 ∨ i = 21 ∨ i = 22 := by simpa [pmEnv, prEnv, Env.block, lookup] using hi
    rcases this with rfl | rfl | rfl <;> exact ⟨by decide, by decide, by decide⟩
  · intro i hi
    have : i = 30 ∨ i = 21 ∨ i = 22 := by simpa [pmEnv, prEnv, Env.block, lookup] using hi
    rcases this with rfl | rfl | rfl <;> exact absent_of_rows _ _ (by decide)
example : PoolValid pmEnv pmS.pool (canon pmEnv prG pmS.pointer) :=
  ⟨⟨0, by decide⟩, ⟨by decide, by decide, by decide⟩, absent_of_rows _ _ (by decide), by decide,
   ⟨0, by decide⟩, ⟨by decide, by decide, by decide⟩, absent_of_rows _ _ (by decide), by decide,
   ⟨0, by decide⟩, ⟨by decide, by decide, by decide⟩, absent_of_rows _ _ (by decide), by decide,
   ⟨0, by decide⟩, ⟨by decide, by decide, by decide⟩, absent_of_rows _ _ (by decide), by decide,
   ⟨0, by decide⟩, ⟨by decide, by decide, by decide⟩, absent_of_rows _ _ (by decide), by decide, trivial⟩
example : TRefines pmS (applyPool pmEnv pmS.pool (canon pmEnv prG pmS.pointer)) :=
  (TRefines.refl _).of_tables ⟨rfl, rfl, rfl, rfl⟩ ⟨rfl, rfl, rfl, rfl⟩
example : ∀ i ∈ pmS.pool, ∀ o, lookup (canon pmEnv prG pmS.pointer).U (i, o) = none :=
  fun i hi => absent_of_rows _ i (by revert i hi; decide)
example : ∀ i ∈ pmS.pool ++ (pmEnv.block 3).txs, ∀ k o, curVer (canon pmEnv prG pmS.pointer) k ≠ some (i, o) :=
  fun i hi => verFresh_of_rows _ i (by revert i hi; decide) (by revert i hi; decide)
example : FrozenInv pmEnv (canon pmEnv prG pmS.pointer) := frozenInv_of_rows _ _ (by decide)
example : (∀ i ∈ pmS.pool, StaticFrozen pmEnv i) ∧
    (∀ i ∈ (pmEnv.block 3).txs, (pmEnv.tx i).coinbase = false → i ∈ pmS.pool) ∧
    (∀ i ∈ (pmEnv.block 3).txs, (pmEnv.tx i).coinbase = true → i ∉ pmS.pool ∧ (pmEnv.tx i).kout = []) ∧
    (∀ a ∈ pmS.pool, a ∉ (pmEnv.block 3).txs → ∀ i ∈ (pmEnv.block 3).txs, i ∈ pmS.pool →
      [i, a].Sublist pmS.pool) := by decide
example :
    let p := (playForMiner pmEnv pmS 0 (pmEnv.block 3)).1
    let c := applyPool pmEnv [23, 24, 26] (canon pmEnv prG 3)
    p.pointer = 3 ∧ p.pool = [23, 24, 26] ∧ p.total = c.total ∧ (∀ k ∈ ["k", "j"], lookup p.ZU k = lookup c.ZU k) ∧
    (∀ k ∈ p.U.map (·.1) ++ c.U.map (·.1), lookup p.U k = lookup c.U k) ∧
    lookup p.U (21, 1) = some ⟨"m3", 1, 0⟩ ∧ curVer p "k" = some (22, 0) := by decide

-- ================================================================== admission on top of the pool

/-- no row and no key version of the base state carries transaction id `i` (checkable form: over the rows) -/
def IdFresh (g : St) (i : Nat) : Prop :=
  (∀ p ∈ g.U, p.1.1 ≠ i) ∧ (∀ p ∈ g.ZU, p.2.1 ≠ i) ∧ (∀ p ∈ g.ZD, p.2.1 ≠ i)

instance (g : St) (i : Nat) : Decidable (IdFresh g i) := by unfold IdFresh; exact inferInstance

private theorem applyPool_as_prun (e : Env) (l : List Nat) (C : St) : applyPool e l C = prun e (l.map POp.app) C :=
  (prun_apps e l C).symm

/-- **one admission (`doTx`) on top of the pool keeps "the state refines `C` + pool" and the side conditions of the pool.**
`C` any state (in the closing induction: the canonical state of the tip) with `FrozenInv`; the state refines "`C`, then the
pool"; `PoolValid`, no repetition. If the transaction is accepted it must be well-formed, cite the declared frozen
heights and have no row in `C` (it is not confirmed on the chain of `C`) — nothing is asked of a refused transaction:
`doTx` then leaves the state as it is (C05). -/
theorem doTx_refines (e : Env) (s : St) (lh : Int) (i : Nat) (C : St)
    (hs : TRefines s (applyPool e s.pool C)) (hpool : PoolValid e s.pool C) (hnd : s.pool.Nodup)
    (hfz : FrozenInv e C)
    (hacc : (doTx e s lh i).2 = .ok → TxWF e i ∧ StaticFrozen e i ∧ ∀ o, lookup C.U (i, o) = none) :
    TRefines (doTx e s lh i).1 (applyPool e (doTx e s lh i).1.pool C) ∧
    PoolValid e (doTx e s lh i).1.pool C ∧ (doTx e s lh i).1.pool.Nodup ∧
    (doTx e s lh i).1.pointer = s.pointer ∧
    ((doTx e s lh i).1.pool = s.pool ∨ (doTx e s lh i).1.pool = s.pool ++ [i]) := by
  by_cases hok : (doTx e s lh i).2 = .ok
  · obtain ⟨hnp, hadm, hs'⟩ := XV.C03.doTx_ok e s lh i hok
    obtain ⟨hwf, hsf, hfresh⟩ := hacc hok
    have hP := (poolValid_iff e _ _).mp hpool
    have hpl : (doTx e s lh i).1.pool = s.pool ++ [i] := by rw [hs']
    have hid : ∀ op ∈ s.pool.map POp.app, (e.tx (opId op)).id = opId op := by
      intro op hop
      obtain ⟨j, hj, rfl⟩ := List.mem_map.mp hop
      exact (hP.wf j hj).id
    have hfr : ∀ o, lookup (applyPool e s.pool C).U (i, o) = none := by
      intro o
      rw [applyPool_as_prun]
      apply prun_row_absent e _ C i o hid _ (hfresh o)
      intro op hop h
      obtain ⟨j, hj, rfl⟩ := List.mem_map.mp hop
      simp only [opId] at h
      exact hnp (h ▸ hj)
    have hfzP : FrozenInv e (applyPool e s.pool C) := by
      rw [applyPool_as_prun]
      apply prun_FrozenInv e _ C _ hfz
      intro op hop
      obtain ⟨j, hj, rfl⟩ := List.mem_map.mp hop
      exact hP.wf j hj
    refine ⟨doTx_keeps_pool_form e C s lh i hs, ?_, ?_, doTx_pointer e s lh i, Or.inr hpl⟩
    · rw [hpl]
      apply poolValid_snoc e s.pool i C hpool ⟨lh, ?_⟩ hwf hfr
      · exact citesFrozen_of_inv e _ i hfzP hsf
      · rw [← admission_congrT s _ lh (e.tx i) hs.obs]; exact hadm
    · rw [hpl]
      apply List.nodup_append.mpr
      refine ⟨hnd, by simp, ?_⟩
      intro a ha b hb
      simp only [List.mem_cons, List.not_mem_nil, or_false] at hb
      rw [hb]; exact fun h => hnp (h ▸ ha)
  · rw [XV.C05.doTx_fail_noop e s lh i hok]
    exact ⟨hs, hpool, hnd, rfl, Or.inl rfl⟩

-- non-vacuity: the node of the `play_refines` example admits a sixth transaction (27 spends the output of 23)
private def dtEnv : Env := { prEnv with
  txs := prEnv.txs ++ [(27, ⟨27, false, [⟨23, 0, "u3", 4, 0, false⟩], [⟨"u7", 3, 0⟩, ⟨"$", 1, 0⟩], [⟨"k", some (22, 0)⟩], []⟩)] }
private def dtS : St := { applyPool dtEnv prPool (canon dtEnv prG 1) with pool := prPool }

example : (doTx dtEnv dtS 0 27).2 = .ok ∧ (doTx dtEnv dtS 0 27).1.pool = prPool ++ [27] ∧ dtS.pool.Nodup ∧
    StaticFrozen dtEnv 27 ∧ (doTx dtEnv dtS 0 21).2 = .inpool := by decide
example : TxWF dtEnv 27 := ⟨by decide, by decide, by decide⟩
example : ∀ o, lookup (canon dtEnv prG 1).U (27, o) = none := absent_of_rows _ _ (by decide)
example : FrozenInv dtEnv (canon dtEnv prG 1) := frozenInv_of_rows _ _ (by decide)
example : TRefines dtS (applyPool dtEnv dtS.pool (canon dtEnv prG 1)) :=
  (TRefines.refl _).of_tables ⟨rfl, rfl, rfl, rfl⟩ ⟨rfl, rfl, rfl, rfl⟩
example : PoolValid dtEnv dtS.pool (canon dtEnv prG 1) :=
  ⟨⟨0, by decide⟩, ⟨by decide, by decide, by decide⟩, absent_of_rows _ _ (by decide), by decide,
   ⟨0, by decide⟩, ⟨by decide, by decide, by decide⟩, absent_of_rows _ _ (by decide), by decide,
   ⟨0, by decide⟩, ⟨by decide, by decide, by decide⟩, absent_of_rows _ _ (by decide), by decide,
   ⟨0, by decide⟩, ⟨by decide, by decide, by decide⟩, absent_of_rows _ _ (by decide), by decide,
   ⟨0, by decide⟩, ⟨by decide, by decide, by decide⟩, absent_of_rows _ _ (by decide), by decide, trivial⟩

-- ================================================================== the canonical state as a list of operations

/-- the transactions confirmed on the chain of block `p`, root first -/
def chainTxs (e : Env) (p : Nat) : List Nat :=
  (ancestors e (e.blocks.length + 1) p).reverse.flatMap (fun bi => (e.block bi).txs)

private def chainOps (e : Env) (l : List Nat) : List POp :=
  l.flatMap (fun bi => blockOps (e.block bi).prop (e.block bi).txs)

private theorem prun_tabEq (e : Env) (l : List POp) (s s' : St) (h : TabEq s s') :
    TabEq (prun e l s) (prun e l s') := by
  induction l generalizing s s' with
  | nil => exact h
  | cons a rest ih => exact ih _ _ (pstep_tabEq e s s' a h)

private theorem replayChain_tabEq (e : Env) (l : List Nat) (s s' : St) (h : TabEq s s') :
    TabEq (replayChain e l s) (prun e (chainOps e l) s') := by
  induction l generalizing s s' with
  | nil => exact h
  | cons bi rest ih =>
    rw [replayChain_cons]
    unfold chainOps
    rw [List.flatMap_cons, prun_append]
    apply ih
    have h1 : TabEq (replayBlock e s (e.block bi)) (replayTxs e (e.block bi).prop (e.block bi).txs s) :=
      TabEq.of_tables (x := replayTxs e (e.block bi).prop (e.block bi).txs s) ⟨rfl, rfl, rfl, rfl⟩
    rw [← prun_blockOps] at h1
    exact h1.trans (prun_tabEq e _ s s' h)

private theorem opId_chainOps (e : Env) (l : List Nat) :
    ∀ op ∈ chainOps e l, opId op ∈ l.flatMap (fun bi => (e.block bi).txs) := by
  intro op hop
  unfold chainOps at hop
  obtain ⟨bi, hbi, hop⟩ := List.mem_flatMap.mp hop
  exact List.mem_flatMap.mpr ⟨bi, hbi, opId_blockOps _ _ op hop⟩

private theorem chainValid_wf (e : Env) (l : List Nat) (r : St) (h : ChainValid e l r) :
    ∀ i ∈ l.flatMap (fun bi => (e.block bi).txs), TxWF e i := by
  induction l generalizing r with
  | nil => intro i hi; simp at hi
  | cons bi rest ih =>
    intro i hi
    rw [List.flatMap_cons] at hi
    rcases List.mem_append.mp hi with h1 | h1
    · exact h.1.wf i h1
    · exact ih _ h.2 i h1

private theorem canon_tabEq (e : Env) (g : St) (p : Nat) :
    TabEq (canon e g p) (prun e (chainOps e (ancestors e (e.blocks.length + 1) p).reverse) g) :=
  replayChain_tabEq e _ g g (TabEq.refl g)

/-- a fresh identifier that is not confirmed on the chain of `p` names no row and no key version of the canonical state -/
private theorem canon_fresh (e : Env) (g : St) (p i : Nat)
    (hch : ChainValid e (ancestors e (e.blocks.length + 1) p).reverse g) (hf : IdFresh g i) (hni : i ∉ chainTxs e p) :
    (∀ o, lookup (canon e g p).U (i, o) = none) ∧ (∀ k o, curVer (canon e g p) k ≠ some (i, o)) := by
  have hT := canon_tabEq e g p
  have hid : ∀ op ∈ chainOps e (ancestors e (e.blocks.length + 1) p).reverse, (e.tx (opId op)).id = opId op :=
    fun op hop => (chainValid_wf e _ g hch _ (opId_chainOps e _ op hop)).id
  constructor
  · intro o
    rw [hT.U]
    apply prun_row_absent e _ g i o hid
    · intro op hop h
      exact hni (h ▸ opId_chainOps e _ op hop)
    · exact absent_of_rows _ _ hf.1 o
  · intro k o hc
    rw [hT.curVer] at hc
    rcases prun_curVer e _ g k hid with h | ⟨w, o', hw, h⟩
    · rw [h] at hc
      exact verFresh_of_rows g i hf.2.1 hf.2.2 k o hc
    · rw [h] at hc
      injection hc with hc
      injection hc with hw1 _
      apply hni
      rw [← hw1]
      exact opId_chainOps e _ _ hw

private theorem canon_frozenInv (e : Env) (g : St) (p : Nat)
    (hch : ChainValid e (ancestors e (e.blocks.length + 1) p).reverse g) (hf : FrozenInv e g) :
    FrozenInv e (canon e g p) := by
  apply FrozenInv_of_U e _ _ (canon_tabEq e g p).U
  apply prun_FrozenInv e _ g _ hf
  intro op hop
  exact (txWF_iff e _).mp (chainValid_wf e _ g hch _ (opId_chainOps e _ op hop))

/-- the ancestor list of a child is the child followed by the ancestor list of its parent -/
private theorem ancestors_child (e : Env) (hpl : ParentLower e) (bi p : Nat) (hpre : (e.block bi).pre = some p) :
    ancestors e (e.blocks.length + 1) bi = bi :: ancestors e (e.blocks.length + 1) p := by
  have hk := block_known_of_pre e bi (by rw [hpre]; simp)
  obtain ⟨m, hm⟩ : ∃ m, e.blocks.length = m + 1 := by
    cases hb : e.blocks with
    | nil => rw [hb] at hk; simp at hk
    | cons x r => exact ⟨r.length, by simp⟩
  obtain ⟨r, hr⟩ := ancestors_head e m p
  have h1 : ancestors e (e.blocks.length + 1) bi = [bi] ++ p :: r := by
    rw [ancestors_succ_some e _ bi p hpre, hm, hr]; rfl
  have h2 := ancestors_tail_eq e hpl bi p [bi] r h1
  rw [h1, h2]; rfl

private theorem chainTxs_child (e : Env) (hpl : ParentLower e) (bi p : Nat) (hpre : (e.block bi).pre = some p) :
    chainTxs e bi = chainTxs e p ++ (e.block bi).txs := by
  unfold chainTxs
  rw [ancestors_child e hpl bi p hpre, List.reverse_cons, List.flatMap_append]
  simp

private theorem blockValid_of_chain (e : Env) (g : St) (hpl : ParentLower e) (bi p : Nat)
    (hpre : (e.block bi).pre = some p)
    (hch : ChainValid e (ancestors e (e.blocks.length + 1) bi).reverse g) :
    BlockValid e (canon e g p) (e.block bi) := by
  rw [ancestors_child e hpl bi p hpre, List.reverse_cons] at hch
  exact (chainValid_snoc e _ bi g hch).2

-- ------------------------------------------------------------------ a confirmed transaction cannot be admitted again

private theorem chainValid_pValid (e : Env) (l : List Nat) (r : St) (h : ChainValid e l r) :
    pValid e (chainOps e l) r := by
  induction l generalizing r with
  | nil => trivial
  | cons bi rest ih =>
    obtain ⟨hb, hr⟩ := h
    unfold chainOps
    rw [List.flatMap_cons]
    apply (pValid_append e _ _ r).mpr
    obtain ⟨lhb, s2b, hfwd⟩ := hb.fwd
    refine ⟨pValid_of_applyBlockTxs e lhb _ _ r s2b hfwd, ?_⟩
    have hT : TabEq (replayBlock e r (e.block bi)) (prun e (blockOps (e.block bi).prop (e.block bi).txs) r) := by
      rw [prun_blockOps]
      exact TabEq.of_tables (x := replayTxs e (e.block bi).prop (e.block bi).txs r) ⟨rfl, rfl, rfl, rfl⟩
    exact ((chainSys e).congr _ _ _ hT (ih _ hr)).1

private theorem blockOps_ids (prop : String) (l : List Nat) :
    (blockOps prop l).map opId = l.flatMap (fun j => [j, j]) := by
  induction l with
  | nil => rfl
  | cons i rest ih => rw [blockOps_cons]; simp [opId, ih]

private theorem chainOps_ids (e : Env) (l : List Nat) :
    (chainOps e l).map opId = (l.flatMap (fun bi => (e.block bi).txs)).flatMap (fun j => [j, j]) := by
  induction l with
  | nil => rfl
  | cons bi rest ih =>
    unfold chainOps at ih ⊢
    rw [List.flatMap_cons, List.map_append, ih, blockOps_ids, List.flatMap_cons, List.flatMap_append]

/-- in the doubled list of a list without repetitions, an element that stands on both sides of an occurrence of `i` is `i` -/
private theorem dup_split (L : List Nat) (hnd : L.Nodup) : ∀ (X Y : List Nat) (i a : Nat),
    L.flatMap (fun j => [j, j]) = X ++ i :: Y → a ∈ X → a ∈ Y → a = i := by
  induction L with
  | nil => intro X Y i a h; simp at h
  | cons j L' ih =>
    intro X Y i a h haX haY
    simp only [List.nodup_cons] at hnd
    rw [List.flatMap_cons] at h
    simp only [List.cons_append, List.nil_append] at h
    have hsub : ∀ z, z ∈ L'.flatMap (fun j => [j, j]) → z ∈ L' := by
      intro z hz
      obtain ⟨w, hw, hzw⟩ := List.mem_flatMap.mp hz
      simp only [List.mem_cons, List.not_mem_nil, or_false, or_self] at hzw
      rw [hzw]; exact hw
    match X, h, haX with
    | [x1], h, haX =>
      simp only [List.cons_append, List.nil_append, List.cons.injEq] at h
      simp only [List.mem_cons, List.not_mem_nil, or_false] at haX
      rw [haX, ← h.1, h.2.1]
    | x1 :: x2 :: X', h, haX =>
      simp only [List.cons_append, List.cons.injEq] at h
      obtain ⟨h1, h2, h3⟩ := h
      rcases List.mem_cons.mp haX with hx | hx
      · exfalso
        have : a ∈ L'.flatMap (fun j => [j, j]) := by rw [h3]; simp [haY]
        rw [hx, ← h1] at this
        exact hnd.1 (hsub _ this)
      · rcases List.mem_cons.mp hx with hx | hx
        · exfalso
          have : a ∈ L'.flatMap (fun j => [j, j]) := by rw [h3]; simp [haY]
          rw [hx, ← h2] at this
          exact hnd.1 (hsub _ this)
        · exact ih hnd.2 X' Y i a h3 hx haY

-- ================================================================== is an accepted block replayable? — after the repair: yes

/-- the honest formulation of "`ChainValid` of every block that gets applied", literally at the SAME ledger height: a block
that `play` ACCEPTS, on a node whose state is "a well-formed base state `R` + a valid pool" with fresh ids everywhere, is
accepted by a fresh replica that is at `R` (`todoBlock`: every transaction of the block admitted in block order) -/
def accepted_block_replayable_statement : Prop :=
  ∀ (e : Env) (s : St) (lh : Int) (b : Block) (R : St),
    KVInv e R → PoolValid e s.pool R → s.pool.Nodup → TRefines s (applyPool e s.pool R) →
    (∀ i ∈ s.pool ++ b.txs, ∀ o, lookup R.U (i, o) = none) →
    (∀ i ∈ s.pool ++ b.txs, ∀ k o, curVer R k ≠ some (i, o)) →
    FrozenInv e R → (∀ i ∈ s.pool ++ b.txs, StaticFrozen e i ∧ TxWF e i) → b.txs.Nodup →
    (play e s lh b).2 = .ok → (todoBlock e R lh b).isSome = true

-- THE CODE AS FOUND (defect (2), reproduced on the Go code: corpus/C01/block-confirms-stale-pending-reader.ops). Before the
-- repair of `processUnconfirmTxs` the model had no guard `staleMember`, and the statement above was refuted
-- (`accepted_block_replayable_refuted`, by this witness, found by random search on the executable model): base state: key
-- "b" live at version (1,0). Pool = [10]: transaction 10 only READS "b"@(1,0) (no token part, no write). Block 2 =
-- [99, 30, 10]: the award 99, the NEW transaction 30 that overwrites "b"@(1,0), then the pending 10. The node as found:
-- nothing conflicts (10 is in the block, so it is not examined by the conflict test), 99 and 30 are admitted and applied,
-- 10 is skipped as already applied — the block was ACCEPTED. A fresh replica applies 99, 30 and then refuses 10: its read
-- "b"@(1,0) is stale, the key is at (30,0). The model without the guard is not available any more; what can be stated is
-- that the repaired node REFUSES the witness block (`ErrRWSetInvalid`), as the replica does:
private def arEnv : Env := {
  txs := [
    (1, ⟨1, false, [], [], [⟨"b", none⟩], [⟨"b", "x", false⟩]⟩),
    (10, ⟨10, false, [], [], [⟨"b", some (1, 0)⟩], []⟩),
    (30, ⟨30, false, [], [], [⟨"b", some (1, 0)⟩], [⟨"b", "y", false⟩]⟩),
    (99, ⟨99, true, [], [⟨"m", 7, 0⟩], [], []⟩)],
  blocks := [(1, ⟨1, none, 1, [1], "m"⟩), (2, ⟨2, some 1, 2, [99, 30, 10], "m"⟩)] }
private def arR : St := { ZU := [("b", (1, 0))], pointer := 1 }
private def arS : St := { applyPool arEnv [10] arR with pool := [10] }

example : arS.pool = [10] ∧ staleMember arEnv arS.pool [] (arEnv.block 2).txs = true ∧
    (play arEnv arS 0 (arEnv.block 2)).2 = .rwset ∧ (play arEnv arS 0 (arEnv.block 2)).1.pool = [10] ∧
    (play arEnv arS 0 (arEnv.block 2)).1.pointer = 1 ∧
    (todoBlock arEnv arR 0 (arEnv.block 2)).isSome = false ∧
    admitTx (replayTxs arEnv "m" [99, 30] arR) 0 (arEnv.tx 10) = .rwset ∧
    -- the same block with the reader standing BEFORE the overwriter is accepted by the node and by the replica
    (play arEnv arS 0 ⟨2, some 1, 2, [99, 10, 30], "m"⟩).2 = .ok ∧
    (todoBlock arEnv arR 0 ⟨2, some 1, 2, [99, 10, 30], "m"⟩).isSome = true := by decide

private theorem play_ok_nodup (e : Env) (s : St) (lh : Int) (b : Block) (hok : (play e s lh b).2 = .ok) :
    blockHasDupInput e b.txs = false := by
  unfold play at hok
  by_cases h1 : b.pre ≠ some s.pointer
  · rw [if_pos h1] at hok; cases hok
  · rw [if_neg h1] at hok
    by_cases h2 : blockHasDupInput e b.txs = true
    · rw [if_pos h2] at hok; cases hok
    · simpa using h2

/-- **an accepted block IS replayable** (after the repair of `processUnconfirmTxs`; of the code as found this was false,
see above). Under the hypotheses of `accepted_block_replayable_statement` — nothing else: the former extra hypothesis
`NoStaleMember` of `accepted_block_replayable_partial` is now what the guard `staleMember` of `play` establishes, in the
exact form needed (a pending member of the block read, of every key written earlier in the block, the last version
written before it: `staleMember_false`; `NoStaleMember` asked more than that — no earlier write at all to a key a pending
member only reads — and is not implied by the guard) — a fresh replica at `R` applies every transaction of the block in
block order, at every ledger height from some height `lh0` on. Why not "at `lh` itself": admission is monotone in the
ledger height, and the pending members of the block were admitted at the heights of their submission, which the model
does not tie to `lh` (`accepted_block_replayable_same_height_refuted`). -/
theorem accepted_block_replayable (e : Env) (s : St) (lh : Int) (b : Block) (R : St)
    (hinv : KVInv e R) (hpool : PoolValid e s.pool R) (hnd : s.pool.Nodup)
    (hs : TRefines s (applyPool e s.pool R))
    (hfreshU : ∀ i ∈ s.pool ++ b.txs, ∀ o, lookup R.U (i, o) = none)
    (hfreshV : ∀ i ∈ s.pool ++ b.txs, ∀ k o, curVer R k ≠ some (i, o))
    (hfz : FrozenInv e R) (hst : ∀ i ∈ s.pool ++ b.txs, StaticFrozen e i ∧ TxWF e i) (hndB : b.txs.Nodup)
    (hok : (play e s lh b).2 = .ok) :
    ∃ lh0, ∀ lh', lh0 ≤ lh' → (todoBlock e R lh' b).isSome = true := by
  have hP := (poolValid_iff e _ _).mp hpool
  have hwP := hP.wf
  obtain ⟨tE, pK, pEv⟩ := play_evict_form e s b R hP hnd (fun i hi => hfreshU i (List.mem_append_left _ hi)) hfz
    (fun i hi => (hst i (List.mem_append_left _ hi)).1)
  have hKV : KVInv e (applyPool e (s.pool.filter (fun i => !(playEvict e s b).contains i)) R) :=
    applyPool_KVInv e _ _ (fun i hi => (hwP i (List.mem_filter.mp hi).1).id) hinv
  have hs1 : TRefines (playUndone e s b)
      (applyPool e (s.pool.filter (fun i => !(playEvict e s b).contains i)) R) := by
    rw [playUndone_eq]
    exact rollback_applyPool e _ _ ((poolValid_iff e _ _).mpr pEv) hKV s (hs.trans tE.trefines)
  have hv := play_replayable_form e s lh b R hok hP hnd pK hs1
    (fun i hi => (txWF_iff e i).mp (hst i (List.mem_append_right _ hi)).2) hndB hfreshU hfreshV
    (play_ok_noStale e s lh b hok)
  obtain ⟨lh0, s2, hfwd⟩ := applyBlockTxs_of_pValid e b.prop b.txs R hv
  refine ⟨lh0, fun lh' hle => ?_⟩
  unfold todoBlock
  rw [play_ok_nodup e s lh b hok, applyBlockTxs_mono e lh0 lh' hle b.prop b.txs R s2 hfwd]
  rfl

/-- the form the closing induction uses: the forward part of `BlockValid` -/
theorem accepted_block_fwd (e : Env) (s : St) (lh : Int) (b : Block) (R : St)
    (hinv : KVInv e R) (hpool : PoolValid e s.pool R) (hnd : s.pool.Nodup)
    (hs : TRefines s (applyPool e s.pool R))
    (hfreshU : ∀ i ∈ s.pool ++ b.txs, ∀ o, lookup R.U (i, o) = none)
    (hfreshV : ∀ i ∈ s.pool ++ b.txs, ∀ k o, curVer R k ≠ some (i, o))
    (hfz : FrozenInv e R) (hst : ∀ i ∈ s.pool ++ b.txs, StaticFrozen e i ∧ TxWF e i) (hndB : b.txs.Nodup)
    (hok : (play e s lh b).2 = .ok) :
    ∃ lh' s2, applyBlockTxs e lh' b.prop [] b.txs R = some (s2, .ok) := by
  obtain ⟨lh0, h⟩ := accepted_block_replayable e s lh b R hinv hpool hnd hs hfreshU hfreshV hfz hst hndB hok
  have h0 := h lh0 (Int.le_refl _)
  unfold todoBlock at h0
  split at h0
  · cases h0
  · split at h0
    · rename_i s2 heq
      exact ⟨lh0, s2, heq⟩
    · cases h0

-- the literal same-height statement fails for a reason that has nothing to do with the pool processing: ledger heights.
-- Base state: row (1,0) of u0, frozen until height 10. Pool = [10]: transaction 10 spends it (admitted when the ledger was
-- at height 10). Block 2 = [99, 10] played at ledger height 0: the pending member is skipped; a replica at height 0 refuses
-- it (the output is still frozen), at every height >= 10 it accepts. A node's ledger height only decreases by `Truncate`.
private def ahEnv : Env := {
  txs := [
    (1, ⟨1, true, [], [⟨"u0", 5, 10⟩], [], []⟩),
    (10, ⟨10, false, [⟨1, 0, "u0", 5, 10, false⟩], [⟨"u1", 5, 0⟩], [], []⟩),
    (99, ⟨99, true, [], [⟨"m", 7, 0⟩], [], []⟩)],
  blocks := [(1, ⟨1, none, 1, [1], "m"⟩), (2, ⟨2, some 1, 2, [99, 10], "m"⟩)] }
private def ahR : St := { U := [((1, 0), ⟨"u0", 5, 10⟩)], total := 5, pointer := 1 }
private def ahS : St := { applyPool ahEnv [10] ahR with pool := [10] }

example : admitTx ahR 10 (ahEnv.tx 10) = .ok ∧ admitTx ahR 0 (ahEnv.tx 10) = .frozen ∧
    (play ahEnv ahS 0 (ahEnv.block 2)).2 = .ok ∧ (todoBlock ahEnv ahR 0 (ahEnv.block 2)).isSome = false ∧
    (todoBlock ahEnv ahR 10 (ahEnv.block 2)).isSome = true := by decide

/-- the literal same-height statement is false in the model — by ledger heights only (see the comment above); the
statement that holds is `accepted_block_replayable` -/
theorem accepted_block_replayable_same_height_refuted : ¬ accepted_block_replayable_statement := by
  intro h
  have := h ahEnv ahS 0 (ahEnv.block 2) ahR (by apply KVInv_of_rows <;> decide)
    ⟨⟨10, by decide⟩, ⟨by decide, by decide, by decide⟩, absent_of_rows _ _ (by decide), by decide, trivial⟩
    (by decide) ((TRefines.refl _).of_tables ⟨rfl, rfl, rfl, rfl⟩ ⟨rfl, rfl, rfl, rfl⟩)
    (fun i hi => absent_of_rows _ i (by revert i hi; decide))
    (fun i hi => verFresh_of_rows _ i (by revert i hi; decide) (by revert i hi; decide))
    (frozenInv_of_rows _ _ (by decide)) (by decide) (by decide) (by decide)
  revert this
  decide

-- non-vacuity of `accepted_block_replayable`: the accepted block of the `play_refines` example (a pending member that
-- writes the key it reads, a new transaction, two evictions) is replayable
example : (play prEnv prS 0 (prEnv.block 2)).2 = .ok ∧ staleMember prEnv prS.pool [] (prEnv.block 2).txs = false ∧
    (todoBlock prEnv (canon prEnv prG 1) 0 (prEnv.block 2)).isSome = true := by decide
example : ∀ i ∈ prS.pool ++ (prEnv.block 2).txs, StaticFrozen prEnv i ∧ TxWF prEnv i := by decide
example : ∀ i ∈ prS.pool ++ (prEnv.block 2).txs, ∀ o, lookup (canon prEnv prG 1).U (i, o) = none :=
  fun i hi => absent_of_rows _ i (by revert i hi; decide)
-- the guard admits what `NoStaleMember` (the hypothesis of the former partial theorem) excluded: a pending member that
-- only reads a key at the version an earlier PENDING member of the block wrote. Pool [30, 10]: 30 overwrites "b"@(1,0), 10
-- reads "b"@(30,0); block [99, 30, 10]: accepted, and replayable
example :
    let e : Env := { arEnv with txs := arEnv.txs.map (fun p =>
      if p.1 = 10 then (10, ⟨10, false, [], [], [⟨"b", some (30, 0)⟩], []⟩) else p) }
    let s : St := { applyPool e [30, 10] arR with pool := [30, 10] }
    (play e s 0 (e.block 2)).2 = .ok ∧ (play e s 0 (e.block 2)).1.pool = [] ∧
    (todoBlock e arR 0 (e.block 2)).isSome = true ∧
    -- `NoStaleMember` as it was defined fails here
    ¬ (∀ i ∈ (e.block 2).txs, ∀ a ∈ (e.block 2).txs, [i, a].Sublist (e.block 2).txs → a ∈ s.pool →
        ∀ pk ∈ (e.tx a).kin, (∀ ko ∈ (e.tx a).kout, ko.key ≠ pk.key) → ∀ ko ∈ (e.tx i).kout, ko.key ≠ pk.key) := by
  decide

-- ------------------------------------------------------------------ `BlockValid` of a block the node itself applied

/-- admission only sees the observables -/
private theorem admitTx_trefines (x r : St) (h : TRefines x r) (lh : Int) (t : Tx) : admitTx x lh t = admitTx r lh t :=
  admission_congrT x r lh t h.obs

/-- a run of the block loop that succeeds from a state refining `r` succeeds from `r` -/
private theorem applyBlockTxs_trefines (e : Env) (lh : Int) (prop : String) (l : List Nat) :
    ∀ (x r : St), TRefines x r → ∀ x2, applyBlockTxs e lh prop [] l x = some (x2, .ok) →
      ∃ r2, applyBlockTxs e lh prop [] l r = some (r2, .ok) := by
  induction l with
  | nil => intro x r _ x2 _; exact ⟨r, rfl⟩
  | cons i rest ih =>
    intro x r hxr x2 h
    obtain ⟨hadm, hrest⟩ := applyBlockTxs_cons_ok e lh prop i rest x x2 h
    obtain ⟨r2, hr2⟩ := ih _ _ (blockStep_trefines e prop i x r hxr) x2 hrest
    refine ⟨r2, ?_⟩
    unfold applyBlockTxs
    simp only [List.contains_nil, Bool.false_eq_true, ↓reduceIte]
    rw [← admitTx_trefines x r hxr, hadm]
    exact hr2

/-- transactions that cite the declared frozen heights cite, along a block, the frozen heights of the rows they spend -/
private theorem frozenAlong_of_static (e : Env) (prop : String) (l : List Nat) :
    ∀ s, FrozenInv e s → (∀ i ∈ l, StaticFrozen e i ∧ TxWF e i) → FrozenAlong e prop l s := by
  induction l with
  | nil => intro _ _ _; trivial
  | cons i rest ih =>
    intro s hf hst
    refine ⟨?_, ih _ ?_ (fun j hj => hst j (List.mem_cons_of_mem _ hj))⟩
    · intro q hq u hu
      rw [hf q.tx q.off u hu, (hst i List.mem_cons_self).1 q hq]
    · have hb : blockStep e prop i s = prun e (blockOps prop [i]) s := by rw [prun_blockOps]; rfl
      rw [hb]
      apply prun_FrozenInv e _ s _ hf
      intro op hop
      have := opId_blockOps prop [i] op hop
      simp only [List.mem_cons, List.not_mem_nil, or_false] at this
      rw [this]
      exact (txWF_iff e i).mp (hst i List.mem_cons_self).2

/-- a valid chain extended by a block that is valid on its replay -/
private theorem chainValid_snoc_mk (e : Env) (l : List Nat) (bi : Nat) (r : St) (h : ChainValid e l r)
    (hb : BlockValid e (replayChain e l r) (e.block bi)) : ChainValid e (l ++ [bi]) r := by
  induction l generalizing r with
  | nil => exact ⟨hb, trivial⟩
  | cons b0 rest ih =>
    obtain ⟨h1, h2⟩ := h
    rw [replayChain_cons] at hb
    exact ⟨h1, ih _ h2 hb⟩

-- ================================================================== the closing induction over histories

/-- the hypotheses on the environment — all STATIC: they mention neither the node nor any replay. Block tree with parent
links strictly down in height; every registered block is known under its id, its parent is registered, and all blocks
descend from one root; the transactions of the registered blocks are well-formed (known under their ids, no self-citing
input, one write per key) and cite the declared frozen heights; no transaction occurs twice on a chain; the ids of block
transactions are fresh in `g`; `g` is well-formed and its rows carry the frozen heights their transactions declare.
(Before the repair of `processUnconfirmTxs` this structure also ASSUMED "every chain of the tree can be replayed on a fresh
node from `g`" — `chains : ∀ bi, ChainValid e (chain of bi) g` — because `play` alone did not guarantee it. Now the
replayability of the node's chain is part of the invariant `Inv` and is PROVED for every block the node accepts through
`play` (`accepted_block_replayable`) and for every block a walk applies (`todoBlock` admits every transaction in order);
only for the node's own block it is still asked, in `OpOK`.) -/
structure EnvOK (e : Env) (g : St) : Prop where
  lower : ParentLower e
  blockId : ∀ bi, bi ∈ e.blocks.map (·.1) → (e.block bi).id = bi
  parentKnown : ∀ bi ∈ e.blocks.map (·.1),
    (e.block bi).pre = none ∨ ∃ q ∈ e.blocks.map (·.1), (e.block bi).pre = some q
  oneRoot : ∀ b1 ∈ e.blocks.map (·.1), ∀ b2 ∈ e.blocks.map (·.1),
    (ancestors e (e.blocks.length + 1) b1).getLast? = (ancestors e (e.blocks.length + 1) b2).getLast?
  blockWF : ∀ bi, bi ∈ e.blocks.map (·.1) → ∀ i ∈ (e.block bi).txs, TxWF e i ∧ StaticFrozen e i
  chainNodup : ∀ bi, bi ∈ e.blocks.map (·.1) → (chainTxs e bi).Nodup
  blockFresh : ∀ bi, bi ∈ e.blocks.map (·.1) → ∀ i ∈ (e.block bi).txs, IdFresh g i
  kv : KVInv e g
  frozen : FrozenInv e g

/-- **the invariant of the closing induction**: the node points at a registered block; the chain of that block can be
replayed on a fresh node from `g` with the side conditions of the block theorem (`ChainValid`: every transaction of every
block admitted in order); the node's tables refine the canonical state of the block (that replay) with the pending pool
applied in admission order; the pool satisfies the side conditions of the transaction theorems there, has no repetition,
contains no transaction that is confirmed on the chain, and its transactions cite declared frozen heights and have ids
fresh in `g` -/
structure Inv (e : Env) (g : St) (s : St) : Prop where
  known : s.pointer ∈ e.blocks.map (·.1)
  chain : ChainValid e (ancestors e (e.blocks.length + 1) s.pointer).reverse g
  refines : TRefines s (applyPool e s.pool (canon e g s.pointer))
  pool : PoolValid e s.pool (canon e g s.pointer)
  nodup : s.pool.Nodup
  disjoint : ∀ i ∈ s.pool, i ∉ chainTxs e s.pointer
  static : ∀ i ∈ s.pool, StaticFrozen e i ∧ IdFresh g i

/-- the operations of a history: a transaction is submitted, a block of a peer is played, the node's own block is
played, the node walks to a block; `lh` is the ledger height the operation runs at (frozen outputs); `skip` is the skip
list the ledger supplies for THIS walk (repaired `recoverUnconfirmedTx`: the pending transactions it records as confirmed
on the chain walked to; `walkEnv` of the driver) -/
inductive HOp where
  | submit (lh : Int) (i : Nat)
  | play (lh : Int) (bi : Nat)
  | playMiner (lh : Int) (bi : Nat)
  | walk (lh : Int) (dest : Nat) (prune : Bool := false) (skip : List Nat := [])
deriving Repr, DecidableEq

/-- one operation of the model; a refused submission / block leaves the state as it is (C05) -/
def hstep (e : Env) (s : St) : HOp → St
  | .submit lh i => (doTx e s lh i).1
  | .play lh bi => (play e s lh (e.block bi)).1
  | .playMiner lh bi => (playForMiner e s lh (e.block bi)).1
  | .walk lh dest prune skip => (walk (e.withSkip skip) s lh dest prune).1

def hrun (e : Env) (s : St) (ops : List HOp) : St := ops.foldl (hstep e) s

/-- what is asked of one operation of a history, in the state it is applied to (everything else follows from `EnvOK`
and the invariant). A submitted transaction that is ACCEPTED is well-formed, cites declared frozen heights and has a fresh
id; if it has no token input it must not be confirmed on the node's chain already (a transaction with a token input that
is confirmed cannot be accepted: its input is spent — `spent_on_chain`). NOTHING is asked of a peer's block: that a
fresh replica accepts what `play` accepts is proved (`accepted_block_replayable`). The node's own block, if accepted:
coinbase transactions new and without key writes, the others pending, a prefix of the pool, and — the one replayability
condition that is still asked — a fresh replica at the canonical state of the tip applies its transactions in block
order at this ledger height (the miner packs the pool in an order of the pool's dependency graph; that such an order is
replayable is the subject of C13, `pool_order_replayable` / `block_replayable`, in the pool model). A
walk goes to a registered block, and its skip list names every pending transaction that is confirmed on the destination's
chain — what the ledger supplies (`isConfirmedOnCurrentChain`); this replaces the former DYNAMIC condition "a pending
transaction without token input that is confirmed on the destination's chain is not among the re-admitted ones", which
spoke of the result of the walk and was false of the code as found (`walk_as_found_readmits_confirmed`). A walk that
FAILS (an undo refused at the irreversible height, a block refused at this ledger height) is covered too: it leaves the
node at the block it reached, with an empty pool (`inv_walk_fail`). -/
def OpOK (e : Env) (g : St) (s : St) : HOp → Prop
  | .submit lh i => (doTx e s lh i).2 = .ok →
      TxWF e i ∧ StaticFrozen e i ∧ IdFresh g i ∧ ((e.tx i).ins ≠ [] ∨ i ∉ chainTxs e s.pointer)
  | .play _ _ => True
  | .playMiner lh bi => (playForMiner e s lh (e.block bi)).2 = .ok →
      (∀ i ∈ (e.block bi).txs, (e.tx i).coinbase = false → i ∈ s.pool) ∧
      (∀ i ∈ (e.block bi).txs, (e.tx i).coinbase = true → i ∉ s.pool ∧ (e.tx i).kout = []) ∧
      (∀ a ∈ s.pool, a ∉ (e.block bi).txs → ∀ i ∈ (e.block bi).txs, i ∈ s.pool → [i, a].Sublist s.pool) ∧
      (applyBlockTxs e lh (e.block bi).prop [] (e.block bi).txs (canon e g s.pointer)).map (·.2) = some .ok
  | .walk _ dest _ skip => dest ∈ e.blocks.map (·.1) ∧ ∀ i ∈ s.pool, i ∈ chainTxs e dest → i ∈ skip

/-- `OpOK` for every operation of the history, each in the state it is applied to -/
def HistOK (e : Env) (g : St) : St → List HOp → Prop
  | _, [] => True
  | s, op :: rest => OpOK e g s op ∧ HistOK e g (hstep e s op) rest

/-- **an input of a transaction that is confirmed on the chain of `p` is a spent row, in the canonical state of `p` and
with any pending transactions (fresh ids, not on the chain) applied on top** -/
private theorem spent_on_chain (e : Env) (g : St) (p : Nat) (he : EnvOK e g) (hp : p ∈ e.blocks.map (·.1))
    (hch : ChainValid e (ancestors e (e.blocks.length + 1) p).reverse g)
    (P : List Nat) (hP : ∀ j ∈ P, j ∉ chainTxs e p ∧ IdFresh g j ∧ (e.tx j).id = j)
    (i : Nat) (hi : i ∈ chainTxs e p) (r : InRef) (hr : r ∈ (e.tx i).ins) :
    lookup (applyPool e P (canon e g p)).U (r.tx, r.off) = none := by
  have hnd := he.chainNodup p hp
  have hwfc := chainValid_wf e _ g hch
  have hT := applyPool_tabEq e P _ _ (canon_tabEq e g p)
  rw [hT.U, applyPool_as_prun, ← prun_append]
  -- split the operations of the chain at `app i`
  have happ : POp.app i ∈ chainOps e (ancestors e (e.blocks.length + 1) p).reverse := by
    unfold chainTxs at hi
    obtain ⟨bi, hbi, hib⟩ := List.mem_flatMap.mp hi
    unfold chainOps
    apply List.mem_flatMap.mpr
    refine ⟨bi, hbi, ?_⟩
    unfold blockOps
    exact List.mem_flatMap.mpr ⟨i, hib, by simp⟩
  obtain ⟨A, B', hsplit⟩ := List.append_of_mem happ
  have hwi := hwfc i hi
  have hri : r.tx ≠ i := hwi.self r hr
  rw [hsplit, List.append_assoc, prun_append]
  simp only [List.cons_append]
  rw [prun_cons]
  have hidc : ∀ op ∈ chainOps e (ancestors e (e.blocks.length + 1) p).reverse, (e.tx (opId op)).id = opId op :=
    fun op hop => (hwfc _ (opId_chainOps e _ op hop)).id
  apply prun_row_absent e _ _ r.tx r.off
  · intro op hop
    rcases List.mem_append.mp hop with h | h
    · exact hidc op (by rw [hsplit]; simp [h])
    · obtain ⟨j, hj, rfl⟩ := List.mem_map.mp h
      exact (hP j hj).2.2
  · -- no later operation carries the id r.tx
    intro op hop hid
    -- the row was there when `i` was admitted
    have hv := chainValid_pValid e _ g hch
    rw [hsplit] at hv
    obtain ⟨_, hv2⟩ := (pValid_append e _ _ g).mp hv
    obtain ⟨⟨lh, hadm⟩, _⟩ := (pValid_cons e _ _ _).mp hv2
    obtain ⟨hcur, _⟩ := XV.C03.admit_sound _ lh _ hadm
    obtain ⟨u, hu, _⟩ := hcur r hr
    rcases List.mem_append.mp hop with h | h
    · -- a later operation of the chain: then r.tx is a chain transaction, created before `i`, so twice on the chain
      have hrc : r.tx ∈ chainTxs e p := by
        rw [← hid]
        exact opId_chainOps e _ op (by rw [hsplit]; simp [h])
      have hinA : r.tx ∈ A.map opId := by
        cases hAm : decide (r.tx ∈ A.map opId) with
        | true => simpa using hAm
        | false =>
          exfalso
          have hnA : r.tx ∉ A.map opId := by simpa using hAm
          have := prun_row_other e A g r.tx r.off u
            (fun op' hop' => hidc op' (by rw [hsplit]; simp [hop']))
            (fun op' hop' h' => hnA (List.mem_map.mpr ⟨op', hop', h'⟩)) hu
          obtain ⟨bi, hbi, hib⟩ := List.mem_flatMap.mp hrc
          have hk : bi ∈ e.blocks.map (·.1) := by
            -- a block on the chain of a registered block: its transactions are fresh in `g` (via `blockFresh` of any
            -- registered block that contains it) — use that the chain's blocks are ancestors
            by_cases hbk : bi ∈ e.blocks.map (·.1)
            · exact hbk
            · exfalso
              -- an unregistered block is the default block: it has no transactions
              have : e.block bi = default := by
                unfold Env.block
                cases hl : lookup e.blocks bi with
                | none => rfl
                | some v =>
                  exfalso
                  apply hbk
                  have hm := lookup_mem e.blocks bi v hl
                  exact List.mem_map.mpr ⟨(bi, v), hm, rfl⟩
              rw [this] at hib
              cases hib
          have hfr := he.blockFresh bi hk r.tx hib
          rw [absent_of_rows _ _ hfr.1 r.off] at this
          cases this
      have hids := chainOps_ids e (ancestors e (e.blocks.length + 1) p).reverse
      rw [hsplit, List.map_append, List.map_cons] at hids
      simp only [opId] at hids
      have := dup_split _ hnd (A.map opId) (B'.map opId) i r.tx hids.symm hinA
        (List.mem_map.mpr ⟨op, h, hid⟩)
      exact hri this
    · -- a pending transaction
      obtain ⟨j, hj, rfl⟩ := List.mem_map.mp h
      simp only [opId] at hid
      obtain ⟨hjc, hjf, _⟩ := hP j hj
      by_cases hrc : r.tx ∈ chainTxs e p
      · exact hjc (hid ▸ hrc)
      · have := prun_row_other e A g r.tx r.off u
          (fun op' hop' => hidc op' (by rw [hsplit]; simp [hop']))
          (fun op' hop' h' => hrc (h' ▸ opId_chainOps e _ op' (by rw [hsplit]; simp [hop']))) hu
        rw [← hid, absent_of_rows _ _ hjf.1 r.off] at this
        cases this
  · -- right after `i` the row is gone
    simp only [pstep]
    have hk : (r.tx, r.off).1 ≠ (e.tx i).id := by rw [hwi.id]; exact hri
    rw [applyTx_lookup_otherid _ (e.tx i) _ hk, if_pos (List.mem_map.mpr ⟨r, hr, rfl⟩)]

/-- a transaction with a token input that is accepted by `doTx` is not confirmed on the chain of the tip -/
private theorem not_confirmed_of_ok (e : Env) (g : St) (p : Nat) (he : EnvOK e g) (hp : p ∈ e.blocks.map (·.1))
    (hch : ChainValid e (ancestors e (e.blocks.length + 1) p).reverse g)
    (st : St) (lh : Int) (i : Nat) (hst : TRefines st (applyPool e st.pool (canon e g p)))
    (hpool : ∀ j ∈ st.pool, j ∉ chainTxs e p ∧ IdFresh g j ∧ (e.tx j).id = j)
    (hok : (doTx e st lh i).2 = .ok) (hins : (e.tx i).ins ≠ []) : i ∉ chainTxs e p := by
  intro hi
  obtain ⟨_, hadm, _⟩ := XV.C03.doTx_ok e st lh i hok
  obtain ⟨hcur, _⟩ := XV.C03.admit_sound st lh _ hadm
  obtain ⟨r, hr⟩ := List.exists_mem_of_ne_nil _ hins
  obtain ⟨u, hu, _⟩ := hcur r hr
  rw [hst.obs.U, spent_on_chain e g p he hp hch st.pool hpool i hi r hr] at hu
  cases hu

private theorem Inv.freshU {e : Env} {g s : St} (h : Inv e g s) :
    ∀ i ∈ s.pool, ∀ o, lookup (canon e g s.pointer).U (i, o) = none :=
  fun i hi => (canon_fresh e g s.pointer i h.chain (h.static i hi).2 (h.disjoint i hi)).1

private theorem Inv.poolFacts {e : Env} {g s : St} (h : Inv e g s) :
    ∀ j ∈ s.pool, j ∉ chainTxs e s.pointer ∧ IdFresh g j ∧ (e.tx j).id = j :=
  fun j hj => ⟨h.disjoint j hj, (h.static j hj).2, (((poolValid_iff e _ _).mp h.pool).wf j hj).id⟩

private theorem inv_submit (e : Env) (g s : St) (lh : Int) (i : Nat) (he : EnvOK e g) (h : Inv e g s)
    (hop : OpOK e g s (.submit lh i)) : Inv e g (doTx e s lh i).1 := by
  have hch := h.chain
  have hni : (doTx e s lh i).2 = .ok → i ∉ chainTxs e s.pointer := by
    intro hok
    rcases (hop hok).2.2.2 with hins | hn
    · exact not_confirmed_of_ok e g s.pointer he h.known hch s lh i h.refines h.poolFacts hok hins
    · exact hn
  obtain ⟨a1, a2, a3, a4, a5⟩ := doTx_refines e s lh i (canon e g s.pointer) h.refines h.pool h.nodup
    (canon_frozenInv e g _ hch he.frozen)
    (fun hok => by
      obtain ⟨w, sf, fr, _⟩ := hop hok
      exact ⟨w, sf, (canon_fresh e g s.pointer i hch fr (hni hok)).1⟩)
  have hmem : ∀ j ∈ (doTx e s lh i).1.pool, j ∈ s.pool ∨ (j = i ∧ (doTx e s lh i).2 = .ok) := by
    intro j hj
    by_cases hok : (doTx e s lh i).2 = .ok
    · rcases a5 with h5 | h5
      · rw [h5] at hj; exact Or.inl hj
      · rw [h5] at hj
        rcases List.mem_append.mp hj with h6 | h6
        · exact Or.inl h6
        · simp only [List.mem_cons, List.not_mem_nil, or_false] at h6; exact Or.inr ⟨h6, hok⟩
    · rw [XV.C05.doTx_fail_noop e s lh i hok] at hj; exact Or.inl hj
  refine ⟨by rw [a4]; exact h.known, by rw [a4]; exact hch, by rw [a4]; exact a1, by rw [a4]; exact a2, a3, ?_, ?_⟩
  · intro j hj
    rw [a4]
    rcases hmem j hj with h1 | ⟨rfl, hok⟩
    · exact h.disjoint j h1
    · exact hni hok
  · intro j hj
    rcases hmem j hj with h1 | ⟨rfl, hok⟩
    · exact h.static j h1
    · exact ⟨(hop hok).2.1, (hop hok).2.2.1⟩

/-- a block on top of `p` whose transactions a fresh node at the canonical state of `p` applies in order is `BlockValid`
there: the other side conditions follow from the static ones of `EnvOK` -/
private theorem blockValid_of_fwd (e : Env) (g : St) (he : EnvOK e g) (p bi : Nat)
    (hpre : (e.block bi).pre = some p)
    (hch : ChainValid e (ancestors e (e.blocks.length + 1) p).reverse g)
    (hfwd : ∃ lh s2, applyBlockTxs e lh (e.block bi).prop [] (e.block bi).txs (canon e g p) = some (s2, .ok)) :
    BlockValid e (canon e g p) (e.block bi) := by
  have hk := block_known_of_pre e bi (by rw [hpre]; simp)
  have hnd := he.chainNodup bi hk
  rw [chainTxs_child e he.lower bi p hpre] at hnd
  refine ⟨hfwd, fun i hi => (he.blockWF bi hk i hi).1, (List.nodup_append.mp hnd).2.1, ?_, ?_⟩
  · intro i hi
    exact (canon_fresh e g p i hch (he.blockFresh bi hk i hi)
      (fun hm => (List.nodup_append.mp hnd).2.2 i hm i hi rfl)).1
  · exact frozenAlong_of_static e _ _ _ (canon_frozenInv e g p hch he.frozen)
      (fun i hi => ⟨(he.blockWF bi hk i hi).2, (he.blockWF bi hk i hi).1⟩)

/-- the chain of a block on top of `p` that is valid on the canonical state of `p` is valid -/
private theorem chainValid_child (e : Env) (g : St) (hpl : ParentLower e) (p bi : Nat)
    (hpre : (e.block bi).pre = some p)
    (hch : ChainValid e (ancestors e (e.blocks.length + 1) p).reverse g)
    (hb : BlockValid e (canon e g p) (e.block bi)) :
    ChainValid e (ancestors e (e.blocks.length + 1) bi).reverse g := by
  rw [ancestors_child e hpl bi p hpre, List.reverse_cons]
  exact chainValid_snoc_mk e _ bi g hch hb

/-- what the invariant and `EnvOK` give for a block `bi` whose parent is the tip -/
private theorem inv_block_facts (e : Env) (g s : St) (bi : Nat) (he : EnvOK e g) (h : Inv e g s)
    (hpre : (e.block bi).pre = some s.pointer) :
    bi ∈ e.blocks.map (·.1) ∧ e.block (e.block bi).id = e.block bi ∧
    chainTxs e bi = chainTxs e s.pointer ++ (e.block bi).txs ∧
    (∀ i ∈ s.pool ++ (e.block bi).txs, ∀ o, lookup (canon e g s.pointer).U (i, o) = none) ∧
    (∀ i ∈ s.pool ++ (e.block bi).txs, ∀ k o, curVer (canon e g s.pointer) k ≠ some (i, o)) := by
  have hk := block_known_of_pre e bi (by rw [hpre]; simp)
  have hct := chainTxs_child e he.lower bi s.pointer hpre
  have hnd := he.chainNodup bi hk
  rw [hct] at hnd
  have hch := h.chain
  have hall : ∀ i ∈ s.pool ++ (e.block bi).txs,
      (∀ o, lookup (canon e g s.pointer).U (i, o) = none) ∧ (∀ k o, curVer (canon e g s.pointer) k ≠ some (i, o)) := by
    intro i hi
    rcases List.mem_append.mp hi with h1 | h1
    · exact canon_fresh e g s.pointer i hch (h.static i h1).2 (h.disjoint i h1)
    · exact canon_fresh e g s.pointer i hch (he.blockFresh bi hk i h1)
        (fun hm => (List.nodup_append.mp hnd).2.2 i hm i h1 rfl)
  exact ⟨hk, by rw [he.blockId bi hk], hct, fun i hi => (hall i hi).1, fun i hi => (hall i hi).2⟩

private theorem play_pre (e : Env) (s : St) (lh : Int) (b : Block) (hok : (play e s lh b).2 = .ok) :
    b.pre = some s.pointer := by
  unfold play at hok
  by_cases h1 : b.pre ≠ some s.pointer
  · rw [if_pos h1] at hok; cases hok
  · simpa using h1

private theorem inv_play (e : Env) (g s : St) (lh : Int) (bi : Nat) (he : EnvOK e g) (h : Inv e g s) :
    Inv e g (play e s lh (e.block bi)).1 := by
  by_cases hok : (play e s lh (e.block bi)).2 = .ok
  · have hpre := play_pre e s lh _ hok
    obtain ⟨hk, hb, hct, hfu, hfv⟩ := inv_block_facts e g s bi he h hpre
    have hch := h.chain
    have hndB : (e.block bi).txs.Nodup := by
      have hnd := he.chainNodup bi hk
      rw [hct] at hnd
      exact (List.nodup_append.mp hnd).2.1
    -- the accepted block is replayable on the canonical state of the tip: no hypothesis needed (`accepted_block_replayable`)
    have hblk : BlockValid e (canon e g s.pointer) (e.block bi) :=
      blockValid_of_fwd e g he s.pointer bi hpre hch
        (accepted_block_fwd e s lh (e.block bi) (canon e g s.pointer) (replayChain_KVInv e _ g hch he.kv) h.pool h.nodup
          h.refines hfu hfv (canon_frozenInv e g _ hch he.frozen)
          (fun i hi => by
            rcases List.mem_append.mp hi with h1 | h1
            · exact ⟨(h.static i h1).1, (txWF_iff e i).mpr (((poolValid_iff e _ _).mp h.pool).wf i h1)⟩
            · exact ⟨(he.blockWF bi hk i h1).2, (he.blockWF bi hk i h1).1⟩)
          hndB hok)
    obtain ⟨a1, a2, a3, a4⟩ := play_refines e s lh (e.block bi) g he.lower hb hok he.kv hch hblk h.pool h.nodup
      h.refines h.freshU hfv (canon_frozenInv e g _ hch he.frozen) (fun i hi => (h.static i hi).1)
    have hid := he.blockId bi hk
    have hmem : ∀ j ∈ (play e s lh (e.block bi)).1.pool, j ∈ s.pool ∧ j ∉ (e.block bi).txs := by
      intro j hj
      rw [a4] at hj
      obtain ⟨h1, h2⟩ := List.mem_filter.mp hj
      simp only [Bool.and_eq_true, Bool.not_eq_true', List.contains_eq_mem, decide_eq_false_iff_not] at h2
      exact ⟨h1, h2.1⟩
    refine ⟨by rw [a1, hid]; exact hk,
      by rw [a1, hid]; exact chainValid_child e g he.lower s.pointer bi hpre hch hblk,
      by rw [a1]; exact a2, by rw [a1]; exact a3, ?_, ?_, ?_⟩
    · rw [a4]; exact List.Nodup.sublist List.filter_sublist h.nodup
    · intro j hj hm
      rw [a1, hid, hct] at hm
      rcases List.mem_append.mp hm with h1 | h1
      · exact h.disjoint j (hmem j hj).1 h1
      · exact (hmem j hj).2 h1
    · exact fun j hj => h.static j (hmem j hj).1
  · rw [XV.C05.play_fail_noop e s lh _ hok]; exact h

private theorem inv_playMiner (e : Env) (g s : St) (lh : Int) (bi : Nat) (he : EnvOK e g) (h : Inv e g s)
    (hop : OpOK e g s (.playMiner lh bi)) : Inv e g (playForMiner e s lh (e.block bi)).1 := by
  by_cases hok : (playForMiner e s lh (e.block bi)).2 = .ok
  · have hpre := (playForMiner_ok_raw e s lh _ hok).1
    obtain ⟨hk, hb, hct, _, hfv⟩ := inv_block_facts e g s bi he h hpre
    have hch := h.chain
    obtain ⟨o1, o2, o3, o4⟩ := hop hok
    have hblk : BlockValid e (canon e g s.pointer) (e.block bi) :=
      blockValid_of_fwd e g he s.pointer bi hpre hch ⟨lh, fwd_of_res _ _ _ _ _ o4⟩
    obtain ⟨a1, a2, a3, a4⟩ := playForMiner_refines e s lh (e.block bi) g he.lower hb hok hblk h.pool h.nodup
      h.refines h.freshU hfv (canon_frozenInv e g _ hch he.frozen) (fun i hi => (h.static i hi).1) o1 o2 o3
    have hid := he.blockId bi hk
    have hmem : ∀ j ∈ (playForMiner e s lh (e.block bi)).1.pool, j ∈ s.pool ∧ j ∉ (e.block bi).txs := by
      intro j hj
      rw [a4] at hj
      obtain ⟨h1, h2⟩ := List.mem_filter.mp hj
      simp only [Bool.not_eq_true', List.contains_eq_mem, decide_eq_false_iff_not] at h2
      exact ⟨h1, h2⟩
    refine ⟨by rw [a1, hid]; exact hk,
      by rw [a1, hid]; exact chainValid_child e g he.lower s.pointer bi hpre hch hblk,
      by rw [a1]; exact a2, by rw [a1]; exact a3, ?_, ?_, ?_⟩
    · rw [a4]; exact List.Nodup.sublist List.filter_sublist h.nodup
    · intro j hj hm
      rw [a1, hid, hct] at hm
      rcases List.mem_append.mp hm with h1 | h1
      · exact h.disjoint j (hmem j hj).1 h1
      · exact (hmem j hj).2 h1
    · exact fun j hj => h.static j (hmem j hj).1
  · rw [XV.C05.playForMiner_fail_noop e s lh _ hok]; exact h

private theorem doTx_pool_cases (e : Env) (s : St) (lh : Int) (i : Nat) :
    (doTx e s lh i).1.pool = s.pool ∨ ((doTx e s lh i).2 = .ok ∧ (doTx e s lh i).1.pool = s.pool ++ [i]) := by
  by_cases hok : (doTx e s lh i).2 = .ok
  · right
    obtain ⟨_, _, hs'⟩ := XV.C03.doTx_ok e s lh i hok
    exact ⟨hok, by rw [hs']⟩
  · left; rw [XV.C05.doTx_fail_noop e s lh i hok]

private theorem foldl_doTx_pool_sub (e : Env) (lh : Int) (l : List Nat) (st : St) :
    ∀ j ∈ (l.foldl (fun st i => (doTx e st lh i).1) st).pool, j ∈ st.pool ∨ j ∈ l := by
  induction l generalizing st with
  | nil => intro j hj; exact Or.inl hj
  | cons i rest ih =>
    intro j hj
    simp only [List.foldl_cons] at hj
    rcases ih _ j hj with h | h
    · rcases doTx_pool_cases e st lh i with h5 | ⟨_, h5⟩
      · rw [h5] at h; exact Or.inl h
      · rw [h5] at h
        rcases List.mem_append.mp h with h6 | h6
        · exact Or.inl h6
        · simp only [List.mem_cons, List.not_mem_nil, or_false] at h6
          exact Or.inr (by rw [h6]; exact List.mem_cons_self)
    · exact Or.inr (List.mem_cons_of_mem _ h)

private theorem foldl_doTx_pool_mono (e : Env) (lh : Int) (l : List Nat) (st : St) :
    ∀ j ∈ st.pool, j ∈ (l.foldl (fun st i => (doTx e st lh i).1) st).pool := by
  induction l generalizing st with
  | nil => intro j hj; exact hj
  | cons i rest ih =>
    intro j hj
    simp only [List.foldl_cons]
    apply ih
    rcases doTx_pool_cases e st lh i with h5 | ⟨_, h5⟩
    · rw [h5]; exact hj
    · rw [h5]; exact List.mem_append_left _ hj

/-- the re-admission loop of `walk` (`recoverUnconfirmedTx`) keeps "the state refines canon(dest) + pool", `PoolValid` and
"no pending transaction is confirmed on the chain of `dest`" -/
private theorem readmit_inv2 (e : Env) (g : St) (lh : Int) (dest : Nat) (he : EnvOK e g)
    (hdest : dest ∈ e.blocks.map (·.1)) (hchd : ChainValid e (ancestors e (e.blocks.length + 1) dest).reverse g) :
    ∀ (l : List Nat) (st : St), TRefines st (applyPool e st.pool (canon e g dest)) →
      PoolValid e st.pool (canon e g dest) → st.pool.Nodup →
      (∀ j ∈ st.pool, j ∉ chainTxs e dest ∧ IdFresh g j) →
      (∀ i ∈ l, TxWF e i ∧ StaticFrozen e i ∧ IdFresh g i) →
      (∀ i ∈ l, (e.tx i).ins ≠ [] ∨ i ∉ chainTxs e dest ∨
        i ∉ (l.foldl (fun st i => (doTx e st lh i).1) st).pool) →
      TRefines (l.foldl (fun st i => (doTx e st lh i).1) st)
        (applyPool e (l.foldl (fun st i => (doTx e st lh i).1) st).pool (canon e g dest)) ∧
      PoolValid e (l.foldl (fun st i => (doTx e st lh i).1) st).pool (canon e g dest) ∧
      (l.foldl (fun st i => (doTx e st lh i).1) st).pool.Nodup ∧
      (∀ j ∈ (l.foldl (fun st i => (doTx e st lh i).1) st).pool, j ∉ chainTxs e dest ∧ IdFresh g j) := by
  intro l
  induction l with
  | nil => intro st h1 h2 h3 h4 _ _; exact ⟨h1, h2, h3, h4⟩
  | cons i rest ih =>
    intro st h1 h2 h3 hgd hst hcand
    simp only [List.foldl_cons] at hcand ⊢
    have hwfP := ((poolValid_iff e _ _).mp h2).wf
    have hgood : (doTx e st lh i).2 = .ok → i ∉ chainTxs e dest := by
      intro hok
      rcases hcand i List.mem_cons_self with hins | hn | hn
      · exact not_confirmed_of_ok e g dest he hdest hchd st lh i h1
          (fun j hj => ⟨(hgd j hj).1, (hgd j hj).2, (hwfP j hj).id⟩) hok hins
      · exact hn
      · exfalso
        obtain ⟨_, _, hs'⟩ := XV.C03.doTx_ok e st lh i hok
        have hi1 : i ∈ (doTx e st lh i).1.pool := by rw [hs']; simp
        exact hn (foldl_doTx_pool_mono e lh rest _ i hi1)
    obtain ⟨a1, a2, a3, _, _⟩ := doTx_refines e st lh i (canon e g dest) h1 h2 h3
      (canon_frozenInv e g dest hchd he.frozen) (fun hok =>
        ⟨(hst i List.mem_cons_self).1, (hst i List.mem_cons_self).2.1,
          (canon_fresh e g dest i hchd (hst i List.mem_cons_self).2.2 (hgood hok)).1⟩)
    apply ih _ a1 a2 a3 _ (fun j hj => hst j (List.mem_cons_of_mem _ hj))
      (fun j hj => hcand j (List.mem_cons_of_mem _ hj))
    intro j hj
    rcases doTx_pool_cases e st lh i with h5 | ⟨hok, h5⟩
    · rw [h5] at hj; exact hgd j hj
    · rw [h5] at hj
      rcases List.mem_append.mp hj with h6 | h6
      · exact hgd j h6
      · simp only [List.mem_cons, List.not_mem_nil, or_false] at h6
        rw [h6]
        exact ⟨hgood hok, (hst i List.mem_cons_self).2.2⟩

-- ------------------------------------------------------------------ a walk that fails

/-- the node is exactly at block `p`: empty pool, tables of the canonical state; the chain of `p` can be replayed -/
private def At (e : Env) (g x : St) (p : Nat) : Prop :=
  x.pointer = p ∧ p ∈ e.blocks.map (·.1) ∧ TRefines x (canon e g p) ∧ x.pool = [] ∧
  ChainValid e (ancestors e (e.blocks.length + 1) p).reverse g

private theorem At.inv {e : Env} {g x : St} {p : Nat} (h : At e g x p) : Inv e g x := by
  obtain ⟨h1, h2, h3, h4, h5⟩ := h
  refine ⟨by rw [h1]; exact h2, by rw [h1]; exact h5, by rw [h4, h1]; exact h3, by rw [h4]; trivial,
    by rw [h4]; exact List.nodup_nil, ?_, ?_⟩
  · intro i hi; rw [h4] at hi; cases hi
  · intro i hi; rw [h4] at hi; cases hi

private theorem at_undoBlock (e : Env) (g x : St) (p q : Nat) (prune : Bool) (he : EnvOK e g) (h : At e g x p)
    (hpre : (e.block p).pre = some q) : At e g (undoBlock e x (e.block p) prune) q := by
  obtain ⟨h1, h2, h3, h4, h5⟩ := h
  have hq : q ∈ e.blocks.map (·.1) := by
    rcases he.parentKnown p h2 with hn | ⟨q', hq', hs⟩
    · rw [hn] at hpre; cases hpre
    · rw [hs] at hpre; injection hpre with hpre; rw [← hpre]; exact hq'
  have hblk := blockValid_of_chain e g he.lower p q hpre h5
  have hchq : ChainValid e (ancestors e (e.blocks.length + 1) q).reverse g := by
    rw [ancestors_child e he.lower p q hpre, List.reverse_cons] at h5
    exact (chainValid_snoc e _ p g h5).1
  have hKV := replayChain_KVInv e _ g hchq he.kv
  rw [canon_child e g he.lower p q hpre] at h3
  refine ⟨by rw [undoBlock_eq]; simp [hpre], hq, undoBlock_replayBlock e _ (e.block p) prune hblk hKV x h3, ?_, hchq⟩
  rw [undoBlock_eq]
  exact (undoTxs_frame e _ x).2.2.trans h4

private theorem at_todoBlock (e : Env) (g x x' : St) (lh : Int) (p bi : Nat) (he : EnvOK e g) (h : At e g x p)
    (hpre : (e.block bi).pre = some p) (hx : todoBlock e x lh (e.block bi) = some x') : At e g x' bi := by
  obtain ⟨_, _, h3, h4, h5⟩ := h
  have hk := block_known_of_pre e bi (by rw [hpre]; simp)
  obtain ⟨hx', s2, hfwd⟩ := todoBlock_eq e x x' lh _ hx
  -- the block was applied transaction by transaction on a state that shows the canonical tables: it is replayable
  obtain ⟨r2, hr2⟩ := applyBlockTxs_trefines e lh _ _ x _ h3 s2 hfwd
  have hblk := blockValid_of_fwd e g he p bi hpre h5 ⟨lh, r2, hr2⟩
  rw [hx']
  refine ⟨he.blockId bi hk, hk, ?_, ?_, chainValid_child e g he.lower p bi hpre h5 hblk⟩
  · rw [canon_child e g he.lower bi p hpre]
    exact replayBlock_trefines e _ x _ h3
  · exact (replayTxs_frame e _ _ x).2.2.trans h4

private theorem undoAll_at (e : Env) (g : St) (prune : Bool) (he : EnvOK e g) :
    ∀ (undo : List Nat) (x : St) (p : Nat) (tail : List Nat), At e g x p →
      ancestors e (e.blocks.length + 1) p = undo ++ tail → tail ≠ [] →
      ∃ p', At e g (walk.undoAll e prune undo x).1 p' ∧
        ((walk.undoAll e prune undo x).2 = true → ancestors e (e.blocks.length + 1) p' = tail) := by
  intro undo
  induction undo with
  | nil => intro x p tail h hanc _; exact ⟨p, h, fun _ => hanc⟩
  | cons u rest ih =>
    intro x p tail h hanc htail
    obtain ⟨r0, hr0⟩ := ancestors_head e e.blocks.length p
    have hup : u = p := by
      rw [hr0] at hanc
      simp only [List.cons_append, List.cons.injEq] at hanc
      exact hanc.1.symm
    subst hup
    have hne : rest ++ tail ≠ [] := by
      intro hnil
      exact htail (List.append_eq_nil_iff.mp hnil).2
    obtain ⟨q, r', hq⟩ : ∃ q r', rest ++ tail = q :: r' := by
      cases hrt : rest ++ tail with
      | nil => exact absurd hrt hne
      | cons q r' => exact ⟨q, r', rfl⟩
    have hanc' : ancestors e (e.blocks.length + 1) u = [u] ++ q :: r' := by
      rw [hanc]; simp only [List.cons_append, List.nil_append, List.cons.injEq, true_and]; exact hq
    have hpre : (e.block u).pre = some q := by
      have hl := ancestors_linked e (e.blocks.length + 1) u
      rw [hanc'] at hl
      exact hl.1
    have hancq : ancestors e (e.blocks.length + 1) q = rest ++ tail := by
      rw [hq]; exact (ancestors_tail_eq e he.lower u q [u] r' hanc').symm
    have hdef : walk.undoAll e prune (u :: rest) x =
        if (!prune && decide (((e.block u).height : Int) ≤ x.irrev)) = true then (x, false)
        else walk.undoAll e prune rest (undoBlock e x (e.block u) prune) := by
      rw [walk.undoAll]
    rw [hdef]
    by_cases hc : (!prune && decide (((e.block u).height : Int) ≤ x.irrev)) = true
    · rw [if_pos hc]
      exact ⟨u, h, fun hf => by cases hf⟩
    · rw [if_neg hc]
      exact ih _ q tail (at_undoBlock e g x u q prune he h hpre) hancq htail

/-- the blocks of the list are chained by their parent links, starting from `p` -/
private def FwdLinked (e : Env) : Nat → List Nat → Prop
  | _, [] => True
  | p, bi :: rest => (e.block bi).pre = some p ∧ FwdLinked e bi rest

private theorem fwdLinked_of_linked (e : Env) (todo : List Nat) : ∀ (c : Nat) (r2 : List Nat),
    Linked e (todo.reverse ++ c :: r2) → FwdLinked e c todo := by
  induction todo with
  | nil => intro _ _ _; trivial
  | cons t rest ih =>
    intro c r2 hl
    rw [List.reverse_cons, List.append_assoc] at hl
    simp only [List.cons_append, List.nil_append] at hl
    exact ⟨linked_last_pre e rest.reverse t c r2 hl, ih t (c :: r2) hl⟩

private theorem todoAll_at (e : Env) (g : St) (lh : Int) (he : EnvOK e g) :
    ∀ (todo : List Nat) (x : St) (p : Nat), At e g x p → FwdLinked e p todo →
      ∃ p', At e g (walk.todoAll e lh todo x).1 p' := by
  intro todo
  induction todo with
  | nil => intro x p h _; exact ⟨p, h⟩
  | cons bi rest ih =>
    intro x p h hf
    unfold walk.todoAll
    cases hx : todoBlock e x lh (e.block bi) with
    | none => exact ⟨p, h⟩
    | some x' => exact ih x' bi (at_todoBlock e g x x' lh p bi he h hf.1 hx) hf.2

/-- **where the block part of a walk leaves the node, in EVERY outcome**: exactly at some registered block — the destination
if it succeeds, an ancestor of the old tip if an undo was refused at the irreversible height, a block of the destination
branch if a block was refused — with an empty pool, the tables of the canonical state of that block, and a chain that can
be replayed: the blocks it undid were valid (invariant), the blocks it applied were admitted transaction by transaction
on a state showing the canonical tables (`at_todoBlock`) -/
private theorem walkCore_at (e : Env) (g s : St) (lh : Int) (dest : Nat) (prune : Bool) (he : EnvOK e g)
    (h : Inv e g s) (hdest : dest ∈ e.blocks.map (·.1)) :
    ∃ p', At e g (XV.Crash.walkCore e s lh dest prune).1 p' := by
  have hchain := h.chain
  have hR := replayChain_KVInv e _ g hchain he.kv
  have hroll := rollback_applyPool e s.pool _ h.pool hR s h.refines
  -- the two ancestor lists meet
  obtain ⟨_, _, hsplit⟩ := undoTodo_split e s.pointer dest he.lower
  have hcommon : ∃ lca r1 r2,
      ancestors e (e.blocks.length + 1) s.pointer = (undoTodo e s.pointer dest).1 ++ lca :: r1 ∧
      ancestors e (e.blocks.length + 1) dest = (undoTodo e s.pointer dest).2.reverse ++ lca :: r2 := by
    rcases hsplit with ⟨_, _, hdisj⟩ | ⟨lca, r1, r2, h1, h2, _⟩
    · exfalso
      have hone := he.oneRoot s.pointer h.known dest hdest
      obtain ⟨rc, hrc⟩ := ancestors_head e e.blocks.length s.pointer
      cases hl : (ancestors e (e.blocks.length + 1) s.pointer).getLast? with
      | none => rw [hrc] at hl; simp at hl
      | some x =>
        have h1 : x ∈ ancestors e (e.blocks.length + 1) s.pointer := List.mem_of_getLast? hl
        rw [hone] at hl
        exact hdisj x h1 (List.mem_of_getLast? hl)
    · exact ⟨lca, r1, r2, h1, h2⟩
  obtain ⟨lca, r1, r2, hca, hda⟩ := hcommon
  unfold XV.Crash.walkCore XV.Crash.rolledBack
  simp only
  have h0 : At e g ({ (s.pool.reverse.foldl (fun st i => undoTx e st (e.tx i)) s) with pool := [] } : St) s.pointer :=
    ⟨foldl_undoTx_pointer e s.pool.reverse s, h.known,
      hroll.of_tables ⟨rfl, rfl, rfl, rfl⟩ ⟨rfl, rfl, rfl, rfl⟩, rfl, hchain⟩
  generalize hs0 : ({ (s.pool.reverse.foldl (fun st i => undoTx e st (e.tx i)) s) with pool := [] } : St) = s0
    at h0 ⊢
  obtain ⟨p1, hu1, hu2⟩ := undoAll_at e g prune he (undoTodo e s.pointer dest).1 s0 s.pointer (lca :: r1) h0 hca
    (by simp)
  generalize hua : walk.undoAll e prune (undoTodo e s.pointer dest).1 s0 = ua at hu1 hu2 ⊢
  obtain ⟨s1, ok1⟩ := ua
  simp only at hu1 hu2
  by_cases hok1 : ok1 = true
  · simp only [hok1, Bool.not_true, Bool.false_eq_true, ↓reduceIte]
    have hp1 : p1 = lca := by
      have := hu2 hok1
      obtain ⟨r, hr⟩ := ancestors_head e e.blocks.length p1
      rw [hr] at this
      simp only [List.cons.injEq] at this
      exact this.1
    rw [hp1] at hu1
    have hfl : FwdLinked e lca (undoTodo e s.pointer dest).2 := by
      apply fwdLinked_of_linked e _ lca r2
      rw [← hda]
      exact ancestors_linked e _ dest
    exact todoAll_at e g lh he (undoTodo e s.pointer dest).2 s1 lca hu1 hfl
  · simp only [hok1, Bool.not_false, ↓reduceIte]
    exact ⟨p1, hu1⟩

/-- **a walk that FAILS keeps the invariant**: the node is left at the block it reached (an ancestor of the old tip if an
undo was refused at the irreversible height, a block of the destination branch if a block was refused), with an empty
pool and the tables of the canonical state of that block -/
private theorem inv_walk_fail (e : Env) (g s : St) (lh : Int) (dest : Nat) (prune : Bool) (he : EnvOK e g)
    (h : Inv e g s) (hdest : dest ∈ e.blocks.map (·.1)) :
    Inv e g (XV.Crash.walkCore e s lh dest prune).1 := by
  obtain ⟨p', hat⟩ := walkCore_at e g s lh dest prune he h hdest
  exact hat.inv

/-- the re-admission of ANY list `L` taken from the old pool, on the block part of a successful walk, re-establishes the
invariant at the destination -/
private theorem inv_walkL (e : Env) (g s : St) (lh : Int) (dest : Nat) (prune : Bool) (he : EnvOK e g) (h : Inv e g s)
    (L : List Nat) (hL : ∀ i ∈ L, i ∈ s.pool)
    (hok : (XV.Crash.walkCore e s lh dest prune).2 = true) (hdest : dest ∈ e.blocks.map (·.1))
    (hcand : ∀ i ∈ L, (e.tx i).ins ≠ [] ∨ i ∉ chainTxs e dest ∨
      i ∉ (L.foldl (fun st i => (doTx e st lh i).1) (XV.Crash.walkCore e s lh dest prune).1).pool) :
    Inv e g (L.foldl (fun st i => (doTx e st lh i).1) (XV.Crash.walkCore e s lh dest prune).1) := by
  have hpt0 := walkCore_reaches e s lh dest prune he.lower (he.blockId dest hdest) hok
  obtain ⟨p', hat⟩ := walkCore_at e g s lh dest prune he h hdest
  generalize XV.Crash.walkCore e s lh dest prune = core at hpt0 hat hcand ⊢
  obtain ⟨s2, okc⟩ := core
  simp only at hpt0 hat hcand ⊢
  obtain ⟨a1, _, t1, t2, hchd⟩ := hat
  have hp' : p' = dest := by rw [← a1]; exact hpt0
  rw [hp'] at t1 hchd
  have hpt : (L.foldl (fun st i => (doTx e st lh i).1) s2).pointer = dest := by
    rw [foldl_doTx_pointer]; exact hpt0
  have hwfP := ((poolValid_iff e _ _).mp h.pool).wf
  have hsub := foldl_doTx_pool_sub e lh L s2
  rw [t2] at hsub
  have hmem : ∀ j ∈ (L.foldl (fun st i => (doTx e st lh i).1) s2).pool, j ∈ s.pool := by
    intro j hj
    rcases hsub j hj with h5 | h5
    · cases h5
    · exact hL j h5
  obtain ⟨r1, r2, r3, r4⟩ := readmit_inv2 e g lh dest he hdest hchd L s2
    (by rw [t2]; exact t1) (by rw [t2]; trivial) (by rw [t2]; exact List.nodup_nil)
    (fun j hj => by rw [t2] at hj; cases hj)
    (fun i hi => ⟨(txWF_iff e i).mpr (hwfP i (hL i hi)), (h.static i (hL i hi)).1, (h.static i (hL i hi)).2⟩)
    hcand
  refine ⟨by rw [hpt]; exact hdest, by rw [hpt]; exact hchd, by rw [hpt]; exact r1, by rw [hpt]; exact r2, r3, ?_, ?_⟩
  · rw [hpt]; exact fun j hj => (r4 j hj).1
  · exact fun j hj => h.static j (hmem j hj)

private theorem inv_walk (e : Env) (g s : St) (lh : Int) (dest : Nat) (prune : Bool) (he : EnvOK e g) (h : Inv e g s)
    (hop : (walk e s lh dest prune).2 = true ∧ dest ∈ e.blocks.map (·.1) ∧
      ∀ i ∈ repostList e s, (e.tx i).ins ≠ [] ∨ i ∉ chainTxs e dest ∨ i ∉ (walk e s lh dest prune).1.pool) :
    Inv e g (walk e s lh dest prune).1 := by
  obtain ⟨hok, hdest, hcand⟩ := hop
  have hokc : (XV.Crash.walkCore e s lh dest prune).2 = true := by rw [← XV.Crash.walk_ok_iff_core]; exact hok
  rw [XV.Crash.walk_eq_core, if_pos hokc] at hcand ⊢
  exact inv_walkL e g s lh dest prune he h (repostList e s) (repostList_subset e s) hokc hdest hcand

/-- one operation keeps the invariant -/
theorem step_invariant (e : Env) (g s : St) (op : HOp) (he : EnvOK e g) (h : Inv e g s) (hop : OpOK e g s op) :
    Inv e g (hstep e s op) := by
  cases op with
  | submit lh i => exact inv_submit e g s lh i he h hop
  | play lh bi => exact inv_play e g s lh bi he h
  | playMiner lh bi => exact inv_playMiner e g s lh bi he h hop
  | walk lh dest prune skip =>
    obtain ⟨hdest, hskip⟩ := hop
    show Inv e g (walk (e.withSkip skip) s lh dest prune).1
    rw [XV.Crash.walk_withSkip]
    by_cases hok : (XV.Crash.walkCore e s lh dest prune).2 = true
    · rw [if_pos hok]
      apply inv_walkL e g s lh dest prune he h _ (fun i hi => (List.mem_filter.mp hi).1) hok hdest
      intro i hi
      obtain ⟨hp, hn⟩ := List.mem_filter.mp hi
      refine Or.inr (Or.inl (fun hc => ?_))
      have : i ∈ skip := hskip i hp hc
      simp [this] at hn
    · rw [if_neg hok]
      exact inv_walk_fail e g s lh dest prune he h hdest

/-- **the closing induction: after ANY history the node is on "canonical state of its tip + pool".** Environment as in
`EnvOK` (static conditions only); start state with the invariant (`genesis_inv`: the canonical state of a registered block
whose chain replays from `g`, with an empty pool — in particular the genesis state); a history of submissions, peers'
blocks, own blocks and walks across forks (each walk with the skip list the ledger supplies for it), in any order and of
any length, each operation as in `OpOK`. Then the final state points at a registered block `B`, the chain genesis..`B` CAN
be replayed on a fresh node (`Inv.chain`), and the node's observable tables — every UTXO row, the version of every key,
the total supply — are those of that replay followed by the pending pool applied in admission order (`TRefines`: plus the
live key table row by row and no recycle row that the replay does not have); and the pool is again valid there.
After the two repairs nothing is ASSUMED about the replayability of the blocks the node receives: a block accepted by
`play` is replayable (`accepted_block_replayable`), a block applied by a walk was admitted transaction by transaction;
and nothing dynamic is assumed about the transactions a walk re-admits (the skip list, `SkipsConfirmed`). What is still
asked, per operation: a submitted transaction without token input is not confirmed on the node's chain already; the
node's OWN block is applied in order by a replica at the canonical state of the tip. -/
theorem chain_refines (e : Env) (g s0 : St) (ops : List HOp) (he : EnvOK e g) (h0 : Inv e g s0)
    (hh : HistOK e g s0 ops) : Inv e g (hrun e s0 ops) := by
  induction ops generalizing s0 with
  | nil => exact h0
  | cons op rest ih =>
    obtain ⟨h1, h2⟩ := hh
    exact ih (hstep e s0 op) (step_invariant e g s0 op he h0 h1) h2

/-- the canonical state of a registered block whose chain can be replayed from `g` (for the genesis block: the one block
`g` itself has to accept), with an empty pool, satisfies the invariant -/
theorem genesis_inv (e : Env) (g : St) (p : Nat) (hp : p ∈ e.blocks.map (·.1))
    (hch : ChainValid e (ancestors e (e.blocks.length + 1) p).reverse g) :
    Inv e g { canon e g p with pool := [], pointer := p } :=
  ⟨hp, hch, (TRefines.refl _).of_tables ⟨rfl, rfl, rfl, rfl⟩ ⟨rfl, rfl, rfl, rfl⟩, trivial, List.nodup_nil,
    (fun _ hi => by cases hi), (fun _ hi => by cases hi)⟩

/-- the observable reading of the invariant: same UTXO rows, same version of every key, same total as the replay of
the chain of the tip followed by the pool -/
theorem chain_observables (e : Env) (g s0 : St) (ops : List HOp) (he : EnvOK e g) (h0 : Inv e g s0)
    (hh : HistOK e g s0 ops) :
    (hrun e s0 ops).pointer ∈ e.blocks.map (·.1) ∧
    ObsT (hrun e s0 ops) (applyPool e (hrun e s0 ops).pool (canon e g (hrun e s0 ops).pointer)) :=
  ⟨(chain_refines e g s0 ops he h0 hh).known, (chain_refines e g s0 ops he h0 hh).refines.obs⟩

-- ------------------------------------------------------------------ checkable forms, for concrete environments

/-- checkable form of `BlockValid`, at ledger height `lh` -/
def BlockCheck (e : Env) (lh : Int) (r : St) (b : Block) : Prop :=
  (applyBlockTxs e lh b.prop [] b.txs r).map (·.2) = some .ok ∧ (∀ i ∈ b.txs, TxWF e i) ∧ b.txs.Nodup ∧
  (∀ i ∈ b.txs, ∀ p ∈ r.U, p.1.1 ≠ i) ∧ FrozenAlong e b.prop b.txs r

instance (e : Env) (lh : Int) (r : St) (b : Block) : Decidable (BlockCheck e lh r b) := by
  unfold BlockCheck; exact inferInstance

/-- checkable form of `ChainValid` -/
def ChainCheck (e : Env) (lh : Int) : List Nat → St → Prop
  | [], _ => True
  | bi :: rest, r => BlockCheck e lh r (e.block bi) ∧ ChainCheck e lh rest (replayBlock e r (e.block bi))

instance decChainCheck (e : Env) (lh : Int) : (l : List Nat) → (r : St) → Decidable (ChainCheck e lh l r)
  | [], _ => isTrue trivial
  | bi :: rest, r =>
    have := decChainCheck e lh rest (replayBlock e r (e.block bi))
    by unfold ChainCheck; exact inferInstance

private theorem chainValid_of_check (e : Env) (lh : Int) (l : List Nat) (r : St) (h : ChainCheck e lh l r) :
    ChainValid e l r := by
  induction l generalizing r with
  | nil => trivial
  | cons bi rest ih =>
    obtain ⟨⟨h1, h2, h3, h4, h5⟩, hr⟩ := h
    exact ⟨⟨⟨lh, fwd_of_res _ _ _ _ _ h1⟩, h2, h3, fun i hi => absent_of_rows _ _ (h4 i hi), h5⟩, ih _ hr⟩

instance (e : Env) (g s : St) (op : HOp) : Decidable (OpOK e g s op) := by
  cases op <;> (unfold OpOK; exact inferInstance)

instance decHistOK (e : Env) (g : St) : (s : St) → (ops : List HOp) → Decidable (HistOK e g s ops)
  | _, [] => isTrue trivial
  | s, op :: rest =>
    have := decHistOK e g (hstep e s op) rest
    by unfold HistOK; exact inferInstance

-- non-vacuity of `chain_refines`: genesis rows (0,0) (0,1) (0,2); blocks 2 and 3 are both children of block 1, block 4
-- a child of block 2. The history: five submissions (one more is refused: already pending), the peer's block 2 with a
-- non-empty pool (two evictions, one pending member confirmed, two survivors), a refused block (3: not a child of the
-- tip), a submission on top of the survivors, a walk across the fork to block 3 (which confirms 21 and 22: the pending 22
-- is in the skip list the ledger supplies for this walk and is not re-submitted), a walk back to block 2, a refused submission (24: its input is spent), the node's own block 4 packing
-- the whole pool, a walk to block 3 that FAILS (at ledger height -1 the inputs of block 3 count as frozen: the node is
-- left at block 1, the common ancestor) and a walk back to block 4.
private def hsEnv : Env := {
  txs := prEnv.txs ++ [
    (27, ⟨27, false, [⟨23, 0, "u3", 4, 0, false⟩], [⟨"u7", 3, 0⟩, ⟨"$", 1, 0⟩], [], []⟩),
    (30, ⟨30, true, [], [⟨"m3", 10, 0⟩], [], []⟩),
    (40, ⟨40, true, [], [⟨"m4", 10, 0⟩], [], []⟩)],
  blocks := prEnv.blocks ++ [(3, ⟨3, some 1, 2, [30, 21, 22], "m3"⟩), (4, ⟨4, some 2, 3, [40, 23, 27], "m4"⟩)] }
private def hsS0 : St := { canon hsEnv prG 1 with pool := [], pointer := 1 }
private def hsOps : List HOp := [
  .submit 0 21, .submit 0 22, .submit 0 21, .submit 0 23, .submit 0 24, .submit 0 26,
  .play 0 2, .play 0 3, .submit 0 27, .walk 0 3 false [22], .walk 0 2, .submit 0 24, .playMiner 0 4,
  .walk (-1) 3, .walk 0 4]

private theorem hsEnvOK : EnvOK hsEnv prG :=
  ⟨parentLower_of_blocks _ (by decide), by decide, by decide, by decide, by decide, by decide, by decide,
    KVInv_empty _ _ rfl rfl, frozenInv_of_rows _ _ (by decide)⟩

-- the start state: the canonical state of block 1, whose chain (block 1 alone) replays from `prG`
private theorem hsInv0 : Inv hsEnv prG hsS0 :=
  genesis_inv hsEnv prG 1 (by decide) (chainValid_of_check _ 0 _ _ (by decide))

example : EnvOK hsEnv prG := hsEnvOK
example : Inv hsEnv prG hsS0 := hsInv0
example : HistOK hsEnv prG hsS0 hsOps := by decide
-- every submitted / pending transaction of this history has a token input: nothing dynamic is assumed of it
example : ∀ i ∈ [21, 22, 23, 24, 26, 27], (hsEnv.tx i).ins ≠ [] := by decide
-- the theorems applied
example : Inv hsEnv prG (hrun hsEnv hsS0 hsOps) :=
  chain_refines hsEnv prG hsS0 hsOps hsEnvOK hsInv0 (by decide)
example : ObsT (hrun hsEnv hsS0 hsOps)
    (applyPool hsEnv (hrun hsEnv hsS0 hsOps).pool (canon hsEnv prG (hrun hsEnv hsS0 hsOps).pointer)) :=
  (chain_observables hsEnv prG hsS0 hsOps hsEnvOK hsInv0 (by decide)).2
example : Inv hsEnv prG (hstep hsEnv hsS0 (.submit 0 21)) :=
  step_invariant hsEnv prG hsS0 _ hsEnvOK hsInv0 (by decide)
-- the conclusion, computed: the node is at block 4 with an empty pool and shows the tables of the chain 1 2 4
example :
    let s := hrun hsEnv hsS0 hsOps
    let c := canon hsEnv prG 4
    s.pointer = 4 ∧ s.pool = [] ∧ s.total = c.total ∧ (∀ k ∈ ["k", "j"], lookup s.ZU k = lookup c.ZU k) ∧
    (∀ k ∈ s.U.map (·.1) ++ c.U.map (·.1), lookup s.U k = lookup c.U k) ∧
    (hrun hsEnv hsS0 (hsOps.take 7)).pool = [22, 23] ∧ (hrun hsEnv hsS0 (hsOps.take 10)).pool = [23, 27] ∧
    (hrun hsEnv hsS0 (hsOps.take 10)).pointer = 3 ∧
    (walk hsEnv (hrun hsEnv hsS0 (hsOps.take 13)) (-1) 3 false).2 = false ∧
    (hrun hsEnv hsS0 (hsOps.take 14)).pointer = 1 := by decide

-- `chain_refines` on the scenario of defect (1) — a pending transaction WITHOUT token input that the branch walked to
-- confirms. Block 1 = [10 (genesis coinbase)]; on it block 2 = [20 (award)] and block 3 = [30 (award), 50]; transaction 50
-- only READS the never-written key "k". History: block 2 played, 50 submitted (pool [50]), walk to block 3 with the skip
-- list [50] the ledger supplies: 50 is not re-submitted, the pool ends empty, the invariant holds. With the empty list (the
-- code as found) the same walk re-admits 50: it is pending AND confirmed, `OpOK` fails and so does the invariant.
private def rdEnv : Env := {
  txs := [
    (10, ⟨10, true, [], [⟨"g", 1, 0⟩], [], []⟩),
    (20, ⟨20, true, [], [⟨"m2", 10, 0⟩], [], []⟩),
    (30, ⟨30, true, [], [⟨"m3", 10, 0⟩], [], []⟩),
    (50, ⟨50, false, [], [], [⟨"k", none⟩], []⟩)],
  blocks := [(1, ⟨1, none, 1, [10], "g"⟩), (2, ⟨2, some 1, 2, [20], "m2"⟩), (3, ⟨3, some 1, 2, [30, 50], "m3"⟩)] }
private def rdS0 : St := { canon rdEnv {} 1 with pool := [], pointer := 1 }
private def rdOps (skip : List Nat) : List HOp := [.play 0 2, .submit 0 50, .walk 0 3 false skip]

private theorem rdEnvOK : EnvOK rdEnv {} :=
  ⟨parentLower_of_blocks _ (by decide), by decide, by decide, by decide, by decide, by decide, by decide,
    KVInv_empty _ _ rfl rfl, frozenInv_of_rows _ _ (by decide)⟩

example : HistOK rdEnv {} rdS0 (rdOps [50]) ∧ (hrun rdEnv rdS0 ((rdOps [50]).take 2)).pool = [50] ∧
    (rdEnv.tx 50).ins = [] ∧ 50 ∈ chainTxs rdEnv 3 ∧
    (hrun rdEnv rdS0 (rdOps [50])).pointer = 3 ∧ (hrun rdEnv rdS0 (rdOps [50])).pool = [] := by decide
example : Inv rdEnv {} (hrun rdEnv rdS0 (rdOps [50])) :=
  chain_refines rdEnv {} rdS0 (rdOps [50]) rdEnvOK
    (genesis_inv rdEnv {} 1 (by decide) (chainValid_of_check _ 0 _ _ (by decide))) (by decide)
-- nothing skipped: the hypothesis on the walk fails, and the conclusion with it
example : ¬ HistOK rdEnv {} rdS0 (rdOps []) ∧ (hrun rdEnv rdS0 (rdOps [])).pointer = 3 ∧
    (hrun rdEnv rdS0 (rdOps [])).pool = [50] := by decide
example : ¬ Inv rdEnv {} (hrun rdEnv rdS0 (rdOps [])) :=
  fun h => h.disjoint 50 (by decide) (by decide)

-- ================================================================== walking away and back

/-- after a successful walk the pool is a part of the old pool (the re-admitted transactions) -/
private theorem walk_pool_sub (e : Env) (s : St) (lh : Int) (dest : Nat) (prune : Bool)
    (hok : (walk e s lh dest prune).2 = true) : ∀ j ∈ (walk e s lh dest prune).1.pool, j ∈ s.pool := by
  unfold walk at hok ⊢
  simp only at hok ⊢
  have hp0 : ({ (s.pool.reverse.foldl (fun st i => undoTx e st (e.tx i)) s) with pool := [] } : St).pool = [] := rfl
  generalize hs0 : ({ (s.pool.reverse.foldl (fun st i => undoTx e st (e.tx i)) s) with pool := [] } : St) = s0
    at hp0 hok ⊢
  have hup := undoAll_pool e prune (undoTodo e s.pointer dest).1 s0
  generalize hua : walk.undoAll e prune (undoTodo e s.pointer dest).1 s0 = ua at hup hok ⊢
  obtain ⟨s1, ok1⟩ := ua
  simp only at hup
  by_cases hok1 : ok1 = true
  · simp only [hok1, Bool.not_true, Bool.false_eq_true, ↓reduceIte] at hok ⊢
    have ht := todoAll_eq e lh (undoTodo e s.pointer dest).2 s1
    generalize hta : walk.todoAll e lh (undoTodo e s.pointer dest).2 s1 = ta at ht hok ⊢
    obtain ⟨s2, ok2⟩ := ta
    simp only at ht
    by_cases hok2 : ok2 = true
    · simp only [hok2, Bool.not_true, Bool.false_eq_true, ↓reduceIte] at hok ⊢
      intro j hj
      have hs2 : s2.pool = [] := by rw [ht hok2, replayChain_pool, hup, hp0]
      rcases foldl_doTx_pool_sub e lh (repostList e s) s2 j hj with h | h
      · rw [hs2] at h; cases h
      · exact repostList_subset e s j h
    · simp [hok2] at hok
  · simp [hok1] at hok

/-- **undoing cancels applying, at the level of histories**: a node that satisfies the invariant with an empty pool,
walks (successfully) to any registered block `dest` — across a fork, undoing and applying any number of blocks — and walks
back, shows exactly the observables it showed before: same pointer, every UTXO row, the version of every key, the total;
the pool is still empty. (With pending transactions the same holds up to the pool: the final state satisfies the
invariant at the old tip with the re-admitted part of the pool — `chain_refines`.) -/
theorem undo_cancels_apply_history (e : Env) (g s : St) (lh lh' : Int) (dest : Nat) (prune prune' : Bool)
    (he : EnvOK e g) (h : Inv e g s) (hp : s.pool = []) (hdest : dest ∈ e.blocks.map (·.1))
    (hok1 : (walk e s lh dest prune).2 = true)
    (hok2 : (walk e (walk e s lh dest prune).1 lh' s.pointer prune').2 = true) :
    (walk e (walk e s lh dest prune).1 lh' s.pointer prune').1.pointer = s.pointer ∧
    (walk e (walk e s lh dest prune).1 lh' s.pointer prune').1.pool = [] ∧
    ObsT (walk e (walk e s lh dest prune).1 lh' s.pointer prune').1 s := by
  have hp1 : (walk e s lh dest prune).1.pool = [] := by
    apply List.eq_nil_iff_forall_not_mem.mpr
    intro j hj
    have := walk_pool_sub e s lh dest prune hok1 j hj
    rw [hp] at this; cases this
  have h1 : Inv e g (walk e s lh dest prune).1 :=
    inv_walk e g s lh dest prune he h
      ⟨hok1, hdest, fun i hi => by rw [repostList_of_pool_nil e s hp] at hi; cases hi⟩
  have hp2 : (walk e (walk e s lh dest prune).1 lh' s.pointer prune').1.pool = [] := by
    apply List.eq_nil_iff_forall_not_mem.mpr
    intro j hj
    have := walk_pool_sub e _ lh' s.pointer prune' hok2 j hj
    rw [hp1] at this; cases this
  have h2 : Inv e g (walk e (walk e s lh dest prune).1 lh' s.pointer prune').1 :=
    inv_walk e g _ lh' s.pointer prune' he h1
      ⟨hok2, h.known, fun i hi => by rw [repostList_of_pool_nil e _ hp1] at hi; cases hi⟩
  have hpt := walk_reaches_any e _ lh' s.pointer prune' he.lower (he.blockId _ h.known) hok2
  refine ⟨hpt, hp2, ?_⟩
  have a := h2.refines
  rw [hp2, hpt] at a
  have b := h.refines
  rw [hp] at b
  exact a.obs.trans b.obs.symm

-- non-vacuity: the node of the history example after its first eight operations' worth of blocks — here simply the
-- canonical state of block 2 — walks across the fork to block 3 and back
example :
    let s : St := { canon hsEnv prG 2 with pool := [], pointer := 2 }
    s.pool = [] ∧ 3 ∈ hsEnv.blocks.map (·.1) ∧ (walk hsEnv s 0 3 false).2 = true ∧
    (walk hsEnv s 0 3 false).1.pointer = 3 ∧ (walk hsEnv s 0 3 false).1.U ≠ s.U ∧
    (walk hsEnv (walk hsEnv s 0 3 false).1 0 s.pointer false).2 = true ∧
    (∀ k ∈ s.U.map (·.1) ++ (walk hsEnv (walk hsEnv s 0 3 false).1 0 2 false).1.U.map (·.1),
      lookup (walk hsEnv (walk hsEnv s 0 3 false).1 0 2 false).1.U k = lookup s.U k) := by decide
example : Inv hsEnv prG { canon hsEnv prG 2 with pool := [], pointer := 2 } :=
  genesis_inv hsEnv prG 2 (by decide) (chainValid_of_check _ 0 _ _ (by decide))

end XV.C01
