import XV.Lemmas.Assoc
import XV.Model.Ledger
import XV.Lemmas.LedgerInvMain
/-!
C04 — ledger main-chain integrity under forks, reorganisations and truncation.
Theorems about the table-level ledger model `XV.Ledger` (which mirrors `ConfirmBlock`, `handleFork`, `Truncate`):
the tip rule (the tip moves only to a strictly higher block, so the earlier-confirmed block wins ties), monotone
trunk height, what an extension / a side attachment / a truncation writes, and that a refused operation writes
nothing. Second part of the file: the full main-chain invariant `LedgerInv` (tree shape, path, flags, height index,
next links, height bound, branch tips, tx mapping, no repeated transaction on a branch) holds at genesis
(`genesis_inv`) and is preserved by every `confirm` — refused, trunk extension, side attachment and trunk switch via
`handleFork` (`confirm_inv`) — and by `truncate` to a main-chain block (`truncate_inv`); consequences
`tip_is_first_highest`, `isTxInTrunk_iff`, `findUndoTodo_correct`. Helper lemmas: `XV/Lemmas/LedgerInv*.lean`.
The invariant is additionally checked on the implementation by the oracle of the `chain` harness after every
operation, and the model is compared with the implementation's raw tables after every operation.
-/
namespace XV.C04
open XV.Chain (lookup put del lookup_put lookup_del)
open XV.Ledger

theorem confirmTxs_frame (l0 : L) (id : Nat) (it : Bool) (sh : Nat) (txs : List (Nat × Bool)) (cb : Nat) (l l' : L)
    (h : confirmTxs l0 id it sh txs cb l = some l') :
    l'.B = l.B ∧ l'.ZH = l.ZH ∧ l'.ZI = l.ZI ∧ l'.tip = l.tip ∧ l'.trunkHeight = l.trunkHeight ∧ l'.root = l.root := by
  induction txs generalizing cb l with
  | nil => simp [confirmTxs] at h; subst h; simp
  | cons p rest ih =>
    obtain ⟨t, c⟩ := p
    unfold confirmTxs at h
    simp only at h
    repeat' split at h
    all_goals first
      | (simp at h; done)
      | (have := ih _ _ h; simpa using this)

theorem saveBlock_meta (l : L) (id : Nat) (h : Hdr) :
    (saveBlock l id h).tip = l.tip ∧ (saveBlock l id h).trunkHeight = l.trunkHeight ∧ (saveBlock l id h).ZI = l.ZI ∧
    (saveBlock l id h).C = l.C ∧ (saveBlock l id h).root = l.root := by
  unfold saveBlock; simp

theorem handleFork_meta (l0 : L) (fuel p q : Nat) (nh : Option Nat) (l l' : L) (sh : Nat)
    (h : handleFork l0 fuel p q nh l = some (l', sh)) :
    l'.tip = l.tip ∧ l'.trunkHeight = l.trunkHeight ∧ l'.ZI = l.ZI ∧ l'.root = l.root := by
  induction fuel generalizing p q nh l with
  | zero => simp [handleFork] at h
  | succ n ih =>
    unfold handleFork at h
    split at h
    · split at h
      · simp at h
      · simp at h
        obtain ⟨h1, _⟩ := h
        subst h1
        obtain ⟨a, b, c, _, d⟩ := saveBlock_meta l q _
        exact ⟨a, b, c, d⟩
    · split at h
      · split at h
        · have := ih _ _ _ _ h
          obtain ⟨a1, a2, a3, a4⟩ := this
          simp only [saveBlock, correctTxs] at a1 a2 a3 a4
          exact ⟨a1, a2, a3, a4⟩
        · simp at h
      · simp at h

/-- **tip rule**: a successful confirmation either leaves tip and trunk height alone, or makes the new block the tip,
and then the new block is strictly higher than the old trunk. Hence among blocks of maximal height the
earlier-confirmed one stays the tip. -/
theorem confirm_tip_rule (l : L) (id pre : Nat) (txs : List (Nat × Bool)) (h : (confirm l id pre txs).2 ≠ .fail) :
    ((confirm l id pre txs).1.tip = l.tip ∧ (confirm l id pre txs).1.trunkHeight = l.trunkHeight) ∨
    ((confirm l id pre txs).1.tip = id ∧ l.trunkHeight < (confirm l id pre txs).1.trunkHeight) := by
  unfold confirm at h ⊢
  by_cases h1 : (lookup l.B id).isSome = true
  · simp [h1] at h
  · simp only [h1] at h ⊢
    cases hp : lookup l.B pre with
    | none => simp [hp] at h
    | some pb =>
      simp only [hp] at h ⊢
      by_cases h2 : pre = l.tip
      · simp only [h2, ↓reduceIte] at h ⊢
        revert h
        cases hc : confirmTxs l id true l.trunkHeight txs 0 _ with
        | none => simp
        | some l4 =>
          intro _
          right
          simp only [Bool.false_eq_true, ↓reduceIte]
          refine ⟨trivial, by omega⟩
      · simp only [h2, ↓reduceIte] at h ⊢
        by_cases h3 : pb.height + 1 > l.trunkHeight
        · simp only [h3, ↓reduceIte] at h ⊢
          revert h
          cases hf : handleFork l (l.trunkHeight + 2) l.tip pre (some id) l with
          | none => simp
          | some r =>
            obtain ⟨l1, sh⟩ := r
            simp only
            cases hc : confirmTxs l id true sh txs 0 _ with
            | none => simp
            | some l4 =>
              intro _
              right
              exact ⟨rfl, by simpa using h3⟩
        · simp only [h3, ↓reduceIte] at h ⊢
          revert h
          cases hc : confirmTxs l id false l.trunkHeight txs 0 _ with
          | none => simp
          | some l4 =>
            intro _
            left
            obtain ⟨_, _, _, f4, f5, _⟩ := confirmTxs_frame _ _ _ _ _ _ _ _ hc
            simp only [Bool.false_eq_true, ↓reduceIte]
            rw [f4, f5]
            simp [saveBlock]

/-- the trunk height never decreases by a confirmation -/
theorem confirm_trunkHeight_mono (l : L) (id pre : Nat) (txs : List (Nat × Bool)) :
    l.trunkHeight ≤ (confirm l id pre txs).1.trunkHeight := by
  by_cases h : (confirm l id pre txs).2 = .fail
  · have : (confirm l id pre txs).1 = l := by
      unfold confirm at h ⊢
      by_cases h1 : (lookup l.B id).isSome = true
      · simp [h1]
      · simp only [h1] at h ⊢
        cases hp : lookup l.B pre with
        | none => simp
        | some pb =>
          simp only [hp] at h ⊢
          by_cases h2 : pre = l.tip
          · simp only [h2, ↓reduceIte] at h ⊢
            revert h
            generalize confirmTxs l id true l.trunkHeight txs 0 _ = res
            rcases res with _ | l4 <;> simp
          · simp only [h2, ↓reduceIte] at h ⊢
            by_cases h3 : pb.height + 1 > l.trunkHeight
            · simp only [h3, ↓reduceIte] at h ⊢
              revert h
              generalize handleFork l (l.trunkHeight + 2) l.tip pre (some id) l = hf
              rcases hf with _ | ⟨l1, sh⟩
              · simp
              · simp only
                generalize confirmTxs l id true sh txs 0 _ = res
                rcases res with _ | l4 <;> simp
            · simp only [h3, ↓reduceIte] at h ⊢
              revert h
              generalize confirmTxs l id false l.trunkHeight txs 0 _ = res
              rcases res with _ | l4 <;> simp
    rw [this]; exact Nat.le_refl _
  · rcases confirm_tip_rule l id pre txs h with ⟨_, h2⟩ | ⟨_, h2⟩ <;> omega

/-- a successful truncation makes the target the tip at the target's height -/
theorem truncate_meta (l : L) (target : Nat) (h : (truncate l target).2 = true) :
    (truncate l target).1.tip = target ∧
    ∃ th, lookup l.B target = some th ∧ (truncate l target).1.trunkHeight = th.height := by
  unfold truncate at h ⊢
  cases ht : lookup l.B target with
  | none => simp [ht] at h
  | some th => simp

/-- a block that is already stored is refused (and, by `confirm_fail_noop`, nothing is written) -/
theorem confirm_duplicate_refused (l : L) (id pre : Nat) (txs : List (Nat × Bool)) (h : (lookup l.B id).isSome = true) :
    (confirm l id pre txs).2 = .fail := by
  unfold confirm; simp [h]

theorem saveBlock_stores (l : L) (id : Nat) (h : Hdr) : (lookup (saveBlock l id h).B id).isSome = true := by
  unfold saveBlock
  simp only
  rw [lookup_put]
  simp

/-- an accepted block is stored -/
theorem confirm_accepted_stored (l : L) (id pre : Nat) (txs : List (Nat × Bool)) (h : (confirm l id pre txs).2 ≠ .fail) :
    (lookup (confirm l id pre txs).1.B id).isSome = true := by
  unfold confirm at h ⊢
  by_cases h1 : (lookup l.B id).isSome = true
  · simp [h1] at h
  · simp only [h1] at h ⊢
    cases hp : lookup l.B pre with
    | none => simp [hp] at h
    | some pb =>
      simp only [hp] at h ⊢
      by_cases h2 : pre = l.tip
      · simp only [h2, ↓reduceIte] at h ⊢
        cases hc : confirmTxs l id true l.trunkHeight txs 0 _ with
        | none => simp [hc] at h
        | some l4 =>
          simp only
          rw [(confirmTxs_frame _ _ _ _ _ _ _ _ hc).1]
          simp only
          apply saveBlock_stores
      · simp only [h2, ↓reduceIte] at h ⊢
        by_cases h3 : pb.height + 1 > l.trunkHeight
        · simp only [h3, ↓reduceIte] at h ⊢
          cases hf : handleFork l (l.trunkHeight + 2) l.tip pre (some id) l with
          | none => simp [hf] at h
          | some r =>
            obtain ⟨l1, sh⟩ := r
            simp only [hf] at h ⊢
            cases hc : confirmTxs l id true sh txs 0 _ with
            | none => simp [hc] at h
            | some l4 =>
              simp only
              rw [(confirmTxs_frame _ _ _ _ _ _ _ _ hc).1]
              simp only
              apply saveBlock_stores
        · simp only [h3, ↓reduceIte] at h ⊢
          cases hc : confirmTxs l id false l.trunkHeight txs 0 _ with
          | none => simp [hc] at h
          | some l4 =>
            simp only [Bool.false_eq_true, ↓reduceIte]
            rw [(confirmTxs_frame _ _ _ _ _ _ _ _ hc).1]
            simp only
            apply saveBlock_stores

/-- **the same block submitted twice** (two peers pushing it): whatever the first submission did, the second is refused and
writes nothing - so of two submissions of one block, in either order, at most one is accepted and the ledger is the one
after a single submission. (`lrace confirm:b confirm:b` checks that the real ledger behaves like one of the two orders
when both submissions are in flight at once.) -/
theorem confirm_same_block_twice (l : L) (id pre : Nat) (txs : List (Nat × Bool)) (pre' : Nat) (txs' : List (Nat × Bool))
    (h : (confirm l id pre txs).2 ≠ .fail) :
    confirm (confirm l id pre txs).1 id pre' txs' = ((confirm l id pre txs).1, .fail) := by
  have hs := confirm_accepted_stored l id pre txs h
  generalize (confirm l id pre txs).1 = l1 at hs ⊢
  unfold confirm
  simp [hs]

/-- a block whose parent is not stored is refused -/
theorem confirm_unknown_parent_refused (l : L) (id pre : Nat) (txs : List (Nat × Bool)) (h : lookup l.B pre = none) :
    (confirm l id pre txs).2 = .fail := by
  unfold confirm
  by_cases h1 : (lookup l.B id).isSome = true
  · simp [h1]
  · simp [h1, h]

-- non-vacuity: genesis, two competing children (the first stays tip), then a grandchild switches the trunk
example :
    let l0 := genesis 0 [0]
    let l1 := (confirm l0 1 0 []).1
    let l2 := (confirm l1 2 0 []).1
    let l3 := (confirm l2 3 2 []).1
    l1.tip = 1 ∧ l2.tip = 1 ∧ (confirm l1 2 0 []).2 = .succSide ∧ l3.tip = 3 ∧ (confirm l2 3 2 []).2 = .succSwitch ∧
    (lookup l3.B 1).map (·.inTrunk) = some false ∧ (lookup l3.B 2).map (·.inTrunk) = some true ∧
    lookup l3.ZH 1 = some 2 := by decide

/-! ## The main-chain invariant `LedgerInv` (defined in `XV/Lemmas/LedgerInvDef.lean`)

`LedgerInv l` states, for the stored tree: (a) `tree` parents stored / heights consecutive / root at height 0,
(b) `tip` stored at `trunkHeight` (its path reaches the root: `ledgerInv_path`), (c) `trunk` flag ↔ on the path,
(d) `zh_sound`/`zh_complete` height index = path blocks (`ledgerInv_zh`), (e) `next_path`/`next_none` next links,
(f) `height_le`, (g) `zi`/`zi_nodup` branch tips = leaves, (h) `c_sound`/`c_total`/`c_trunk` confirmed table,
`norepeat` no transaction repeated along a branch. `OnPath l b` is `Anc l b l.tip`; `onPath_iff_pathOf` identifies it
with membership in the model's computed `pathOf l l.tip`. -/

/-- the genesis ledger satisfies the invariant -/
theorem genesis_inv (id : Nat) (txs : List Nat) : LedgerInv (genesis id txs) := genesis_ledgerInv id txs

example : LedgerInv (genesis 7 [1, 2]) := genesis_inv 7 [1, 2]

/-- **`confirm` preserves the invariant** for every input (refused, trunk extension, side attachment, trunk switch).
`hfresh`: no transaction of the new block occurs in a block of the branch it is attached to; `hidC`: confirmed-table
entries naming `id` (possible only as leftovers of a truncated block `id`) are transactions of the new block. Both
hypotheses are decidable on concrete tables. -/
theorem confirm_inv (l : L) (id pre : Nat) (txs : List (Nat × Bool)) (I : LedgerInv l)
    (hfresh : ∀ t, t ∈ txs.map (·.1) → t ∉ branchTxs l pre)
    (hidC : ∀ p, p ∈ l.C → p.2 = id → p.1 ∈ txs.map (·.1)) : LedgerInv (confirm l id pre txs).1 :=
  confirm_ledgerInv_dec I id pre txs hfresh hidC

/-- `confirm_inv` with the hypotheses phrased through the ancestor relation (weaker hypotheses, same conclusion) -/
theorem confirm_inv_anc (l : L) (id pre : Nat) (txs : List (Nat × Bool)) (I : LedgerInv l)
    (hfresh : ∀ a ha, Anc l a pre → lookup l.B a = some ha → ∀ t, t ∈ txs.map (·.1) → t ∉ ha.txs)
    (hidC : ∀ t, lookup l.C t = some id → t ∈ txs.map (·.1)) : LedgerInv (confirm l id pre txs).1 :=
  confirm_ledgerInv I id pre txs hfresh hidC

-- non-vacuity: extension, side attachment and trunk switch in one history, each step through `confirm_inv`
example :
    let l0 := genesis 0 [0]
    let l1 := (confirm l0 1 0 [(1, true)]).1
    let l2 := (confirm l1 2 0 [(2, true), (5, false)]).1
    let l3 := (confirm l2 3 2 [(3, true), (1, false)]).1
    LedgerInv l3 ∧ (confirm l0 1 0 [(1, true)]).2 = .succ ∧ (confirm l1 2 0 [(2, true), (5, false)]).2 = .succSide ∧
      (confirm l2 3 2 [(3, true), (1, false)]).2 = .succSwitch := by
  refine ⟨?_, by decide, by decide, by decide⟩
  have I0 := genesis_inv 0 [0]
  have I1 := confirm_inv _ 1 0 [(1, true)] I0 (by decide) (by decide)
  have I2 := confirm_inv _ 2 0 [(2, true), (5, false)] I1 (by decide) (by decide)
  exact confirm_inv _ 3 2 [(3, true), (1, false)] I2 (by decide) (by decide)

/-- the key lemma of the switch case: started on two stored blocks of equal height with fuel above that height,
`handleFork` terminates and returns the height of their lowest common ancestor (its exact effect on the tables is
`XV.Ledger.ForkSpec`) -/
theorem handleFork_lca (l0 : L) (T : TreeInv l0) (fuel p q : Nat) (nh : Option Nat) (l : L) (pb qb : Hdr)
    (sp : lookup l0.B p = some pb) (sq : lookup l0.B q = some qb) (heq : pb.height = qb.height) (hf : qb.height < fuel) :
    ∃ l' s sb, handleFork l0 fuel p q nh l = some (l', sb.height) ∧ lookup l0.B s = some sb ∧ IsLCA l0 s p q ∧
      ForkSpec l0 l l' p q nh s sb qb.height := by
  obtain ⟨l', s, sb, h, S⟩ := handleFork_spec T fuel p q nh l pb qb sp sq heq hf
  exact ⟨l', s, sb, h, S.s_stored, ⟨S.s_p, S.s_q, S.s_max⟩, S⟩

-- non-vacuity: two siblings 1, 2 of the genesis block (equal height 1, fuel 3); the split height is 0
example :
    let l2 := (confirm (confirm (genesis 0 []) 1 0 []).1 2 0 []).1
    (lookup l2.B 1).map (·.height) = some 1 ∧ (lookup l2.B 2).map (·.height) = some 1 ∧
    (handleFork l2 3 1 2 none l2).map (·.2) = some 0 := by decide

/-- under the invariant, the main chain is the computed path from the tip -/
theorem onPath_iff_pathOf (l : L) (I : LedgerInv l) (b : Nat) : OnPath l b ↔ b ∈ pathOf l l.tip := I.onPath_iff b

/-- (b) the computed path from the tip contains the root and has `trunkHeight + 1` blocks -/
theorem ledgerInv_path (l : L) (I : LedgerInv l) :
    l.root ∈ pathOf l l.tip ∧ (pathOf l l.tip).length = l.trunkHeight + 1 := I.pathOf_tip

/-- (d) the height index: the path block of height `k` up to the trunk height, nothing above -/
theorem ledgerInv_zh (l : L) (I : LedgerInv l) (k : Nat) :
    (k ≤ l.trunkHeight → ∃ b h, lookup l.ZH k = some b ∧ lookup l.B b = some h ∧ h.height = k ∧ b ∈ pathOf l l.tip) ∧
    (l.trunkHeight < k → lookup l.ZH k = none) := by
  refine ⟨fun hk => ?_, fun hk => I.zh_none_above hk⟩
  obtain ⟨b, h, h1, h2, h3, h4⟩ := I.zh_at hk
  exact ⟨b, h, h1, h2, h3, (I.onPath_iff b).1 h4⟩

example : (0 ≤ (genesis 7 [1]).trunkHeight → ∃ b h, lookup (genesis 7 [1]).ZH 0 = some b ∧
    lookup (genesis 7 [1]).B b = some h ∧ h.height = 0 ∧ b ∈ pathOf (genesis 7 [1]) (genesis 7 [1]).tip) :=
  (ledgerInv_zh _ (genesis_inv 7 [1]) 0).1

/-- (c) the trunk flag marks exactly the blocks of the computed path -/
theorem ledgerInv_flag (l : L) (I : LedgerInv l) (b : Nat) (h : Hdr) (hb : lookup l.B b = some h) :
    h.inTrunk = true ↔ b ∈ pathOf l l.tip := by
  rw [I.trunk b h hb, I.onPath_iff]

/-- (e) `next` of a path block = the height-index entry one higher (the path block above it; none at the tip);
off-path blocks have no `next` -/
theorem ledgerInv_next (l : L) (I : LedgerInv l) (b : Nat) (h : Hdr) (hb : lookup l.B b = some h) :
    (b ∈ pathOf l l.tip → h.next = lookup l.ZH (h.height + 1)) ∧ (b ∉ pathOf l l.tip → h.next = none) := by
  rw [← I.onPath_iff]
  exact I.next_eq hb

example : ∃ h, lookup (genesis 7 [1]).B 7 = some h ∧ h.inTrunk = true ∧ h.next = lookup (genesis 7 [1]).ZH (h.height + 1) :=
  ⟨⟨none, 0, true, none, [1]⟩, by decide, rfl, by decide⟩

/-- **history form**: after any list of `confirm` operations from genesis in which no block repeats a transaction of
its own branch (`OpsOk`; refused operations included), the invariant and `CStored` hold -/
theorem history_inv (g : Nat) (gtxs : List Nat) (ops : List (Nat × Nat × List (Nat × Bool)))
    (ok : OpsOk (genesis g gtxs) ops) :
    LedgerInv (runOps (genesis g gtxs, [g]) ops).1 ∧ CStored (runOps (genesis g gtxs, [g]) ops).1 :=
  runOps_fst (genesis g gtxs, [g]) ops (genesis_inv g gtxs) (genesis_cstored g gtxs) ok

example : OpsOk (genesis 0 [0]) [(1, 0, [(1, true)]), (2, 0, [(2, true)]), (2, 0, []), (3, 2, [(1, false)]), (9, 8, [])] := by
  decide

/-- `IsTxInTrunk` answers exactly "some main-chain block contains the transaction" -/
theorem isTxInTrunk_iff (l : L) (I : LedgerInv l) (t : Nat) :
    isTxInTrunk l t = true ↔ ∃ b h, lookup l.B b = some h ∧ b ∈ pathOf l l.tip ∧ t ∈ h.txs := by
  unfold isTxInTrunk
  constructor
  · intro h
    cases hc : lookup l.C t with
    | none => simp [hc] at h
    | some b =>
      cases hb : lookup l.B b with
      | none => simp [hc, hb] at h
      | some hd =>
        simp only [hc, hb] at h
        exact ⟨b, hd, hb, (I.onPath_iff b).1 ((I.trunk b hd hb).1 h), I.c_sound t b hd hc hb⟩
  · rintro ⟨b, hd, hb, hp, ht⟩
    have hp' := (I.onPath_iff b).2 hp
    rw [I.c_trunk b hd t hb hp' ht]
    simp only [hb]
    exact (I.trunk b hd hb).2 hp'

example : isTxInTrunk (genesis 7 [1, 2]) 2 = true := (isTxInTrunk_iff _ (genesis_inv 7 [1, 2]) 2).2
  ⟨7, ⟨none, 0, true, none, [1, 2]⟩, by decide, by decide, by decide⟩

/-- `FindUndoAndTodoBlocks` for stored `cur`, `dest`: with `s` their lowest common ancestor, `pathOf cur` is `undo`
followed by `pathOf s` and `pathOf dest` is `todo` followed by `pathOf s` (so the lists are the ancestors strictly
above `s`, newest first), membership is "ancestor of the one but not of the other", the lists share no block, and
the last block of each has `s` as parent. -/
theorem findUndoTodo_correct (l : L) (I : LedgerInv l) (cur dest : Nat) (hc hd : Hdr) (sc : lookup l.B cur = some hc)
    (sd : lookup l.B dest = some hd) :
    ∃ s, IsLCA l s cur dest ∧
      pathOf l cur = (findUndoTodo l cur dest).1 ++ pathOf l s ∧
      pathOf l dest = (findUndoTodo l cur dest).2 ++ pathOf l s ∧
      (∀ x, x ∈ (findUndoTodo l cur dest).1 ↔ Anc l x cur ∧ ¬ Anc l x dest) ∧
      (∀ x, x ∈ (findUndoTodo l cur dest).2 ↔ Anc l x dest ∧ ¬ Anc l x cur) ∧
      (∀ x, x ∈ (findUndoTodo l cur dest).1 → x ∉ (findUndoTodo l cur dest).2) ∧
      (∀ y, (findUndoTodo l cur dest).1.getLast? = some y → par l y = some s) ∧
      (∀ y, (findUndoTodo l cur dest).2.getLast? = some y → par l y = some s) :=
  findUndoTodo_spec I.tree sc sd

-- non-vacuity: the siblings 1 and 2 are stored; undo = [1], todo = [2], common ancestor 0
example :
    let l2 := (confirm (confirm (genesis 0 []) 1 0 []).1 2 0 []).1
    (lookup l2.B 1).isSome = true ∧ (lookup l2.B 2).isSome = true ∧ findUndoTodo l2 1 2 = ([1], [2]) := by decide

/-- **`truncate` to a block of the main chain preserves the invariant** (all blocks higher than the target, on every
branch, are removed; cut branches get their kept end as branch tip; the confirmed table is left alone, which is why
`LedgerInv` allows entries naming blocks that are no longer stored — see `truncate_cstored_refuted`) -/
theorem truncate_inv (l : L) (target : Nat) (I : LedgerInv l) (hon : target ∈ pathOf l l.tip) :
    LedgerInv (truncate l target).1 :=
  truncate_ledgerInv I target ((I.onPath_iff target).2 hon)

-- non-vacuity: after the trunk switch of the example above (main chain 3 → 2 → 0, side block 1), cut back to block 2
-- and to the root
example :
    let l0 := genesis 0 [0]
    let l1 := (confirm l0 1 0 [(1, true)]).1
    let l2 := (confirm l1 2 0 [(2, true), (5, false)]).1
    let l3 := (confirm l2 3 2 [(3, true), (1, false)]).1
    LedgerInv (truncate l3 2).1 ∧ (truncate l3 2).2 = true ∧ LedgerInv (truncate l3 0).1 ∧
      (truncate l3 0).1.B.map (·.1) = [0] := by
  have I0 := genesis_inv 0 [0]
  have I1 := confirm_inv _ 1 0 [(1, true)] I0 (by decide) (by decide)
  have I2 := confirm_inv _ 2 0 [(2, true), (5, false)] I1 (by decide) (by decide)
  have I3 := confirm_inv _ 3 2 [(3, true), (1, false)] I2 (by decide) (by decide)
  exact ⟨truncate_inv _ 2 I3 (by decide), by decide, truncate_inv _ 0 I3 (by decide), by decide⟩

/-- **the tip is the first-confirmed highest block**: after ANY list of `confirm` operations from genesis (no
hypothesis on them; refused ones write nothing), with `log` = ids of the confirmed blocks in confirmation order
(`runOps`): `log` lists exactly the stored blocks, once each; no stored block is higher than the trunk; the tip has
the trunk height; and every other block of that (maximal) height was confirmed after the tip. This is the
history-level consequence of `confirm_tip_rule` (the tip moves only to a strictly higher block). -/
theorem tip_is_first_highest (g : Nat) (gtxs : List Nat) (ops : List (Nat × Nat × List (Nat × Bool))) :
    let s := runOps (genesis g gtxs, [g]) ops
    (∀ b, b ∈ s.2 ↔ (lookup s.1.B b).isSome = true) ∧ s.2.Nodup ∧
    (∀ b hb, lookup s.1.B b = some hb → hb.height ≤ s.1.trunkHeight) ∧
    (∃ th, lookup s.1.B s.1.tip = some th ∧ th.height = s.1.trunkHeight) ∧
    (∀ b hb, lookup s.1.B b = some hb → hb.height = s.1.trunkHeight → b ≠ s.1.tip →
      ∃ l1 l2 l3, s.2 = l1 ++ s.1.tip :: l2 ++ b :: l3) := by
  intro s
  have H : HInv s.1 s.2 := runOps_hinv (genesis g gtxs, [g]) ops (genesis_hinv g gtxs)
  refine ⟨?_, H.nodup, ?_, ?_, ?_⟩
  · intro b
    rw [H.dom b]
    simp [hmap]
  · intro b hb sb
    exact H.le b hb.height (by simp [hmap, sb])
  · have := H.tipH
    unfold hmap at this
    cases ht : lookup s.1.B s.1.tip with
    | none => simp [ht] at this
    | some th => exact ⟨th, rfl, by simpa [ht] using this⟩
  · intro b hb sb hh hne
    exact H.first b (by simp [hmap, sb, hh]) hne

-- non-vacuity: blocks 1 and 2 compete at height 1 (1 confirmed first stays tip), a duplicate of 2 is refused,
-- then 3 on top of 2 switches; the log is the confirmation order
example :
    let s := runOps (genesis 0 [], [0]) [(1, 0, []), (2, 0, []), (2, 0, []), (9, 8, [])]
    s.1.tip = 1 ∧ s.2 = [0, 1, 2] ∧ (lookup s.1.B 2).map (·.height) = some s.1.trunkHeight := by decide

example :
    let s := runOps (genesis 0 [], [0]) [(1, 0, []), (2, 0, []), (3, 2, []), (4, 1, [])]
    s.1.tip = 3 ∧ s.2 = [0, 1, 2, 3, 4] ∧ (lookup s.1.B 4).map (·.height) = some s.1.trunkHeight := by decide

/-! ### item (h) in full strength, and why `LedgerInv` states it in the weaker, truncation-proof form

`CStored l`: every confirmed-table entry names a stored block. It holds at genesis and is preserved by `confirm`
(`confirm_inv_cstored`, which then needs no hypothesis about left-over entries); together with `LedgerInv` it gives
`HFull`: every transaction of a stored block is mapped to a stored block containing it. `truncate` leaves the
confirmed table alone, so it preserves neither (`truncate_hfull_refuted`): the model (like the code, cf. the
"old block truncated away" branch of `confirmTxs`) lives with dangling entries. -/

/-- along truncation-free histories: `confirm` preserves `LedgerInv ∧ CStored` under the no-repeat hypothesis alone -/
theorem confirm_inv_cstored (l : L) (id pre : Nat) (txs : List (Nat × Bool)) (I : LedgerInv l) (CS : CStored l)
    (hfresh : ∀ t, t ∈ txs.map (·.1) → t ∉ branchTxs l pre) :
    LedgerInv (confirm l id pre txs).1 ∧ CStored (confirm l id pre txs).1 :=
  confirm_ledgerInv_cstored_dec I CS id pre txs hfresh

/-- (h), full form: under `LedgerInv` and `CStored`, every transaction of a stored block is mapped by the confirmed
table to a stored block containing it (and to THE main-chain block containing it if there is one: `c_trunk`) -/
theorem tx_maps_to_stored_block (l : L) (I : LedgerInv l) (CS : CStored l) : HFull l := hfull_of_cstored I CS

example : HFull (genesis 7 [1, 2]) := tx_maps_to_stored_block _ (genesis_inv 7 [1, 2]) (genesis_cstored 7 [1, 2])

/-- the full form of (h) as an invariant of `truncate` — FALSE for the model, see `truncate_hfull_refuted` -/
def truncate_hfull_statement : Prop :=
  ∀ (l : L) (target : Nat), LedgerInv l → HFull l → target ∈ pathOf l l.tip → HFull (truncate l target).1

/-- witness: tx 7 sits in block 1 (height 1) and in block 3 (height 2, on the main chain 3 → 2 → 0 after a switch), so
`C 7 = 3`; truncating to block 2 removes block 3 but keeps block 1, whose transaction 7 is now mapped to a block
that is no longer stored -/
theorem truncate_hfull_refuted : ¬ truncate_hfull_statement := by
  intro h
  have I0 := genesis_inv 0 []
  have C0 := genesis_cstored 0 []
  obtain ⟨I1, C1⟩ := confirm_inv_cstored _ 1 0 [(7, false)] I0 C0 (by decide)
  obtain ⟨I2, C2⟩ := confirm_inv_cstored _ 2 0 [(8, false)] I1 C1 (by decide)
  obtain ⟨I3, C3⟩ := confirm_inv_cstored _ 3 2 [(7, false)] I2 C2 (by decide)
  have := h _ 2 I3 (tx_maps_to_stored_block _ I3 C3) (by decide) 1 ⟨some 0, 1, false, none, [7]⟩ 7 (by decide) (by decide)
  obtain ⟨c, ch, h1, h2, _⟩ := this
  have e : c = 3 := by
    have : lookup (truncate (confirm (confirm (confirm (genesis 0 []) 1 0 [(7, false)]).1 2 0 [(8, false)]).1 3 2
      [(7, false)]).1 2).1.C 7 = some 3 := by decide
    rw [this] at h1; cases h1; rfl
  subst e
  have : lookup (truncate (confirm (confirm (confirm (genesis 0 []) 1 0 [(7, false)]).1 2 0 [(8, false)]).1 3 2
      [(7, false)]).1 2).1.B 3 = none := by decide
  rw [this] at h2; cases h2

/-! ### a branch-tip scan that breaks off (storage read fault) -/

/-- `truncate` is `truncateOn` applied to the complete scan -/
theorem truncateOn_scanTips (l : L) (target : Nat) (th : Hdr) (h : lookup l.B target = some th) :
    truncateOn l target (scanTips l target th.height) = truncate l target := by
  simp [truncateOn, truncate, scanTips, h]

/-- a scan that breaks off makes the truncation fail and leaves every table as it was, wherever it breaks off -/
theorem truncateScan_fault_noop (l : L) (target n : Nat) : truncateScan l target (some n) = (l, false) := by
  unfold truncateScan; cases lookup l.B target <;> rfl

/-- without a fault `truncateScan` is `truncate`: `truncate_inv` carries over -/
theorem truncateScan_inv (l : L) (target : Nat) (brk : Option Nat) (I : LedgerInv l) (hon : target ∈ pathOf l l.tip) :
    LedgerInv (truncateScan l target brk).1 := by
  unfold truncateScan
  cases hb : lookup l.B target with
  | none => exact I
  | some th =>
    cases brk with
    | none => exact truncate_inv l target I hon
    | some n => exact I

/-- trusting a scan that broke off — FALSE, see `truncate_partial_scan_refuted` -/
def truncate_partial_scan_statement : Prop :=
  ∀ (l : L) (target n : Nat), LedgerInv l → target ∈ pathOf l l.tip → LedgerInv (truncatePartial l target n).1

/-- witness: main chain 0 - 1 - 2 and a side block 3 on the root: two branch tips (2 and 3) above the root. A truncation to
the root that is told about the first tip only reports success with trunk height 0 and leaves a block of height 1 stored -/
theorem truncate_partial_scan_refuted : ¬ truncate_partial_scan_statement := by
  intro h
  have I0 := genesis_inv 0 []
  have I1 := confirm_inv _ 1 0 [] I0 (by decide) (by decide)
  have I2 := confirm_inv _ 2 1 [] I1 (by decide) (by decide)
  have I3 := confirm_inv _ 3 0 [] I2 (by decide) (by decide)
  have I' := h _ 0 1 I3 (by decide)
  have hex : ∃ b hd, lookup (truncatePartial (confirm (confirm (confirm (genesis 0 []) 1 0 []).1 2 1 []).1 3 0 []).1 0 1).1.B b
      = some hd ∧ hd.height = 1 := by
    first
      | exact ⟨3, ⟨some 0, 1, false, none, []⟩, by decide, rfl⟩
      | exact ⟨1, ⟨some 0, 1, true, some 2, []⟩, by decide, rfl⟩
      | exact ⟨1, ⟨some 0, 1, true, none, []⟩, by decide, rfl⟩
  obtain ⟨b, hd, hb, hh⟩ := hex
  have := I'.height_le b hd hb
  have ht : (truncatePartial (confirm (confirm (confirm (genesis 0 []) 1 0 []).1 2 1 []).1 3 0 []).1 0 1).1.trunkHeight = 0 := by
    decide
  omega

/-! ### the hypotheses of `truncate_inv` and `confirm_inv` are needed -/

/-- `truncate_inv` without "target on the main chain" — FALSE, see `truncate_offchain_refuted` -/
def truncate_any_statement : Prop := ∀ (l : L) (target : Nat), LedgerInv l → LedgerInv (truncate l target).1

/-- witness: blocks 1 (tip) and 2 (side) below the root; truncating to the side block 2 makes it the tip without
flagging it as trunk -/
theorem truncate_offchain_refuted : ¬ truncate_any_statement := by
  intro h
  have I0 := genesis_inv 0 []
  have I1 := confirm_inv _ 1 0 [] I0 (by decide) (by decide)
  have I2 := confirm_inv _ 2 0 [] I1 (by decide) (by decide)
  have I' := h _ 2 I2
  have ht : (truncate (confirm (confirm (genesis 0 []) 1 0 []).1 2 0 []).1 2).1.tip = 2 := by decide
  have hp : OnPath (truncate (confirm (confirm (genesis 0 []) 1 0 []).1 2 0 []).1 2).1 2 := by
    unfold OnPath; rw [ht]; exact Anc.refl _
  have := (I'.trunk 2 ⟨some 0, 1, false, none, []⟩ (by decide)).2 hp
  cases this

/-- `confirm_inv` without the hypothesis on left-over confirmed-table entries — FALSE, see
`confirm_leftover_refuted` -/
def confirm_no_leftover_hyp_statement : Prop :=
  ∀ (l : L) (id pre : Nat) (txs : List (Nat × Bool)), LedgerInv l →
    (∀ t, t ∈ txs.map (·.1) → t ∉ branchTxs l pre) → LedgerInv (confirm l id pre txs).1

/-- witness: block 1 with transaction 7 is confirmed and truncated away (`C 7 = 1` stays); a different block with the
same id 1 and no transactions is confirmed: the entry now names a stored block that does not contain 7. (Block ids are
content hashes, so the real ledger never sees this; the model's ids are arbitrary numbers.) -/
theorem confirm_leftover_refuted : ¬ confirm_no_leftover_hyp_statement := by
  intro h
  have I0 := genesis_inv 0 []
  have I1 := confirm_inv _ 1 0 [(7, false)] I0 (by decide) (by decide)
  have It := truncate_inv _ 0 I1 (by decide)
  have I' := h _ 1 0 [] It (by decide)
  have := I'.c_sound 7 1 ⟨some 0, 1, true, none, []⟩ (by decide) (by decide)
  cases this

-- non-vacuity of the remaining statements: their only hypothesis is `LedgerInv`, instantiated with the state after
-- the trunk switch (main chain 3 → 2 → 0, side block 1); `confirm_inv_anc` instantiated at genesis
example :
    let l0 := genesis 0 [0]
    let l1 := (confirm l0 1 0 [(1, true)]).1
    let l2 := (confirm l1 2 0 [(2, true), (5, false)]).1
    let l3 := (confirm l2 3 2 [(3, true), (1, false)]).1
    (l3.root ∈ pathOf l3 l3.tip ∧ (pathOf l3 l3.tip).length = l3.trunkHeight + 1) ∧ pathOf l3 l3.tip = [3, 2, 0] ∧
    (OnPath l3 2 ↔ 2 ∈ pathOf l3 l3.tip) ∧
    (∀ b h, lookup l3.B b = some h → (h.inTrunk = true ↔ b ∈ pathOf l3 l3.tip)) ∧
    (∀ b h, lookup l3.B b = some h → (b ∈ pathOf l3 l3.tip → h.next = lookup l3.ZH (h.height + 1)) ∧
      (b ∉ pathOf l3 l3.tip → h.next = none)) ∧
    (isTxInTrunk l3 1 = true ↔ ∃ b h, lookup l3.B b = some h ∧ b ∈ pathOf l3 l3.tip ∧ 1 ∈ h.txs) ∧
    isTxInTrunk l3 1 = true ∧ lookup l3.C 1 = some 3 := by
  have I0 := genesis_inv 0 [0]
  have I1 := confirm_inv _ 1 0 [(1, true)] I0 (by decide) (by decide)
  have I2 := confirm_inv _ 2 0 [(2, true), (5, false)] I1 (by decide) (by decide)
  have I3 := confirm_inv _ 3 2 [(3, true), (1, false)] I2 (by decide) (by decide)
  exact ⟨ledgerInv_path _ I3, by decide, onPath_iff_pathOf _ I3 2, ledgerInv_flag _ I3, ledgerInv_next _ I3,
    isTxInTrunk_iff _ I3 1, by decide, by decide⟩

example : LedgerInv (confirm (genesis 0 [0]) 1 0 [(1, true)]).1 := by
  refine confirm_inv_anc _ 1 0 [(1, true)] (genesis_inv 0 [0]) ?_ ?_
  · intro a ha hab sa t ht
    obtain ⟨_, e⟩ := genesis_stored sa
    subst e
    simp only [List.map_cons, List.map_nil, List.mem_singleton] at ht
    subst ht
    decide
  · intro t ht
    have : lookup (genesis 0 [0]).C t = if t ∈ [0] then some 0 else none := lookup_map_const [0] 0 t
    rw [this] at ht
    by_cases e : t ∈ [0]
    · rw [if_pos e] at ht; cases ht
    · rw [if_neg e] at ht; cases ht

example :
    LedgerInv (confirm (genesis 0 [0]) 1 0 [(1, true)]).1 ∧ CStored (confirm (genesis 0 [0]) 1 0 [(1, true)]).1 :=
  confirm_inv_cstored _ 1 0 [(1, true)] (genesis_inv 0 [0]) (genesis_cstored 0 [0]) (by decide)

end XV.C04
