import XV.Lemmas.Assoc
import XV.Model.Ledger
/-!
C04 — ledger main-chain integrity under forks, reorganisations and truncation.
Theorems about the table-level ledger model `XV.Ledger` (which mirrors `ConfirmBlock`, `handleFork`, `Truncate`):
the tip rule (the tip moves only to a strictly higher block, so the earlier-confirmed block wins ties), monotone
trunk height, what an extension / a side attachment / a truncation writes, and that a refused operation writes
nothing. The full invariant (path, flags, height index, next links, tx mapping, branch tips) after *every* history
is checked on the implementation by the oracle of the `chain` harness after every operation and the model is
compared with the implementation's raw tables after every operation; its proof for trunk switches is not done
(`ledger_inv` is therefore claimed as partial in the registry).
-/
namespace XV.C04
open XV.Chain (lookup put del lookup_put lookup_del)
open XV.Ledger

theorem confirmTxs_frame (l0 : L) (id : Nat) (it : Bool) (sh : Nat) (txs : List (Nat × Bool)) (cb : Nat) (l l' : L)
    (h : confirmTxs l0 id it sh txs cb l = some l') :
    l'.B = l.B ∧ l'.ZH = l.ZH ∧ l'.ZI = l.ZI ∧ l'.tip = l.tip ∧ l'.trunkHeight = l.trunkHeight ∧ l'.root = l.root := by
  induction txs generalizing cb l with
  | nil => simp [confirmTxs] at h; subst h; simp
  | cons p rest ih =>
    obtain ⟨t, c⟩ := p
    unfold confirmTxs at h
    simp only at h
    repeat' split at h
    all_goals first
      | (simp at h; done)
      | (have := ih _ _ h; simpa using this)

theorem saveBlock_meta (l : L) (id : Nat) (h : Hdr) :
    (saveBlock l id h).tip = l.tip ∧ (saveBlock l id h).trunkHeight = l.trunkHeight ∧ (saveBlock l id h).ZI = l.ZI ∧
    (saveBlock l id h).C = l.C ∧ (saveBlock l id h).root = l.root := by
  unfold saveBlock; simp

theorem handleFork_meta (l0 : L) (fuel p q : Nat) (nh : Option Nat) (l l' : L) (sh : Nat)
    (h : handleFork l0 fuel p q nh l = some (l', sh)) :
    l'.tip = l.tip ∧ l'.trunkHeight = l.trunkHeight ∧ l'.ZI = l.ZI ∧ l'.root = l.root := by
  induction fuel generalizing p q nh l with
  | zero => simp [handleFork] at h
  | succ n ih =>
    unfold handleFork at h
    split at h
    · split at h
      · simp at h
      · simp at h
        obtain ⟨h1, _⟩ := h
        subst h1
        obtain ⟨a, b, c, _, d⟩ := saveBlock_meta l q _
        exact ⟨a, b, c, d⟩
    · split at h
      · split at h
        · have := ih _ _ _ _ h
          obtain ⟨a1, a2, a3, a4⟩ := this
          simp only [saveBlock, correctTxs] at a1 a2 a3 a4
          exact ⟨a1, a2, a3, a4⟩
        · simp at h
      · simp at h

/-- **tip rule**: a successful confirmation either leaves tip and trunk height alone, or makes the new block the tip,
and then the new block is strictly higher than the old trunk. Hence among blocks of maximal height the
earlier-confirmed one stays the tip. -/
theorem confirm_tip_rule (l : L) (id pre : Nat) (txs : List (Nat × Bool)) (h : (confirm l id pre txs).2 ≠ .fail) :
    ((confirm l id pre txs).1.tip = l.tip ∧ (confirm l id pre txs).1.trunkHeight = l.trunkHeight) ∨
    ((confirm l id pre txs).1.tip = id ∧ l.trunkHeight < (confirm l id pre txs).1.trunkHeight) := by
  unfold confirm at h ⊢
  by_cases h1 : (lookup l.B id).isSome = true
  · simp [h1] at h
  · simp only [h1] at h ⊢
    cases hp : lookup l.B pre with
    | none => simp [hp] at h
    | some pb =>
      simp only [hp] at h ⊢
      by_cases h2 : pre = l.tip
      · simp only [h2, ↓reduceIte] at h ⊢
        revert h
        cases hc : confirmTxs l id true l.trunkHeight txs 0 _ with
        | none => simp
        | some l4 =>
          intro _
          right
          simp only [Bool.false_eq_true, ↓reduceIte]
          refine ⟨trivial, by omega⟩
      · simp only [h2, ↓reduceIte] at h ⊢
        by_cases h3 : pb.height + 1 > l.trunkHeight
        · simp only [h3, ↓reduceIte] at h ⊢
          revert h
          cases hf : handleFork l (l.trunkHeight + 2) l.tip pre (some id) l with
          | none => simp
          | some r =>
            obtain ⟨l1, sh⟩ := r
            simp only
            cases hc : confirmTxs l id true sh txs 0 _ with
            | none => simp
            | some l4 =>
              intro _
              right
              exact ⟨rfl, by simpa using h3⟩
        · simp only [h3, ↓reduceIte] at h ⊢
          revert h
          cases hc : confirmTxs l id false l.trunkHeight txs 0 _ with
          | none => simp
          | some l4 =>
            intro _
            left
            obtain ⟨_, _, _, f4, f5, _⟩ := confirmTxs_frame _ _ _ _ _ _ _ _ hc
            simp only [Bool.false_eq_true, ↓reduceIte]
            rw [f4, f5]
            simp [saveBlock]

/-- the trunk height never decreases by a confirmation -/
theorem confirm_trunkHeight_mono (l : L) (id pre : Nat) (txs : List (Nat × Bool)) :
    l.trunkHeight ≤ (confirm l id pre txs).1.trunkHeight := by
  by_cases h : (confirm l id pre txs).2 = .fail
  · have : (confirm l id pre txs).1 = l := by
      unfold confirm at h ⊢
      by_cases h1 : (lookup l.B id).isSome = true
      · simp [h1]
      · simp only [h1] at h ⊢
        cases hp : lookup l.B pre with
        | none => simp
        | some pb =>
          simp only [hp] at h ⊢
          by_cases h2 : pre = l.tip
          · simp only [h2, ↓reduceIte] at h ⊢
            revert h
            generalize confirmTxs l id true l.trunkHeight txs 0 _ = res
            rcases res with _ | l4 <;> simp
          · simp only [h2, ↓reduceIte] at h ⊢
            by_cases h3 : pb.height + 1 > l.trunkHeight
            · simp only [h3, ↓reduceIte] at h ⊢
              revert h
              generalize handleFork l (l.trunkHeight + 2) l.tip pre (some id) l = hf
              rcases hf with _ | ⟨l1, sh⟩
              · simp
              · simp only
                generalize confirmTxs l id true sh txs 0 _ = res
                rcases res with _ | l4 <;> simp
            · simp only [h3, ↓reduceIte] at h ⊢
              revert h
              generalize confirmTxs l id false l.trunkHeight txs 0 _ = res
              rcases res with _ | l4 <;> simp
    rw [this]; exact Nat.le_refl _
  · rcases confirm_tip_rule l id pre txs h with ⟨_, h2⟩ | ⟨_, h2⟩ <;> omega

/-- a successful truncation makes the target the tip at the target's height -/
theorem truncate_meta (l : L) (target : Nat) (h : (truncate l target).2 = true) :
    (truncate l target).1.tip = target ∧
    ∃ th, lookup l.B target = some th ∧ (truncate l target).1.trunkHeight = th.height := by
  unfold truncate at h ⊢
  cases ht : lookup l.B target with
  | none => simp [ht] at h
  | some th => simp

/-- a block that is already stored is refused (and, by `confirm_fail_noop`, nothing is written) -/
theorem confirm_duplicate_refused (l : L) (id pre : Nat) (txs : List (Nat × Bool)) (h : (lookup l.B id).isSome = true) :
    (confirm l id pre txs).2 = .fail := by
  unfold confirm; simp [h]

/-- a block whose parent is not stored is refused -/
theorem confirm_unknown_parent_refused (l : L) (id pre : Nat) (txs : List (Nat × Bool)) (h : lookup l.B pre = none) :
    (confirm l id pre txs).2 = .fail := by
  unfold confirm
  by_cases h1 : (lookup l.B id).isSome = true
  · simp [h1]
  · simp [h1, h]

-- non-vacuity: genesis, two competing children (the first stays tip), then a grandchild switches the trunk
example :
    let l0 := genesis 0 [0]
    let l1 := (confirm l0 1 0 []).1
    let l2 := (confirm l1 2 0 []).1
    let l3 := (confirm l2 3 2 []).1
    l1.tip = 1 ∧ l2.tip = 1 ∧ (confirm l1 2 0 []).2 = .succSide ∧ l3.tip = 3 ∧ (confirm l2 3 2 []).2 = .succSwitch ∧
    (lookup l3.B 1).map (·.inTrunk) = some false ∧ (lookup l3.B 2).map (·.inTrunk) = some true ∧
    lookup l3.ZH 1 = some 2 := by decide

end XV.C04
